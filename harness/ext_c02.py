"""C02 helper: concretise the abstract frames enumerated by TLC, run them through the real constructors,
write/replay real packet logs - and record what happened (no judgement here; see spec/FrameGrammarTrace.tla
and spec/PktLogTrace.tla).
"""
from __future__ import annotations

import asyncio
from harness import vloop
import glob
import logging
import os
import random
import tempfile
from datetime import datetime as dt
from datetime import timedelta as td
from typing import Any

from harness import tlc as _tlc
from ramses_tx import exceptions as exc
from ramses_tx import packet as _packet
from ramses_tx.command import Command
from ramses_tx.logger import set_pkt_logging
from ramses_tx.packet import Packet
from ramses_tx.ramses import CODES_SCHEMA
from ramses_tx.transport import FileTransport

NON, ALL, HGI = "--:------", "63:262142", "18:000730"
REP_A, REP_B, REP_A2 = "01:145038", "04:056057", "63:000001"     # representatives used by MC_FrameGrammar
EDGE_IDS = ["63:000001", "00:000000", "63:262143", "00:262142", "63:262141", "00:000001"]
FIELDS = ("verb", "seqn", "a0", "a1", "a2", "code", "len", "payload")

# known codes whose reception does not look into the payload (Packet.pkt_lifespan / Frame._has_array do for
# 000A/2309/30C9/22C9/3150/... arrays and for 3220): used by the quick tier; thorough uses all of them
PLAIN_KNOWN = ["0008", "1F09", "3EF0", "10E0", "1260", "12B0", "2E04", "313F", "0100", "1100", "1F41", "2349"]
UNKNOWN = ["7FFE", "0F0F", "4E4E", "ABCD", "FFFF", "0003", "5A5A", "9999"]


def quiet() -> None:
    for name in ("ramses_tx.command", "ramses_tx.frame", "ramses_tx.transport", "ramses_tx.protocol", "ramses_tx.packet"):
        logging.getLogger(name).setLevel(logging.CRITICAL)
    set_pkt_logging(_packet.PKT_LOGGER)          # no file, no console: packet logger silent


# ----------------------------------------------------------------------------------------------
# spec -> code: the abstract cross product out of TLC


def abstract_frames(workers: int) -> tuple[Any, list[dict]]:
    tmp = tempfile.mkdtemp(prefix="c02dump_")
    try:
        r = _tlc.run_tlc("MC_FrameGrammar", "MC_FrameGrammar.cfg", workers=workers, timeout=900, dump=f"{tmp}/fg")
        if not r.ok:
            raise _tlc.MachineryFailure(f"MC_FrameGrammar (contract instance) did not hold: {r.violated} {r.errors[:2]}\n{r.out[-1500:]}")
        states = _tlc.read_dump(f"{tmp}/fg")
    finally:
        for fn in glob.glob(f"{tmp}/*"):
            os.unlink(fn)
        os.rmdir(tmp)
    frames = [s["f"] for s in states if s.get("stage") == 1]
    frames.sort(key=lambda f: tuple(f[k] for k in FIELDS))
    return r, frames


def concretise(fa: dict, k: int, rnd: random.Random, *, codes_known: list[str]) -> dict:
    """Abstract frame (representative tokens) -> a concrete frame of the same shape (variant k)."""
    ta, tb = k % 64, (k * 5 + 7) % 64
    sub = {REP_A: f"{ta:02d}:{145038 + k % 1000:06d}", REP_B: f"{tb:02d}:{56057 + (k // 7) % 1000:06d}",
           REP_A2: EDGE_IDS[k % len(EDGE_IDS)]}
    f = dict(fa)
    for a in ("a0", "a1", "a2"):
        f[a] = sub.get(fa[a], fa[a])
    if fa["seqn"] == "001":
        f["seqn"] = f"{1 + (k * 37) % 254:03d}"
    f["code"] = codes_known[k % len(codes_known)] if fa["code"] == "0008" else UNKNOWN[k % len(UNKNOWN)]
    n = len(fa["payload"]) // 2
    f["payload"] = "".join(f"{rnd.randrange(256):02X}" for _ in range(n))
    return f


def frame_text(f: dict) -> str:
    return " ".join(f[k] for k in FIELDS)


def short_forms(f: dict) -> dict[str, str]:
    """The CLI short forms the spec defines for f (TLC re-derives them and checks the text)."""
    v = f["verb"].strip()
    out = {"cli_full": f"{v} {f['seqn']} {f['a0']} {f['a1']} {f['a2']} {f['code']} {f['payload']}"}
    sq = "" if f["seqn"] == "---" else f["seqn"] + " "
    if (f["a2"] == NON and f["a0"] != NON and f["a1"] != NON) or (f["a1"] == NON and f["a0"] != NON and f["a2"] == f["a0"]):
        out["cli2"] = f"{v} {sq}{f['a0']} {f['a1'] if f['a2'] == NON else f['a2']} {f['code']} {f['payload']}"
    if f["a0"] == HGI and f["a2"] == NON and f["a1"] != NON:
        out["cli1"] = f"{v} {sq}{f['a1']} {f['code']} {f['payload']}"
    return out


_DTM = dt(2024, 2, 29, 23, 59, 59, 999999)


def _observe(ctor: str, text: str, fn) -> dict:
    try:
        o = fn()
    except Exception as err:  # noqa: BLE001
        # why: a coarse class of the refusal, only used to make the finding key specific (never to judge)
        why = "array-rule" if "array" in str(err) else ""
        return {"ctor": ctor, "text": text, "acc": 0, "exc": type(err).__name__,
                "gram": int(isinstance(err, exc.PacketInvalid)), "why": why}
    try:
        of = {"verb": o.verb, "seqn": o.seqn, "a0": repr(o._addrs[0]), "a1": repr(o._addrs[1]), "a2": repr(o._addrs[2]),
              "code": o.code, "len": o.len_, "payload": o.payload}
        return {"ctor": ctor, "text": text, "acc": 1, "exc": "", "gram": 0, "out": str(o), "of": of,
                "src": o.src.id, "dst": o.dst.id, "pbytes": len(o.payload) // 2}
    except Exception as err:  # noqa: BLE001
        return {"ctor": ctor, "text": text, "acc": 0, "exc": "view:" + type(err).__name__, "gram": 0}


def observe_frame(f: dict, ctors: tuple[str, ...], rssi: str = "045") -> list[dict]:
    text = frame_text(f)
    rows = []
    for c in ctors:
        if c == "cmd":
            rows.append(_observe(c, text, lambda: Command(text)))
        elif c == "attrs":
            rows.append(_observe(c, text, lambda: Command._from_attrs(
                f["verb"], f["code"], f["payload"], addr0=f["a0"], addr1=f["a1"], addr2=f["a2"],
                seqn=None if f["seqn"] == "---" else (int(f["seqn"]) if f["seqn"].isdigit() and int(f["seqn"]) % 2 else f["seqn"]))))
        elif c == "attrs_int" and f["seqn"].isdigit():   # the sequence number as the integer it is (0 included)
            rows.append(_observe(c, text, lambda: Command._from_attrs(
                f["verb"], f["code"], f["payload"], addr0=f["a0"], addr1=f["a1"], addr2=f["a2"], seqn=int(f["seqn"]))))
        elif c == "pkt_port":
            rows.append(_observe(c, text, lambda: Packet.from_port(_DTM, f"{rssi} {text}")))
        elif c == "pkt_file":
            rows.append(_observe(c, text, lambda: Packet.from_file(_DTM.isoformat(timespec="microseconds"), f"{rssi} {text}")))
        elif c == "cli" and f["payload"]:
            for form, s in short_forms(f).items():
                rows.append(_observe(form, s, lambda s=s: Command.from_cli(s)))
    for r in rows:
        r["f"] = f
    return rows


def legal_addrs(a0: str, a1: str, a2: str) -> bool:      # only used to *select* what to run, never to judge
    return ((a0 not in (NON, ALL) and a1 == NON and a2 != NON) or (a0 not in (NON, ALL) and a1 not in (NON, a0) and a2 == NON)
            or (a2 not in (NON, ALL) and a0 == NON and a1 == NON))


def frame_rows(frames_abs: list[dict], tier: str, seed: int) -> tuple[list[dict], dict]:
    rnd = random.Random(seed)
    known = sorted(CODES_SCHEMA) if tier == "thorough" else PLAIN_KNOWN
    rows: list[dict] = []
    stats = {"abstract_frames": len(frames_abs), "concrete_frames": 0, "systematic": {}}
    variants = 4 if tier == "thorough" else 1
    for i, fa in enumerate(frames_abs):
        legal = legal_addrs(fa["a0"], fa["a1"], fa["a2"])
        if not legal and tier != "thorough" and i % 3:
            continue                                   # quick: a third of the illegal address sets
        for v in range(variants):
            f = concretise(fa, i * variants + v, rnd, codes_known=known)
            stats["concrete_frames"] += 1
            rows += observe_frame(f, ("cmd", "attrs", "pkt_port", "pkt_file", "cli") if legal else ("cmd", "pkt_port"),
                                  rssi=("045", "---", "...", "000")[(i + v) % 4])
    # systematic sweeps the abstract product only samples
    base = {"verb": "RQ", "seqn": "---", "a0": "18:000730", "a1": "01:145038", "a2": NON, "code": "0008", "len": "001", "payload": "00"}
    n0 = len(rows)

    def pay(n: int) -> str:
        return "".join(f"{rnd.randrange(256):02X}" for _ in range(n))

    for n in range(1, 49):                              # all 48 payload lengths x verbs x shapes
        for verb in (" I", "RQ", "RP", " W"):
            for (a0, a1, a2) in ((HGI, "01:145038", NON), ("01:145038", NON, "01:145038"), (NON, NON, "10:105624"), ("04:000001", NON, "01:145038")):
                f = dict(base, verb=verb, a0=a0, a1=a1, a2=a2, len=f"{n:03d}", payload=pay(n), code=known[n % len(known)] if tier != "thorough" else "0008")
                rows += observe_frame(f, ("cmd", "attrs", "pkt_port", "pkt_file", "cli"))
    stats["systematic"]["payload_lengths_1_48"] = len(rows) - n0
    n0 = len(rows)
    for s in range(256):                                # all sequence numbers
        f = dict(base, seqn=f"{s:03d}", verb=(" I", "RQ", "RP", " W")[s % 4], len="003", payload=pay(3))
        rows += observe_frame(f, ("cmd", "attrs", "attrs_int", "pkt_port", "cli"))
    stats["systematic"]["seqn_000_255"] = len(rows) - n0
    n0 = len(rows)
    pairs = [(a, b) for a in range(64) for b in range(64)] if tier == "thorough" else [(a, (a * 11 + 5) % 64) for a in range(64)] + [(a, a) for a in range(64)]
    for (ta, tb) in pairs:                              # device types 00-63 in each position
        da, db = f"{ta:02d}:{rnd.randrange(262144):06d}", f"{tb:02d}:{rnd.randrange(262144):06d}"
        if da == db:
            continue
        for (a0, a1, a2) in ((da, db, NON), (da, NON, db), (NON, NON, da), (da, NON, da)):
            f = dict(base, verb=" I", a0=a0, a1=a1, a2=a2, len="002", payload=pay(2))
            rows += observe_frame(f, ("cmd", "pkt_port", "cli") if tier == "thorough" else ("cmd", "attrs", "pkt_port", "pkt_file", "cli"))
    stats["systematic"]["device_type_pairs"] = len(rows) - n0
    n0 = len(rows)
    codes = sorted(CODES_SCHEMA) + UNKNOWN + ([f"{c:04X}" for c in range(0, 65536, 257)] if tier == "thorough" else [])
    for c in codes:                                     # known and unknown codes
        for n in ((1, 2, 3, 6, 8, 12, 24, 48) if tier == "thorough" else (1, 3)):
            f = dict(base, verb=" I", a0="01:145038", a1=NON, a2="01:145038", code=c, len=f"{n:03d}", payload="00" + pay(n - 1))
            rows += observe_frame(f, ("cmd", "attrs", "pkt_port", "cli"))
    stats["systematic"]["codes"] = len(rows) - n0
    return rows, stats


def group_rows(rows: list[dict], per_item: int = 200) -> list[dict]:
    return [{"rows": rows[i: i + per_item]} for i in range(0, len(rows), per_item)]


# ----------------------------------------------------------------------------------------------
# the log leg: real file handler -> real FileTransport


class _Proto:
    def __init__(self) -> None:
        self.pkts: list[Packet] = []
        self.lost: Any = "pending"
        self.done = asyncio.get_event_loop().create_future()

    def connection_made(self, transport: Any, ramses: bool = False) -> None:
        pass

    def pkt_received(self, pkt: Packet) -> None:
        self.pkts.append(pkt)

    def connection_lost(self, err: Any) -> None:
        self.lost = err
        if not self.done.done():
            self.done.set_result(None)


def _detach() -> None:
    for h in list(_packet.PKT_LOGGER.handlers):
        _packet.PKT_LOGGER.removeHandler(h)
        h.close()
    set_pkt_logging(_packet.PKT_LOGGER)


def _asc(s: str) -> str:
    """Text as it travels to TLC: 7-bit, injective (comments may be any text; the JSON/TLC route is kept ASCII)."""
    return s if s.isascii() else s.encode("ascii", "backslashreplace").decode()


def _read_lines(path: str) -> list[str]:
    with open(path, encoding="utf-8", errors="backslashreplace") as fh:
        lines = [_asc(ln.rstrip("\n")) for ln in fh]
    # drop the library's own header line(s) '<dtm> # ramses_tx <version>' (written by set_pkt_logging at "now")
    return [ln for ln in lines if not (len(ln) > 27 and ln[26:].startswith(" # ramses_tx "))]


def t3(d: dt) -> list[int]:
    """<<day number, second of day, microsecond>> (three small integers; TLC cannot order ISO strings)."""
    return [d.toordinal(), d.hour * 3600 + d.minute * 60 + d.second, d.microsecond]


def _pkt_rec(p: Packet) -> dict:
    return {"dtm": p.dtm.isoformat(timespec="microseconds"), "t": t3(p.dtm), "rssi": p._rssi, "frame": str(p), "comment": _asc(p.comment)}


async def _replay(path: str, regen_path: str) -> tuple[list[dict], Any]:
    set_pkt_logging(_packet.PKT_LOGGER, file_name=regen_path)
    proto = _Proto()
    with open(path) as fh:
        FileTransport(fh, proto, loop=asyncio.get_running_loop())
        await asyncio.wait_for(proto.done, timeout=120)
        for _ in range(5):
            await asyncio.sleep(0)
    _detach()
    return [_pkt_rec(p) for p in proto.pkts], proto.lost


LOG_CFGS = {"plain": {}, "bytes": {"rotate_bytes": 50_000_000}, "midnight": {"rotate_backups": 3},
            "bytes+backups": {"rotate_bytes": 50_000_000, "rotate_backups": 5}}


def _offer(offers: list[dict], via: str) -> list[dict]:
    """Offer the lines to the real Packet constructors (which log them to PKT_LOGGER as configured right now)."""
    written = []
    for o in offers:
        line = f"{o['rssi']} {o['frame']}" + (f" * {o['err']}" if o["err"] else "") + (f" # {o['comment']}" if o["comment"] else "")
        dtm_s = o["dtm"].isoformat(timespec="microseconds")
        try:
            if via == "port":
                Packet.from_port(o["dtm"], line)
            elif via == "ctor":  # a packet that exists by construction, whatever its annotations' text
                Packet(o["dtm"], f"{o['rssi']} {o['frame']}", err_msg=o["err"], comment=o["comment"])
            else:
                Packet.from_file(dtm_s, line)
            acc = 1
        except (exc.PacketInvalid, ValueError, AssertionError):
            acc = 0
        written.append({"dtm": dtm_s, "t": t3(o["dtm"]), "rssi": o["rssi"], "frame": o["frame"], "err": o["err"],
                        "comment": _asc(o["comment"]), "acc": acc})
    return written


def log_session(offers: list[dict], via: str = "port", logcfg: str = "plain") -> dict:
    """offers: [{dtm (datetime), rssi, frame, err, comment}] -> item for PktLogTrace.
    logcfg: how the packet log is configured (the three handler classes of set_pkt_logging; no rollover happens)."""
    tmp = tempfile.mkdtemp(prefix="c02log_")
    p1, p2 = f"{tmp}/gen1.log", f"{tmp}/gen2.log"
    try:
        t_start = dt.now() - td(seconds=1)
        set_pkt_logging(_packet.PKT_LOGGER, file_name=p1, **LOG_CFGS[logcfg])
        written = _offer(offers, via)
        _detach()
        lines = _read_lines(p1)
        loop = asyncio.new_event_loop()
        try:
            asyncio.set_event_loop(loop)
            replayed, lost = loop.run_until_complete(_replay(p1, p2))
        finally:
            loop.close()
            asyncio.set_event_loop(None)
        if lost is not None:
            raise RuntimeError(f"FileTransport ended with {lost!r}")
        return {"written": written, "lines": lines, "replayed": replayed, "regen": _read_lines(p2), "complete": 1,
                "window": [t3(t_start), t3(dt.now() + td(seconds=1))]}
    finally:
        _detach()
        for fn in glob.glob(f"{tmp}/*"):
            os.unlink(fn)
        os.rmdir(tmp)


def real_log_session(path: str, max_lines: int | None = None) -> dict:
    """A shipped log: generation 1 = the log written while it is replayed; then as log_session."""
    offers = []
    with open(path) as fh:
        for ln in fh:
            ln = ln.strip()
            if not ln or ln[:1] == "#":
                continue
            dtm_s, rest = ln[:26], ln[27:]
            try:
                d = dt.fromisoformat(dtm_s)
            except ValueError:
                continue
            pkt, err, comment = Packet._partition(rest)
            if len(pkt) < 5:
                continue
            offers.append({"dtm": d, "rssi": pkt[:3], "frame": pkt[4:], "err": err, "comment": comment})
            if max_lines and len(offers) >= max_lines:
                break
    return log_session(offers, via="file")


async def _gwy_replay(src_path: str, log_path: str) -> list[dict]:
    """A real ramses_rf.Gateway replaying src_path with its packet log configured to log_path."""
    from ramses_rf import Gateway

    pkts: list[Packet] = []
    with open(src_path) as fh:
        gwy = Gateway(None, input_file=fh, packet_log={"file_name": log_path}, config={"disable_discovery": True})
        orig = gwy._protocol.pkt_received

        def tap(pkt: Packet) -> None:
            pkts.append(pkt)
            orig(pkt)

        gwy._protocol.pkt_received = tap  # type: ignore[method-assign]
        await gwy.start()
        await asyncio.wait_for(gwy._protocol.wait_for_connection_lost(), timeout=300)
        for _ in range(12):
            await asyncio.sleep(0)
        await gwy.stop()
    _detach()
    return [_pkt_rec(p) for p in pkts]


def gateway_log_session(path: str) -> dict:
    """Shipped log -> Gateway(input_file, packet_log=gen1) -> Gateway(input_file=gen1, packet_log=gen2).

    written = the packets the first gateway delivered (and logged), replayed = those of the second one."""
    tmp = tempfile.mkdtemp(prefix="c02gwy_")
    p1, p2 = f"{tmp}/gen1.log", f"{tmp}/gen2.log"
    factory = logging.getLogRecordFactory()          # protocol.create_stack installs a global time source
    levels = {n: logging.getLogger(n).level for n in ("ramses_rf", "ramses_tx")}
    try:
        for n in levels:
            logging.getLogger(n).setLevel(logging.CRITICAL)
        t_start = dt.now() - td(seconds=1)
        out = []
        for src, dst in ((path, p1), (p1, p2)):
            # virtual time: Engine.start() waits for the end of the replay with a 1 s (wall-clock) time-out, which a
            # loaded machine exceeds on the larger logs; on the virtual loop time stands still while handles are ready.
            # What a handler raises into the loop is C13's subject, not C02's (VLoop only collects it).
            try:
                res, _loop = vloop.run(lambda s=src, d=dst: _gwy_replay(s, d))
                out.append(res)
            finally:
                logging.setLogRecordFactory(factory)
        first, second = out
        written = [dict(r, err="", acc=1) for r in first]
        return {"written": written, "lines": _read_lines(p1), "replayed": second, "regen": _read_lines(p2), "complete": 0,
                "window": [t3(t_start), t3(dt.now() + td(seconds=1))]}
    finally:
        logging.setLogRecordFactory(factory)
        for n, lv in levels.items():
            logging.getLogger(n).setLevel(lv)
        _detach()
        for fn in glob.glob(f"{tmp}/*"):
            os.unlink(fn)
        os.rmdir(tmp)


FR_S1 = " I --- 01:145038 --:------ 01:145038 1F09 003 FF073F"
FR_S2 = "RQ 001 18:000730 01:145038 --:------ 0008 001 00"
FR_S3 = " I 255 --:------ --:------ 10:105624 1FD4 003 00AAD4"
FR_BAD = " I --- 01:145038 01:145038 --:------ 1F09 003 FF073F"
ANNOTS = [("045", "", ""), ("---", "", ""), ("...", "", ""), ("045", "E1 bad crc", ""), ("045", "", "note"),
          ("045", "", "a * b < c # d"), ("000", "overrun * again < x", "and # comment"),
          ("045", "", "20.0\u00b0C \u2013 lounge \u2713")]        # "any comment": not 7-bit (MQTT / file / dict sources carry them)


def synthetic_sessions(tier: str, seed: int) -> list[dict]:
    """All sequences <= N over frame kinds x annotation kinds (the MC_PktLog alphabet), concretely."""
    import itertools

    kinds = [(fr, an) for fr in (FR_S1, FR_S2, FR_S3, FR_BAD) for an in ANNOTS]
    rnd = random.Random(seed)
    n = 3 if tier == "thorough" else 2
    seqs = [list(s) for k in range(1, n + 1) for s in itertools.product(range(len(kinds)), repeat=k)]
    if tier == "thorough":
        rnd.shuffle(seqs)
        seqs = seqs[:3000]
    # timestamps: microsecond edges, equal stamps, midnight / year roll-over, far past and future
    stamps = [dt(2024, 2, 29, 23, 59, 59, 999999), dt(2024, 3, 1, 0, 0, 0, 0), dt(2024, 3, 1, 0, 0, 0, 1),
              dt(1999, 12, 31, 23, 59, 59, 999999), dt(2038, 1, 19, 3, 14, 7, 500000), dt(2021, 6, 15, 12, 0, 0, 123456),
              dt(2021, 6, 15, 12, 0, 0, 123456), dt(2099, 12, 31, 23, 59, 59, 999998)]
    items = []
    for si, s in enumerate(seqs):
        offers = []
        for j, ki in enumerate(s):
            fr, (rssi, err, comment) = kinds[ki]
            offers.append({"dtm": stamps[(si + j) % len(stamps)] + td(microseconds=(si * 7) % 3), "rssi": rssi, "frame": fr,
                           "err": err, "comment": comment})
        items.append(offers)
    # long random sessions
    for _ in range(6 if tier == "thorough" else 2):
        t = dt(2023, 12, 31, 23, 59, 0) + td(microseconds=rnd.randrange(10**6))
        offers = []
        for _j in range(300):
            fr, (rssi, err, comment) = kinds[rnd.randrange(len(kinds))]
            t += td(microseconds=rnd.choice((0, 1, 999, 1000, 123456, 999999, 60_000_000)))
            offers.append({"dtm": t, "rssi": rssi, "frame": fr, "err": err, "comment": comment})
        items.append(offers)
    return items


# ----------------------------------------------------------------------------------------------
# histories: the packet log configured several times in ONE process (a second Gateway object, a reload with
# another file, ...) with nothing but the library's own set_pkt_logging() in between - spec/PktLog.tla RunHist


HIST_FILES = ("A", "B", "")                        # log file names of a history; "" = no file (packet logging off)
HIST_STAMPS = [dt(2024, 2, 29, 23, 59, 59, 999990), dt(2023, 12, 31, 23, 59, 58, 0), dt(2021, 6, 15, 12, 0, 0, 123456),
               dt(2038, 1, 19, 3, 14, 7, 500000)]


def history_plans(tier: str, seed: int) -> list[dict]:
    """All file-name sequences of 2..N sessions over HIST_FILES (first one A or none: B-first is the same up to
    renaming; at least one file) x handler configurations from LOG_CFGS x cc_console per session x what is heard
    (0-3 lines per session, cycling through the MC_PktLog alphabet).  Without console every pattern runs with 8
    (thorough, <= 3 sessions: all) assignments of handler configurations; every cc_console assignment with at least
    one console session runs with the rotating assignment (thorough: and all-plain).

    plan = {"name", "sessions": [{"file", "logcfg", "console", "offers"}]}"""
    import itertools

    kinds = [(fr, an) for fr in (FR_S1, FR_S2, FR_S3, FR_BAD) for an in ANNOTS]
    rnd = random.Random(seed + 2)
    cfgs = list(LOG_CFGS)
    nmax = 4 if tier == "thorough" else 3
    plans: list[dict] = []
    kctr = 0
    for n in range(2, nmax + 1):
        for files in itertools.product(HIST_FILES, repeat=n):
            if files[0] == "B" or not any(files):
                continue
            rotation = [cfgs[j % len(cfgs)] for j in range(n)]
            if tier == "thorough" and n <= 3:       # every assignment of handler configurations
                cfg_rows = [list(c) for c in itertools.product(cfgs, repeat=n)]
            else:                                    # the same one throughout, and the four rotations
                cfg_rows = [[c] * n for c in cfgs] + [[cfgs[(r + j) % len(cfgs)] for j in range(n)] for r in range(len(cfgs))]
            rows = [(cfg_row, [0] * n) for cfg_row in cfg_rows]
            for con_row in itertools.product((0, 1), repeat=n):
                if any(con_row):
                    rows += [(c, list(con_row)) for c in ([rotation, [cfgs[0]] * n] if tier == "thorough" else [rotation])]
            for cfg_row, con_row in rows:
                hi = len(plans)
                t = HIST_STAMPS[hi % len(HIST_STAMPS)]
                sessions = []
                for j in range(n):
                    offers = []
                    for _ in range((2, 1, 3, 0)[(hi + j) % 4] if j else 2):
                        fr, (rssi, err, comment) = kinds[kctr % len(kinds)]
                        kctr += 1
                        t += td(microseconds=rnd.choice((0, 1, 9, 999, 123456, 999999, 60_000_000)))
                        offers.append({"dtm": t, "rssi": rssi, "frame": fr, "err": err, "comment": comment})
                    sessions.append({"file": files[j], "logcfg": cfg_row[j], "console": con_row[j], "offers": offers})
                plans.append({"name": "history#%d:%s" % (hi, ",".join(
                    (f or "-") + ("/" + c if f and c != "plain" else "") + ("+console" if k else "")
                    for f, c, k in zip(files, cfg_row, con_row))), "sessions": sessions})
    return plans


def plan_of_model_history(hist: Any) -> dict:
    """A history out of TLC (MC_PktLog: sessions [file, console, ps]) as a plan for log_histories."""
    return {"name": "model:" + ",".join((h["file"] or "-") + ("+console" if h["console"] else "") for h in hist),
            "sessions": [{"file": h["file"], "logcfg": "plain", "console": h["console"],
                          "offers": [{"dtm": dt.fromisoformat(p["dtm"]), "rssi": p["rssi"], "frame": p["frame"], "err": p["err"],
                                      "comment": p["comment"]} for p in h["ps"]]} for h in hist]}


def _run_history(sessions: list[dict], tmp: str, via: str = "port") -> dict:
    """One history in this process -> item for PktLogTrace (JudgeHist).  Only the library configures the logger
    between the sessions; the harness resets it before (= a fresh process) and after the files were read."""
    _detach()
    paths = {f: f"{tmp}/{f}.log" for f in HIST_FILES if f}
    try:
        t_start = dt.now() - td(seconds=1)
        hist = []
        for s in sessions:
            set_pkt_logging(_packet.PKT_LOGGER, cc_console=bool(s["console"]), file_name=paths.get(s["file"]), **LOG_CFGS[s["logcfg"]])
            hist.append({"file": s["file"], "console": int(s["console"]), "written": _offer(s["offers"], via)})
        names = [f for f in paths if any(s["file"] == f for s in sessions)]
        lines = {f: _read_lines(paths[f]) for f in names}      # every handler flushes per record
        _detach()
        files = []
        for f in names:
            loop = asyncio.new_event_loop()
            try:
                asyncio.set_event_loop(loop)
                replayed, lost = loop.run_until_complete(_replay(paths[f], f"{tmp}/regen.log"))
            finally:
                loop.close()
                asyncio.set_event_loop(None)
            if lost is not None:
                raise RuntimeError(f"FileTransport ended with {lost!r}")
            files.append({"name": f, "lines": lines[f], "replayed": replayed, "regen": _read_lines(f"{tmp}/regen.log")})
            os.unlink(f"{tmp}/regen.log")
        return {"hist": hist, "files": files, "window": [t3(t_start), t3(dt.now() + td(seconds=1))]}
    finally:
        _detach()
        for fn in glob.glob(f"{tmp}/*"):
            os.unlink(fn)


def log_histories(plans: list[dict]) -> list[dict]:
    """Run the histories in a forked child: PKT_LOGGER (and, with cc_console, stdout/stderr) is process-global
    state, and what a history leaves behind there must not reach the other stages of the check."""
    import json
    import sys
    import traceback

    tmp = tempfile.mkdtemp(prefix="c02hist_")
    out = f"{tmp}/items.json"
    try:
        sys.stdout.flush()
        sys.stderr.flush()
        pid = os.fork()
        if pid == 0:
            rc = 1
            try:
                null = open(os.devnull, "w")          # the console handlers bind sys.stderr / sys.stdout when created
                sys.stdout = sys.stderr = null
                os.mkdir(f"{tmp}/w")
                res: Any = [_run_history(p["sessions"], f"{tmp}/w") for p in plans]
                rc = 0
            except BaseException:  # noqa: BLE001
                res = {"error": traceback.format_exc()}
            try:
                with open(out, "w") as fh:
                    json.dump(res, fh)
            finally:
                os._exit(rc)
        _, status = os.waitpid(pid, 0)
        if not os.path.exists(out):
            raise RuntimeError(f"log_histories: the child left no result (wait status {status})")
        with open(out) as fh:
            res = json.load(fh)
        if isinstance(res, dict) or status != 0:
            raise RuntimeError(f"log_histories: the child failed (wait status {status}):\n{res.get('error') if isinstance(res, dict) else ''}")
        return res
    finally:
        import shutil

        shutil.rmtree(tmp, ignore_errors=True)

"""Helpers for checks/c03.py: perform one enumerated constructor call on the real library.

call_row(ctor, args)  args = the sequence of [slot, tag, t, k, s, l, dom] records of MC_CmdApi (value_of: class -> value;
                      datetimes finer than the wire and the containers of a sequence are built here, fresh per call);
                      returns the observation record CmdApiTrace judges.
Python only concretises (class -> value), calls, and normalises what the decoder reports; the
expectations (API key, domain, wanted values) live in spec/CmdApi.tla.
"""
from __future__ import annotations

from datetime import datetime as dt, timedelta as td
from typing import Any

CTL, OTB, BDR, FAN, REM, RND, DHW, OUT, CO2, GWY = (
    "01:145038", "10:048122", "13:049798", "32:155617", "37:155617", "34:021943", "07:045960", "17:111111", "37:039266", "18:006402")

FIXED: dict[str, tuple] = {
    "get_opentherm_data": (OTB,),
    "put_sensor_temp": (RND,), "put_dhw_temp": (DHW,), "put_weather_temp": (OUT,), "put_outdoor_temp": (OUT,),
    "put_co2_level": (CO2,), "put_indoor_humidity": (CO2,), "put_presence_detected": (CO2,),
    "put_actuator_state": (BDR,), "put_actuator_cycle": (BDR, GWY),
    "set_fan_mode": (FAN,), "set_fan_param": (FAN,), "set_bypass_position": (FAN,),
}


def value_of(a: dict) -> Any:
    t = a["t"]
    if t == "none":
        return None
    if t == "int":
        return int(a["k"])
    if t == "num":
        return a["k"] / 100
    if t == "str":
        return a["s"]
    if t == "bool":
        return bool(a["k"])
    if t in ("dtm", "dtmtxt"):
        v = dt.fromisoformat(a["s"])
        if a["k"]:  # finer than the wire: s = the wire instant it lies in, k = microseconds beyond it, l = [the next wire instant]
            unit = dt.fromisoformat(a["l"][0]) - v
            if unit not in (td(seconds=1), td(minutes=1)) or not td(0) < td(microseconds=a["k"]) < unit:
                raise ValueError(f"class {a['tag']}: {a['s']} + {a['k']} us is not inside ({a['s']}, {a['l'][0]})")
            v += td(microseconds=a["k"])
        return v if t == "dtm" else v.isoformat()
    if t in SEQ_KINDS:  # a sequence of strings, by the container it is handed over in (a fresh one per call)
        return SEQ_KINDS[t](list(a["l"]))
    raise ValueError(t)


SEQ_KINDS = {
    "list": list,
    "tuple": tuple,
    "keys": lambda q: dict.fromkeys(q).keys(),
    "set": set,
    "gen": lambda q: (c for c in q),
    "iter": iter,
    "map": lambda q: map(str, q),
}


def show(a: dict) -> str:
    """The argument as text that is the same in every run (an iterator's repr has an address)."""
    if a["t"] in SEQ_KINDS and a["t"] not in ("list", "tuple"):
        return {"keys": "dict.keys() of ", "set": "set of ", "gen": "generator of ", "iter": "iter() of ", "map": "map() of "}[a["t"]] + repr(list(a["l"]))
    return repr(value_of(a))


def build(ctor: str, args: list[dict]) -> Any:
    """Call the real constructor; returns the Command (raises whatever the constructor raises)."""
    from ramses_tx.command import Command

    fn = getattr(Command, ctor)
    kw = {a["slot"]: value_of(a) for a in args if a["tag"] != "absent"}
    if ctor == "put_bind":
        rel = kw.pop("dstrel")
        dst = {"none": None, "self": RND, "all": "63:262142", "other": CTL}[rel]
        return fn(kw.pop("verb"), RND, kw.pop("codes"), dst, **kw)
    if "src" in kw:  # set_fan_mode / set_bypass_position: a source device or none
        if kw.pop("src"):
            kw["src_id"] = REM
    if ctor == "set_fan_param":
        kw["src_id"] = REM
    return fn(*FIXED.get(ctor, (CTL,)), **kw)


def norm(key: str, v: Any) -> dict | None:
    """A decoded value on the spec's grid: numbers * 100 (0.01 grid), text as text."""
    if v is None:
        return {"key": key, "t": "none", "k": 0, "s": ""}
    if isinstance(v, bool):
        return {"key": key, "t": "bool", "k": int(v), "s": ""}
    if isinstance(v, int):
        if abs(v) >= 2**31 - 1 and v != 2**31 - 1:
            return {"key": key, "t": "str", "k": 0, "s": str(v)}
        return {"key": key, "t": "int", "k": v, "s": ""}
    if isinstance(v, float):
        k = round(v * 100)
        if abs(k) >= 2**31 - 1:
            return {"key": key, "t": "str", "k": 0, "s": repr(v)}
        if abs(v * 100 - k) > 1e-6:  # finer than the 0.01 grid (e.g. 0.285): keep it distinguishable
            return {"key": key, "t": "str", "k": 0, "s": repr(v)}
        return {"key": key, "t": "num", "k": k, "s": ""}
    if isinstance(v, str):
        return {"key": key, "t": "str", "k": 0, "s": v}
    return None  # lists / dicts: not compared as such


def call_row(ctor: str, args: list[dict]) -> dict:
    from ramses_tx.message import Message

    row: dict[str, Any] = {"ctor": ctor, "args": args, "built": False, "verb": "", "code": "", "dec": False, "got": [],
                           "exc": "", "frame": "", "dexc": ""}
    try:
        cmd = build(ctor, args)
    except Exception as err:  # noqa: BLE001  (any error is a refusal; which one is not judged)
        row["exc"] = type(err).__name__
        return row
    row["built"], row["verb"], row["code"], row["frame"] = True, str(cmd.verb), str(cmd.code), str(cmd)
    try:
        msg = Message._from_cmd(cmd, dtm=dt(2026, 1, 1, 12, 0, 0))
    except Exception as err:  # noqa: BLE001  (PacketInvalid and friends: the decoder rejects the frame)
        row["dexc"] = f"{type(err).__name__}: {str(err)[:120]}"
        return row
    row["dec"] = True
    got: list[dict] = []
    payload = msg.payload
    if isinstance(payload, dict):
        for k, v in payload.items():
            n = norm(str(k), v)
            if n is not None:
                got.append(n)
        if ctor == "put_bind" and isinstance(payload.get("bindings"), list):
            b = payload["bindings"]
            got.append({"key": "codes", "t": "str", "k": 0, "s": ",".join(x[1] for x in b if len(x) > 1)})
            if b and b[0]:
                got.append({"key": "bidx", "t": "str", "k": 0, "s": str(b[0][0])})
    try:
        idx = msg._pkt._idx
    except Exception:  # noqa: BLE001
        idx = None
    if isinstance(idx, str):
        got.append({"key": "_idx", "t": "str", "k": 0, "s": idx})
    row["got"] = got
    row["payload"] = repr(payload)[:300]
    return row

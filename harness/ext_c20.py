"""C20 helpers: the supported pairing flows, and a scenario runner that joins two real gateways
(faked supplicant / faked respondent) with harness.fakes.Ether in virtual time.

Used by checks/c20.py only.  A scenario is what spec/Binding.tla's history variable h records:
  {"flow": name, "present": [R?, S?], "third": ms|-1,
   "sends": [[dev, frame kind, extra tx delay ms, [copy delays ms]], ...],
   "skew": [ms, ms]}    packet clock minus gateway clock at the respondent's / the supplicant's gateway (default 0, 0):
                        every packet handed to that gateway (echoes, the peer's frames, third-party traffic) is stamped
                        by a clock that differs from the gateway's own _dt_now() by this constant, as a transport whose
                        packets carry a remote device's time does (MqttTransport: dtm = payload["ts"]), in both rounds
"""
from __future__ import annotations

import asyncio
from typing import Any

from harness import fakes, vloop
from harness.fakes import Ether

# the flows of tests/tests_rf/test_binding_fsm.py (TEST_SUITE_300)
FLOWS: dict[str, dict] = {
    "DHW-CTL": dict(
        resp={"01:145038": {"class": "CTL"}}, supp={"07:045960": {"class": "DHW", "faked": True}},
        third="07:011111",
        flow=(" I --- 07:045960 --:------ 07:045960 1FC9 012 0012601CB388001FC91CB388",
              " W --- 01:145038 07:045960 --:------ 1FC9 006 0010A006368E",
              " I --- 07:045960 01:145038 --:------ 1FC9 006 0012601CB388")),
    "RND-CTL": dict(
        resp={"01:220768": {"class": "CTL"}}, supp={"34:259472": {"class": "RND", "faked": True}},
        third="34:011111",
        flow=(" I --- 34:259472 --:------ 34:259472 1FC9 024 0023098BF5900030C98BF5900000088BF590001FC98BF590",
              " W --- 01:220768 34:259472 --:------ 1FC9 006 012309075E60",
              " I --- 34:259472 01:220768 --:------ 1FC9 006 0123098BF590")),
    "CO2-FAN": dict(
        resp={"18:126620": {"class": "FAN", "scheme": "itho"}},
        supp={"37:154011": {"class": "CO2", "scheme": "itho", "faked": True}},
        third="37:011111",
        flow=(" I --- 37:154011 --:------ 37:154011 1FC9 030 0031E096599B00129896599B002E1096599B0110E096599B001FC996599B",
              " W --- 18:126620 37:154011 --:------ 1FC9 012 0031D949EE9C0031DA49EE9C",
              " I --- 37:154011 18:126620 --:------ 1FC9 001 00",
              " I --- 37:154011 63:262142 --:------ 10E0 038 0000010028090101FEFFFFFFFFFF140107E5564D532D31324333390000000000000000000000")),
    "REM-FAN": dict(
        resp={"30:098165": {"class": "FAN", "scheme": "nuaire"}},
        supp={"32:208628": {"class": "REM", "scheme": "nuaire", "faked": True}},
        third="32:011111",
        flow=(" I --- 32:208628 --:------ 32:208628 1FC9 018 0022F1832EF46C10E0832EF4001FC9832EF4",
              " W --- 30:098165 32:208628 --:------ 1FC9 006 2131DA797F75",
              " I --- 32:208628 30:098165 --:------ 1FC9 001 21",
              " I --- 32:208628 63:262142 --:------ 10E0 030 000001C85A01016CFFFFFFFFFFFF010607E0564D4E2D32334C4D48323300")),
    "DIS-FAN": dict(
        resp={"32:155617": {"class": "FAN", "scheme": "orcon"}},
        supp={"37:171871": {"class": "DIS", "faked": True}},
        third="37:011111",
        flow=(" I --- 37:171871 --:------ 37:171871 1FC9 024 0022F1969F5F0022F3969F5F6710E0969F5F001FC9969F5F",
              " W --- 32:155617 37:171871 --:------ 1FC9 012 0031D9825FE10031DA825FE1",
              " I --- 37:171871 32:155617 --:------ 1FC9 001 00",
              " I --- 37:171871 63:262142 --:------ 10E0 038 000001C894030167FFFFFFFFFFFF1B0807E4564D492D313557534A3533000000000000000000")),
}
RATIFY = {k: len(v["flow"]) > 3 for k, v in FLOWS.items()}
GWY_R, GWY_S = "18:111111", "18:222222"
SETTLE = 12.0  # virtual seconds after the last attempt ended (every state timer has fired by then)
HORIZON = 90.0


def kind_of(frame: str) -> str:
    code = frame[37:41]
    if code == "7FFF":
        return "alert"
    if code == "10E0":
        return "addenda"
    if code != "1FC9":
        return "other"
    if frame[:2] == " W":
        return "accept"
    a1, a2, a3 = frame[7:16], frame[17:26], frame[27:36]
    if a2 in ("--:------", "63:262142") or a1 == a3:
        return "offer"
    return "confirm"


def _ensure_fakeable(dev: Any) -> None:
    from ramses_rf.binding_fsm import BindContext
    from ramses_rf.device import Fakeable

    if isinstance(dev, Fakeable):
        return

    class _Fakeable(dev.__class__, Fakeable):  # as tests/tests_rf/virtual_rf/helpers.py
        pass

    dev.__class__ = _Fakeable
    dev._bind_context = BindContext(dev)
    dev._make_fake()


class Run:
    def __init__(self, sc: dict, verbose: bool = False) -> None:
        self.sc, self.verbose = sc, verbose
        self.fl = FLOWS[sc["flow"]]
        self.ratify = RATIFY[sc["flow"]]
        self.plan = {(s[0], s[1]): (s[2], list(s[3])) for s in sc.get("sends", [])}
        self.round = 1
        self.obs: dict[str, Any] = {}
        self.loop_exc: list[str] = []
        self.states: dict[str, str] = {}

    # -- the medium ------------------------------------------------------------------------------
    def policy(self, si: int, ri: int, frame: str, n: int) -> list[float]:
        k = kind_of(frame)
        dev = "R" if si == 0 else "S"
        plan = self.plan.get((dev, k)) if self.round == 1 else None
        if si == ri:
            return [0.01]
        return [d / 1000 for d in (plan[1] if plan else [10])]

    def _delayed_write(self, dev: str, orig):
        async def write_frame(frame: str, disable_tx_limits: bool = False) -> None:
            plan = self.plan.get((dev, kind_of(frame))) if self.round == 1 else None
            if plan and plan[0] > 0:
                await asyncio.sleep(plan[0] / 1000)
            await orig(frame, disable_tx_limits)
        return write_frame

    def third_offer(self) -> str:
        from ramses_rf import Command

        flow = self.fl["flow"]
        pay = flow[0][46:]
        codes = [pay[i: i + 4] for i in range(2, len(pay), 12)]
        codes = [c for c in codes if c not in ("1FC9", "10E0")]
        tid = self.fl["third"]
        # vendor schemes cast their offer to the broadcast address (63:262142) instead of to themselves
        dst = "63:262142" if self.sc.get("third_dst", "self") == "bcast" else tid
        return str(Command.put_bind(" I", tid, codes, dst_id=dst))

    def foreign_frames(self) -> tuple[str, str]:
        """A handshake between two *other* devices going on at the same time: its accept and its confirm (the frames
        of this flow with both parties' ids replaced) - addressed to neither device under test."""
        flow = self.fl["flow"]
        r_id, s_id = list(self.fl["resp"])[0], list(self.fl["supp"])[0]
        fr = f"{r_id[:3]}0{r_id[4:]}" if r_id[3] != "0" else f"{r_id[:3]}9{r_id[4:]}"
        fs = self.fl["third"]
        swap = lambda f: f.replace(r_id, fr).replace(s_id, fs)  # noqa: E731
        return swap(flow[1]), swap(flow[2])

    # -- one attempt ------------------------------------------------------------------------------
    def calls(self, plain: bool = False):
        """plain: the same pair binds without the fourth frame (no ratify_cmd, none required, no 10E0 on offer)."""
        from ramses_rf import Command

        flow = self.fl["flow"]
        pay = flow[1][46:]
        accept_codes = [pay[i: i + 4] for i in range(2, len(pay), 12)]
        idx = pay[:2]
        pay = flow[0][46:]
        offer_codes = [c for c in (pay[i: i + 4] for i in range(2, len(pay), 12)) if c != "1FC9"]
        confirm = flow[2][48:52] or None
        ratify = Command(flow[3]) if self.ratify and not plain else None
        if plain:
            offer_codes = [c for c in offer_codes if c != "10E0"]
        return (lambda: self.r._wait_for_binding_request(accept_codes, idx=idx, require_ratify=self.ratify and not plain),
                lambda: self.s._initiate_binding_process(offer_codes, confirm_code=confirm, ratify_cmd=ratify))

    def abstract_pkt(self, p: Any, pos: int) -> str:
        if p is None:
            return ""
        text = str(p)
        flow = self.fl["flow"]
        if pos < len(flow) and text == flow[pos]:
            return ("offer", "accept", "confirm", "addenda")[pos]
        if pos == 0 and self.fl["third"] in text:
            return "toffer"
        return "?" + kind_of(text)

    async def attempt(self, dev: str, coro_fn) -> dict:
        import ramses_rf.exceptions as exc

        t0 = self.loop.time()
        ctx = (self.r if dev == "R" else self.s)._bind_context
        try:
            res = await coro_fn()
            out, tup = "ok", [self.abstract_pkt(p, i) for i, p in enumerate(res)]
        except exc.BindingFlowFailed:
            out, tup = "BFF", ["", "", "", ""]
        except exc.BindingFsmError:
            out, tup = "FSM", ["", "", "", ""]
        except asyncio.InvalidStateError:
            out, tup = "ISE", ["", "", "", ""]
        except asyncio.CancelledError:
            out, tup = "hang", ["", "", "", ""]
        except Exception as err:  # noqa: BLE001
            out, tup = "other_" + type(err).__name__, ["", "", "", ""]
        return {"out": out, "tuple": tup, "dur": int(round((self.loop.time() - t0) * 1000)),
                "state": type(ctx.state).__name__}

    async def round_(self, do_r: bool, do_s: bool) -> dict[str, dict]:
        # "plain2": the second binding of the pair is one without the fourth frame, after one with it
        call_r, call_s = self.calls(plain=self.round == 2 and bool(self.sc.get("plain2")))
        tasks = {}
        if do_r:
            tasks["R"] = asyncio.ensure_future(self.attempt("R", call_r))
        if do_s:
            tasks["S"] = asyncio.ensure_future(self.attempt("S", call_s))
        done, pend = await asyncio.wait(tasks.values(), timeout=HORIZON)
        self.hang = bool(pend) or getattr(self, "hang", False)
        for t in pend:
            t.cancel()
        if pend:
            await asyncio.wait(pend, timeout=1)
        # how long after the end of the attempts the next round starts: by default long enough for every state
        # timer to have fired; "retry_after" (s) makes the retry follow the failure closely instead
        await asyncio.sleep(SETTLE if self.round != 1 else float(self.sc.get("retry_after", SETTLE)))
        await vloop.drain()
        none = {"out": "none", "tuple": ["", "", "", ""], "dur": 0, "state": ""}
        return {d: (tasks[d].result() if d in tasks and tasks[d].done() and not tasks[d].cancelled() else dict(none, out="hang" if d in tasks else "none"))
                for d in ("R", "S")}

    async def main(self) -> None:
        import random

        random.seed(0)
        self.loop = asyncio.get_running_loop()
        fl = self.fl
        kl = {**fl["resp"], **fl["supp"], fl["third"]: {"class": list(fl["supp"].values())[0]["class"]}}
        if self.sc.get("foreign"):   # the other pair's respondent is a known device too (its frames are not filtered)
            r_id = list(fl["resp"])[0]
            fr = f"{r_id[:3]}0{r_id[4:]}" if r_id[3] != "0" else f"{r_id[:3]}9{r_id[4:]}"
            kl[fr] = {"class": list(fl["resp"].values())[0]["class"]}
        cfg = {"disable_discovery": True, "disable_qos": False, "enforce_known_list": True}
        self.ether = Ether(self.loop, self.policy)
        self.gr, self.tr = await fakes.make_port_gateway(gwy_id=GWY_R, config=cfg, known_list=kl,
                                                         schema={"orphans_hvac": list(fl["resp"])})
        self.gs, self.ts = await fakes.make_port_gateway(gwy_id=GWY_S, config=cfg, known_list=kl,
                                                         schema={"orphans_hvac": list(fl["supp"])})
        self.ether.attach(self.tr)
        self.ether.attach(self.ts)
        skew = self.sc.get("skew") or [0, 0]
        self.tr.stamp_offset, self.ts.stamp_offset = skew[0] / 1000, skew[1] / 1000
        for dev, t in (("R", self.tr), ("S", self.ts)):  # scripted queueing delay before a frame goes out
            t.write_frame = self._delayed_write(dev, t.write_frame)  # type: ignore[method-assign]
        self.r = [d for d in self.gr.devices if d.id in fl["resp"]][0]
        self.s = [d for d in self.gs.devices if d.id in fl["supp"]][0]
        _ensure_fakeable(self.r)
        _ensure_fakeable(self.s)
        self.t_base = self.loop.time()
        third = self.sc.get("third", -1)
        if third >= 0:
            self.loop.call_later(third / 1000, self.tr.rx, self.third_offer())
        # unrelated binding traffic heard by both gateways: another pair's accept / confirm, at the given times (ms)
        for ms in self.sc.get("foreign", []):
            acc, cfm = self.foreign_frames()
            for t_ in (self.tr, self.ts):
                self.loop.call_later(ms / 1000, t_.rx, acc)
                self.loop.call_later((ms + 7) / 1000, t_.rx, cfm)
        pr, ps = (bool(x) for x in self.sc.get("present", [1, 1]))
        one = await self.round_(pr, ps)
        br, bs = self.r._bind_context.is_binding, self.s._bind_context.is_binding
        self.states = {"R": type(self.r._bind_context.state).__name__, "S": type(self.s._bind_context.state).__name__}
        self.round = 2
        two = await self.round_(True, True)
        br2, bs2 = self.r._bind_context.is_binding, self.s._bind_context.is_binding
        st2 = {"R": type(self.r._bind_context.state).__name__, "S": type(self.s._bind_context.state).__name__}
        self.obs = {
            "r1": one["R"]["out"], "s1": one["S"]["out"], "r2": two["R"]["out"], "s2": two["S"]["out"],
            "br": int(br), "bs": int(bs), "rt": one["R"]["tuple"], "st": one["S"]["tuple"],
            "dr1": one["R"]["dur"], "ds1": one["S"]["dur"], "dr2": two["R"]["dur"], "ds2": two["S"]["dur"],
            "hang": int(bool(self.hang)),
            "e_r1": one["R"]["state"], "e_s1": one["S"]["state"], "e_r2": two["R"]["state"], "e_s2": two["S"]["state"],
            "a_r": self.states["R"], "a_s": self.states["S"],
            "br2": int(br2), "bs2": int(bs2), "a_r2": st2["R"], "a_s2": st2["S"],
        }
        self.end_states = {"R1": one["R"]["state"], "S1": one["S"]["state"], "R2": two["R"]["state"], "S2": two["S"]["state"]}
        self.loop_exc = [repr(c.get("exception"))[:80] for c in self.loop.exc]  # type: ignore[attr-defined]
        if self.verbose:
            for t, g, f in self.ether.log:
                if kind_of(f) != "alert":
                    print(f"   {t:8.3f} {g} {f[:70]}")
            print("  obs:", self.obs)
            print("  states after round 1:", self.states, " at each attempt's end:", self.end_states)
            print("  loop exceptions:", self.loop_exc)

    def item(self, pred: list[dict] | None = None, predfix: list[dict] | None = None) -> dict:
        sc = self.sc
        return {"ratify": int(self.ratify), "present": [int(bool(x)) for x in sc.get("present", [1, 1])],
                "third": sc.get("third", -1), "sends": [[s[0], s[1], s[2], list(s[3])] for s in sc.get("sends", [])],
                "skew": list(sc.get("skew") or [0, 0]),
                "obs": self.obs, "pred": pred or [], "predfix": predfix or []}


def run_scenario(sc: dict, verbose: bool = False) -> Run:
    r = Run(sc, verbose)
    vloop.run(r.main)
    return r

"""Systematic + seeded scenario generation for the QoS driver (harness/qos.py).

The alphabet is that of DESIGN §4 C07–C09: per-transmission echo/reply arrival (lost, prompt, just
before / exactly at / just after each timer, duplicated, reply before echo), foreign traffic with
equal or near-equal headers, 1..N concurrent callers with priorities, QoS settings, the three
gateway QoS modes, disconnect / pause / write failure at chosen instants, external cancellation.
"""
from __future__ import annotations

import itertools
import random

EPS = 2e-7
E_TO = 0.5  # echo / reply time-out of the context (only used to place coincidences; the contract
#             reads the real value from the object)

# arrival choices for one transmission (echo delay, reply delay); None = lost
PROMPT = (0.01, 0.05)


def tx_choices(has_reply: bool, rich: bool) -> list[dict]:
    out = [
        {"echo": None, "reply": None},  # everything lost
        {"echo": 0.01, "reply": 0.05 if has_reply else None},  # prompt
    ]
    if has_reply:
        out += [
            {"echo": 0.01, "reply": None},  # echo only
            {"echo": 0.05, "reply": 0.01},  # reply before echo
            {"echo": None, "reply": 0.05},  # reply without echo
        ]
    if rich:
        out += [
            {"echo": E_TO - EPS, "reply": 0.6 if has_reply else None},  # just before the echo timer
            {"echo": E_TO, "reply": 0.6 if has_reply else None},  # exactly at the echo timer
            {"echo": E_TO + EPS, "reply": 0.6 if has_reply else None},  # just after
            {"echo": 0.01, "echo2": 0.02, "reply": 0.05 if has_reply else None},  # duplicate echo
        ]
        if has_reply:
            out += [
                {"echo": 0.01, "reply": 0.01 + E_TO - EPS},
                {"echo": 0.01, "reply": 0.01 + E_TO},
                {"echo": 0.01, "reply": 0.01 + E_TO + EPS},
                {"echo": 0.01, "reply": 0.05, "reply2": 0.06},  # duplicate reply
                {"echo": 0.01, "reply": 0.05, "echo2": 0.1},  # late duplicate echo
            ]
    return out


KINDS = ["RQ", "W", "I", "LOG", "IMP"]
HAS_REPLY = {"RQ": True, "W": True, "LOG": True, "I": False, "IMP": False}
TIMEOUTS = [0.25, 0.5 - EPS, 0.5, 0.5 + EPS, 1.0, 1.5 - EPS, 1.5, 1.5 + EPS, 3.5, 3.5 + EPS, 7.5 - EPS, 7.5, 7.5 + EPS, 20.0, 45.0]
PRIOS = [-4, -2, 0, 2, 4]


def caller(i, t, kind, zone, prio, mr, to, wfr, tx, outer=None) -> dict:
    return {"id": i, "t": t, "kind": kind, "zone": zone, "prio": prio, "mr": mr, "to": to, "wfr": wfr,
            "tx": tx, "outer": outer}


def single_caller_grid(rich: bool) -> list[dict]:
    """One caller: kind x mode x wfr x max_retries x time-out x per-attempt arrival patterns."""
    out = []
    for kind in KINDS:
        hr = HAS_REPLY[kind]
        ch = tx_choices(hr, rich)
        for mode, wfr in itertools.product([None, True, False], [None, True, False]):
            for mr in ([0, 1, 2, 3, 5] if rich else [0, 1, 3]):
                # all-lost with every time-out (budget / back-off / time bound)
                for to in (TIMEOUTS if rich else [0.5, 1.5 + EPS, 7.5, 20.0, 45.0]):
                    out.append({"mode": mode, "callers": [caller(1, 0.0, kind, 1, 0, mr, to, wfr, [ch[0]])], "events": []})
                # first attempt pattern a, later attempts pattern b
                for a, b in itertools.product(ch, ch[:3] if not rich else ch[:5]):
                    out.append({"mode": mode, "callers": [caller(1, 0.0, kind, 1, 0, mr, 20.0, wfr, [a, b])], "events": []})
    return out


def random_scenario(rng: random.Random, n_callers: int, rich: bool = True) -> dict:
    mode = rng.choice([None, True, False])
    callers = []
    t = 0.0
    for i in range(1, n_callers + 1):
        kind = rng.choice(KINDS)
        hr = HAS_REPLY[kind]
        ch = tx_choices(hr, rich)
        ntx = rng.randint(1, 4)
        tx = [rng.choice(ch) for _ in range(ntx)]
        if rng.random() < 0.15 and kind == "LOG":
            for x in tx:
                x = dict(x)
            tx = [dict(x, null_log=True) for x in tx]
        t += rng.choice([0.0, 0.0, 0.0, 1e-7, 0.005, 0.011, 0.02, 0.3, 0.5, 0.5 + EPS, 1.0])
        to = rng.choice(TIMEOUTS + [0.011, 0.02, 0.05])
        c = caller(i, round(t, 7), kind, i, rng.choice(PRIOS), rng.choice([0, 1, 2, 3, 5]),
                   to, rng.choice([None, True, False]), tx,
                   outer=rng.choice([None] * 6 + [0.011, 0.3, 0.5 + EPS, 2.0]))
        c["hops"] = rng.choice([0, 0, 0, 1, 2, 3])
        callers.append(c)
    events = []
    r = rng.random()
    tt = lambda: rng.choice([0.0, 0.005, 0.011, 0.02, 0.3, 0.5, 0.5 + EPS, 0.5 - EPS, 0.7, 1.5, 2.0])  # noqa: E731
    if r < 0.25:
        t0 = tt()
        events.append({"t": t0, "ev": "conn_lost", "why": rng.choice([None, None, "serial", "transport", "wrapped"])})
        if rng.random() < 0.6:
            events.append({"t": t0 + rng.choice([1e-7, 0.01, 0.5, 3.0]), "ev": "conn_made"})
    elif r < 0.4:
        events.append({"t": tt(), "ev": "fail_write"})
        if rng.random() < 0.3:
            events.append({"t": tt(), "ev": "fail_write"})
    elif r < 0.5:
        t0 = tt()
        events.append({"t": t0, "ev": "pause"})
        events.append({"t": t0 + rng.choice([0.01, 0.6, 2.0]), "ev": "resume"})
    if rng.random() < 0.5:
        for _ in range(rng.randint(1, 3)):
            events.append({"t": tt(), "ev": "foreign", "of": rng.randint(1, n_callers),
                           "what": rng.choice(["echo", "reply", "otherzone", "echo_othergwy", "reply_otherdst", "noise", "null_otherctl"])})
    for e in events:
        e["hops"] = rng.choice([0, 0, 1, 2, 3, 4])
    events.sort(key=lambda e: e["t"])
    return {"mode": mode, "callers": callers, "events": events}


def queue_order_scenarios(rich: bool) -> list[dict]:
    """N callers queued behind a slow first command, all priority permutations; some time out in the queue."""
    out = []
    slow = [{"echo": None, "reply": None}]
    ok = [{"echo": 0.01, "reply": 0.05}]
    ns = [3, 4] if not rich else [3, 4, 5, 6]
    for n in ns:
        for prios in itertools.islice(itertools.product(PRIOS[1:4], repeat=n), 0, None, 1 if n <= 3 else (7 if n == 4 else 41)):
            for to_q in ([20.0] if not rich else [20.0, 0.3, 0.5 + EPS]):
                cs = [caller(1, 0.0, "RQ", 1, 0, 1, 20.0, True, slow)]
                for k, p in enumerate(prios):
                    cs.append(caller(k + 2, 0.01 * (k + 1), "RQ" if k % 2 else "I", k + 2, p, 0,
                                     to_q if k == 1 else 20.0, k % 2 == 1, ok))
                out.append({"mode": False, "callers": cs, "events": []})
    # full buffer: 40 callers at once against the 32-slot buffer
    cs = [caller(1, 0.0, "RQ", 1, 0, 0, 20.0, True, ok)]
    return out


def repeat_scenarios(rich: bool) -> list[dict]:
    """A caller that asks for bursts (num_repeats > 1, echo only) followed - or preceded - by ordinary callers whose
    transmissions are lost: whatever the burst caller asked for must not carry over to anybody else's command."""
    out = []
    lost = [{"echo": None, "reply": None}]
    ok = [{"echo": 0.01, "reply": 0.05}]
    for mode in (None, True, False):
        for nr in ((2, 3) if rich else (3,)):
            for mr in ((0, 1, 2, 3) if rich else (0, 2)):
                for kind in ("RQ", "I"):
                    first = caller(1, 0.0, "I", 1, 0, 0, 20.0, False, ok)
                    first["nr"] = nr
                    later = caller(2, 2.0, kind, 2, 0, mr, 20.0, None, lost)
                    out.append({"mode": mode, "callers": [first, later], "events": []})
                    # the other way round: an ordinary command first, then the burst caller, then an ordinary one again
                    a = caller(1, 0.0, kind, 1, 0, mr, 20.0, None, lost)
                    b = caller(2, 9.0, "I", 2, 0, 0, 20.0, False, ok)
                    b["nr"] = nr
                    c = caller(3, 11.0, kind, 3, 0, mr, 20.0, None, lost)
                    out.append({"mode": mode, "callers": [a, b, c], "events": []})
    return out


def foreign_null_scenarios(rich: bool) -> list[dict]:
    """A fault-log request whose reply is awaited, with another controller's null-entry reply on the air before the
    genuine one (between echo and reply, before the echo, after a retransmission)."""
    out = []
    for mode in (None, False):
        for wfr in (True, None):
            for t_null in ((0.005, 0.05, 0.3) if rich else (0.05,)):
                for mr in (0, 2):
                    c = caller(1, 0.0, "LOG", 3, 0, mr, 20.0, wfr, [{"echo": 0.01, "reply": 0.4}])
                    out.append({"mode": mode, "callers": [c],
                                "events": [{"t": t_null, "ev": "foreign", "of": 1, "what": "null_otherctl", "hops": 0}]})
    return out


def cause_scenarios(rich: bool) -> list[dict]:
    """The connection goes with every kind of cause a transport hands on (none, the serial layer's own exception, the
    library's TransportError with a text, the library's TransportError wrapping another exception as MqttTransport does) in
    every state of the sender: awaiting the echo, awaiting the reply, idle with one caller queued behind, between two
    repeats.  Whatever the cause, the callers' errors stay in the family and the sender recovers on the next connection."""
    out = []
    no_echo = [{"echo": None, "reply": None}]
    no_reply = [{"echo": 0.01, "reply": None}]
    for why in (None, "serial", "transport", "wrapped"):
        for tx, t_lost in ((no_echo, 0.1), (no_reply, 0.1), (no_echo, 0.6), ([{"echo": 0.01, "reply": 0.05}], 0.3)):
            for again in ((None, 0.5) if rich else (0.5,)):
                a = caller(1, 0.0, "RQ", 1, 0, 3, 20.0, True, tx)
                b = caller(2, 0.05, "W", 2, 0, 1, 3.0, None, [{"echo": 0.01, "reply": 0.05}])
                ev = [{"t": t_lost, "ev": "conn_lost", "why": why, "hops": 0}]
                if again is not None:
                    ev.append({"t": t_lost + again, "ev": "conn_made", "hops": 0})
                out.append({"mode": None, "callers": [a, b], "events": ev})
    return out


def twin_scenarios(rich: bool) -> list[dict]:
    """Two callers with *equal* commands (distinct Command objects, identical frames): the first in flight with its
    answers lost (or late), the second queued behind it and giving up - or not - meanwhile.  What happens to the one
    must not be taken for the other."""
    out = []
    lost = [{"echo": None, "reply": None}]
    late = [{"echo": None, "reply": None}, {"echo": 0.01, "reply": 0.05}]
    for mode in ((None, False) if rich else (False,)):
        for kind in (("RQ", "I", "LOG") if rich else ("RQ", "I")):
            for mr in ((0, 1, 3) if rich else (3,)):
                for tx1 in (lost, late):
                    for to2, outer2 in ((0.7, None), (20.0, 0.7), (20.0, None)) + (((0.2, None),) if rich else ()):
                        a = caller(1, 0.0, kind, 1, 0, mr, 20.0, True, tx1)
                        b = caller(2, 0.1, kind, 1, 0, mr, to2, True, [{"echo": 0.01, "reply": 0.05}], outer=outer2)
                        out.append({"mode": mode, "callers": [a, b], "events": []})
    return out


def streak_scenarios(rich: bool) -> list[dict]:
    """Histories: a command whose every transmission goes unanswered (the back-off multiplier climbs to its cap and stays
    there), one or two of them in a row, followed by commands that lose only their first transmission and by a command
    that is answered at once: what the streak left behind must not change how later commands are retried."""
    out = []
    lost = [{"echo": None, "reply": None}]
    late = [{"echo": None, "reply": None}, {"echo": 0.01, "reply": 0.05}]
    late2 = [{"echo": None, "reply": None}, {"echo": None, "reply": None}, {"echo": 0.01, "reply": 0.05}]
    ok = [{"echo": 0.01, "reply": 0.05}]
    for mode in ((None, True, False) if rich else (None, False)):
        for kind in (("RQ", "I", "LOG") if rich else ("RQ", "I")):
            for n_deaf in (1, 2):
                for mr2 in ((1, 2, 3) if rich else (1, 3)):
                    cs, t = [], 0.0
                    for k in range(n_deaf):
                        cs.append(caller(len(cs) + 1, t, kind, 1 + k, 0, 3, 20.0, None, lost))
                        t += 21.0
                    cs.append(caller(len(cs) + 1, t, kind, 4, 0, mr2, 20.0, None, late))
                    cs.append(caller(len(cs) + 1, t + 21.0, kind, 5, 0, 3, 20.0, None, late2))
                    cs.append(caller(len(cs) + 1, t + 42.0, kind, 6, 0, 0, 20.0, None, ok))
                    out.append({"mode": mode, "callers": cs, "events": []})
    return out


# ---------------------------------------------------------------------------------------------------------------------
# Gateway life cycle (harness/qos_gw.py, spec/GwyLife.tla): the same send machinery reached through Gateway.async_send_cmd()
# / Gateway.send_cmd() while the application stops the gateway, starts it again, or the port dies under it.

def _gw_caller(i, t, kind="RQ", api="async", tx=None, to=3.0, mr=3, wfr=None, hops=0, prio=0, outer=None) -> dict:
    has = HAS_REPLY[kind]
    return {"id": i, "t": t, "hops": hops, "kind": kind, "zone": i, "prio": prio, "mr": mr, "to": to, "wfr": wfr, "api": api,
            "tx": tx if tx is not None else [{"echo": 0.01, "reply": 0.05 if has else None}], "outer": outer}


# operation sequences: (name, [(dt from T, ev, extra)], dead transports)
def _gw_op_sequences() -> list[tuple[str, list[tuple[float, str, dict]], list[int]]]:
    return [
        ("stop", [(0.0, "gw_stop", {})], []),
        ("stop,start", [(0.0, "gw_stop", {}), (1.0, "gw_start", {})], []),
        ("stop,start-at-once", [(0.0, "gw_stop", {}), (EPS, "gw_start", {"hops": 2})], []),
        ("died,start", [(0.0, "conn_lost", {}), (1.0, "gw_start", {})], []),
        ("died(err),stop,start", [(0.0, "conn_lost", {"why": "transport"}), (0.5, "gw_stop", {}), (1.0, "gw_start", {})], []),
        ("stop,stop", [(0.0, "gw_stop", {}), (0.0, "gw_stop", {"hops": 1})], []),
        ("stop,stop-later,start", [(0.0, "gw_stop", {}), (0.5, "gw_stop", {}), (1.0, "gw_start", {})], []),
        ("stop,start(silent),start", [(0.0, "gw_stop", {}), (0.5, "gw_start", {}), (4.0, "gw_start", {})], [2]),
        ("stop,start,stop,start", [(0.0, "gw_stop", {}), (0.5, "gw_start", {}), (1.0, "gw_stop", {}), (1.5, "gw_start", {})], []),
        ("stop,start,stop-while-starting", [(0.0, "gw_stop", {}), (0.5, "gw_start", {}), (0.52, "gw_stop", {})], []),
        ("died", [(0.0, "conn_lost", {})], []),
        ("writefail,stop,start", [(-0.001, "fail_write", {}), (0.0, "gw_stop", {}), (1.0, "gw_start", {})], []),
    ]


def lifecycle_scenarios(rich: bool) -> list[dict]:
    T = 1.0
    deaf = [{"echo": None, "reply": None}]
    slow = [{"echo": 0.3, "reply": 0.35}]
    out: list[dict] = []
    # where the first caller stands relative to the first operation at T
    places = [(-0.5, 0), (-0.011, 0), (-EPS, 0), (0.0, 0), (0.0, 1), (0.0, 2), (0.0, 3), (EPS, 0), (0.02, 0)]
    if not rich:
        places = [(-0.5, 0), (-0.011, 0), (0.0, 0), (0.0, 1), (0.0, 2), (EPS, 0)]
    shapes = [("ok", None, 3.0), ("deaf", deaf, 3.0), ("slow", slow, 3.0)]
    if rich:
        shapes += [("deaf20", deaf, 20.0), ("imp", None, 3.0)]
    n = 0
    for name, ops, dead in _gw_op_sequences():
        t_after = T + max(dt for dt, _, _ in ops) + 1.5      # somebody calls once the operations are over
        for (dt, hops), (sname, tx, to), api in itertools.product(places, shapes, ("async", "task")):
            n += 1
            if not rich and n % 3 != 0:      # a third of the grid in the quick tier (it rotates through all coordinates)
                continue
            kind = "IMP" if sname == "imp" else "RQ"
            callers = [_gw_caller(1, T + dt, kind=kind, api=api, tx=tx, to=to, hops=hops),
                       # a second caller queued right behind the first (it is still queued when the operation comes)
                       _gw_caller(2, T + dt + 0.001, api="task" if api == "async" else "async", tx=tx if sname == "deaf" else None),
                       _gw_caller(3, t_after, api=api)]
            events = [dict({"t": round(T + d, 7), "ev": ev, "hops": 0}, **x) for d, ev, x in ops]
            out.append({"via": "gateway", "mode": None, "callers": callers, "events": events, "dead": dead, "seq": name})
    return out


def gateway_api_scenarios(rich: bool) -> list[dict]:
    """No life-cycle operation at all: the QoS settings (max_retries x timeout x wait_for_reply x priority) handed over
    through the Gateway's own entry points, where they pass Engine.async_send_cmd() on their way to the protocol - the
    budget, back-off and timing clauses must hold for what the caller asked of the Gateway."""
    out = []
    deaf = [{"echo": None, "reply": None}]
    half = [{"echo": 0.01, "reply": None}]
    for mr in (0, 1, 2, 3, 5):
        for to in ((20.0, 3.0, 0.7) if rich else (20.0,)):
            for wfr in (None, True, False):
                for kind, tx in (("RQ", deaf), ("RQ", half), ("I", deaf)) + ((("W", deaf), ("RQ", None)) if rich else ()):
                    a = _gw_caller(1, 0.1, kind=kind, api="async", tx=tx, to=to, mr=mr, wfr=wfr, prio=0)
                    b = _gw_caller(2, 0.15, kind="RQ", api="async", mr=1, to=20.0, prio=-2)     # queued behind, more urgent
                    out.append({"via": "gateway", "mode": None, "callers": [a, b], "events": [], "dead": [], "seq": "api"})
    return out


def other_dongle_scenarios(rich: bool) -> list[dict]:
    """The gateway is stopped and started again on another dongle (every other connection reports another gateway id): an
    impersonating caller (its notice carries the gateway's id in its header), a request and an echo-only write before and
    after every change of dongle."""
    out = []
    for ops in ([(1.0, "gw_stop"), (2.0, "gw_start")],
                [(1.0, "gw_stop"), (2.0, "gw_start"), (6.0, "gw_stop"), (7.0, "gw_start")],
                [(1.0, "conn_lost"), (1.5, "gw_stop"), (2.0, "gw_start")]):
        for kinds in (("IMP", "RQ"), ("RQ", "IMP"), ("IMP", "IMP")) + ((("W", "IMP"), ("I", "RQ")) if rich else ()):
            callers, n = [], 0
            for t0 in [0.2] + [t + 1.5 for t, ev in ops if ev == "gw_start"]:
                for kind in kinds:
                    n += 1
                    callers.append(_gw_caller(n, round(t0 + 0.1 * (n % 2), 7), kind=kind, api="async", wfr=None))
            events = [{"t": t, "ev": ev, "hops": 0} for t, ev in ops]
            out.append({"via": "gateway", "mode": None, "ids": "alternate", "callers": callers, "events": events, "dead": [],
                        "seq": "other-dongle:" + ",".join(ev for _, ev in ops)})
    return out


def lifecycle_from_behaviour(beh: list[tuple[str, dict]], silent: list[int]) -> dict | None:
    """A behaviour of spec/GwyLife.tla (TLC -simulate: [(action, state)]) as a gateway-level scenario: the application's
    and the environment's steps (AStartCall, AStopCall, ADied) become events - half a second after the previous one when
    the model was at rest before the step, otherwise at the same virtual instant, as many loop iterations later as the
    model took internal steps in between; one caller follows every step, one more calls at the end.  How the real loop
    interleaves its callbacks with these calls is the code's business: GwyLifeTrace folds whatever happened."""
    t, last_t, hops, events, callers, n = 0.1, None, 0, [], [], 0
    prev = None
    ann_seen = False
    nstart, busy_until = 0, 0.0
    for act, st in beh:
        g = st.get("g") if isinstance(st, dict) else None
        if act in ("AStartCall", "AStopCall", "ADied"):
            quiet = prev is None or (not prev["q"] and prev["st"] == "none" and prev["sp"] == "none" and not prev["ann"])
            if quiet or last_t is None:
                t = round(max(t + 0.5, busy_until), 7)
                h = 0
            else:
                if ann_seen:        # the model let the transport announce its connection first: that takes the signature delay
                    t = round(last_t + 0.05 + EPS, 7)
                h = min(hops, 6)
            ev = {"AStartCall": "gw_start", "AStopCall": "gw_stop", "ADied": "conn_lost"}[act]
            e = {"t": t, "ev": ev, "hops": h}
            if act == "ADied" and g is not None and g["q"]:
                e["why"] = "transport" if g["q"][-1][2] else None
            events.append(e)
            n += 1
            if n <= 6:
                callers.append(_gw_caller(n, round(t + 0.02, 7), api="task" if n % 2 else "async",
                                          tx=[{"echo": None, "reply": None}] if n % 3 == 0 else None))
            last_t, hops, ann_seen = t, 0, False
            if act == "AStartCall":
                nstart += 1
            if act == "AStartCall":      # a start() may take the factory's time-out (3 s) or its own second one (1 s) to come back
                busy_until = t + 4.5
        elif act == "AAnnounce":
            hops, ann_seen = 0, True
        else:
            hops += 1
        if g is not None:
            prev = g
    if not events or events[0]["ev"] != "gw_start":
        return None
    callers.append(_gw_caller(len(callers) + 1, round(t + 4.0, 7)))
    return {"via": "gateway", "mode": None, "manual_start": True, "callers": callers, "events": events,
            "dead": list(silent), "seq": "model:" + ",".join(e["ev"][3:] if e["ev"].startswith("gw_") else "died" for e in events)}

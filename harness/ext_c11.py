"""C11 helpers: run arrival patterns against the real PortTransport / MqttTransport in virtual time.

* `time.perf_counter` is replaced by the virtual clock of the running VLoop *before*
  `ramses_tx.transport` is (re)imported - the duty-cycle closure captures its start time at decoration.
  Every scenario reloads the module, so every scenario starts with the pristine closure (full bucket).
* The serial port is a FakeSerial (fileno() of a socketpair end, scripted read(), recording write());
  it answers the signature frame the way evofw3 does, so the real signature phase runs.
* The MQTT broker is a fake paho client (records publish()).
* Nothing is judged here.  A scenario yields the event list that spec/TxTrace.tla validates:
  call / topup / write / ret / end  with times in ticks of 0.1 ms and sizes in 1e-4 bit.
"""
from __future__ import annotations

import asyncio
import importlib
import json
import re
import socket
import sys
import time
from typing import Any

from harness import fakes, vloop

fakes.quiet_logging()

TICK = 1e-4           # seconds per tick
UNIT = 1e-4           # bits per unit
CAP_UNITS = 230400000
GWY = "18:555555"

_CUR: dict[str, Any] = {"loop": None, "hook": None}
_REAL_PERF = time.perf_counter


def _vperf() -> float:
    loop = _CUR["loop"]
    t = loop.time() if loop is not None else 0.0
    hook = _CUR["hook"]
    if hook is not None:
        hook(t, sys._getframe(1))
    return t


def fresh_transport_module():
    """(Re)import ramses_tx.transport under the virtual perf_counter: a new closure with a full bucket."""
    time.perf_counter = _vperf
    import ramses_tx.transport as tr

    tr = importlib.reload(tr)
    tr.is_hgi80 = lambda name: False
    return tr


def ticks(t: float) -> int:
    return int(round(t / TICK))


def units(bits: float) -> int:
    return int(round(bits / UNIT))


def frame_for(ident: int, nbytes: int) -> str:
    """A unique frame per call: the id travels in the destination address."""
    return f"RQ --- 18:000730 01:{ident:06d} --:------ 0404 {nbytes:03d} " + "AB" * nbytes


def frame_bits(frame: str) -> int:
    return 330 + len(frame[46:]) * 10          # the formula of limit_duty_cycle (the contract's unit of size)


_ID_RE = re.compile(r"01:(\d{6}) --:------ 0404")


class FakeSerial:
    name = "/dev/fake"
    portstr = "/dev/fake"
    is_open = True
    timeout = 0
    write_timeout = 0

    def __init__(self, loop, on_write) -> None:
        self.loop = loop
        self.a, self.b = socket.socketpair()
        self.a.setblocking(False)
        self.chunks: list[bytes] = []
        self.on_write = on_write
        self.echo_signature = True

    def fileno(self) -> int:
        return self.a.fileno()

    def feed(self, data: bytes) -> None:
        self.chunks.append(data)
        self.b.send(b"\0")

    def read(self, n: int) -> bytes:
        try:
            self.a.recv(4096)
        except BlockingIOError:
            pass
        return self.chunks.pop(0) if self.chunks else b""

    def write(self, data: bytes) -> int:
        self.on_write(data)
        if self.echo_signature and b" 7FFF " in data:
            self.feed(b"045 " + data.replace(b"18:000730", GWY.encode(), 1))
        return len(data)

    in_waiting = 0
    out_waiting = 0

    def flush(self) -> None: ...
    def close(self) -> None:
        self.a.close()
        self.b.close()

    def reset_input_buffer(self) -> None: ...
    def cancel_read(self) -> None: ...
    def cancel_write(self) -> None: ...


def closure_cells(tr) -> dict[str, Any]:
    w = tr.PortTransport.write_frame
    return dict(zip(w.__code__.co_freevars, w.__closure__))


# ------------------------------------------------------------------------------------------------
async def _serial(sc: dict) -> dict:
    loop = asyncio.get_running_loop()
    _CUR["loop"] = loop
    ev: list[dict] = []
    ids: dict[str, int] = {}          # frame text -> id
    n_sig = [0]
    topups_seen = [0]

    def hook(t: float, frame) -> None:        # noqa: ANN001
        code = frame.f_code
        if code.co_name != "wrapper":
            return
        loc = frame.f_locals
        if "bits_in_bucket" not in loc or "rf_frame_size" not in loc or "elapsed_time" not in loc:
            return                                                   # first perf_counter() of the top-up
        topups_seen[0] += 1
        ev.append({"k": "topup", "id": ids.get(loc.get("frame"), 0), "t": ticks(t), "bits": units(loc["rf_frame_size"]),
                   "b": units(loc["bits_in_bucket"]), "same": True})

    _CUR["hook"] = hook
    tr = fresh_transport_module()
    from ramses_tx.protocol import PortProtocol

    cells = closure_cells(tr)

    def on_write(data: bytes) -> None:
        text = data.decode("ascii", "replace")
        if " 7FFF " in text and text[:-2] not in ids:
            n_sig[0] += 1
            return
        frame = text[:-2] if text.endswith("\r\n") else text
        ident = ids.get(frame)
        same = ident is not None
        if ident is None:
            m = _ID_RE.search(text)
            ident = int(m.group(1)) if m else 0
        bits = frame_bits(frame) if same else (frame_bits(frame_of_id[ident]) if ident in frame_of_id else 0)
        ev.append({"k": "write", "id": ident, "t": ticks(loop.time()), "bits": units(bits),
                   "b": units(cells["bits_in_bucket"].cell_contents), "same": same})

    frame_of_id: dict[int, str] = {}
    proto = PortProtocol(lambda m: None, disable_qos=False)
    ser = FakeSerial(loop, on_write)
    syncs = sc.get("syncs") or []
    if syncs:                               # the sync tracker reads packet timestamps against dt_now()
        fakes.VDT._loop = loop
        tr.dt_now = fakes.VDT.now
    t = tr.PortTransport(ser, proto, disable_sending=False, loop=loop)
    zero = int(sc.get("zero", 2000))
    sx: dict[str, list] = {"rx": [], "passes": []}
    if syncs:
        # rx: logged right after PortTransport._pkt_read (incl. its @track_system_syncs wrapper) has run;
        # pass: the body of PortTransport.write_frame is reached (its first statement awaits the semaphore)
        orig_pkt_read = t._pkt_read

        def pkt_read(pkt) -> None:  # noqa: ANN001
            orig_pkt_read(pkt)
            if str(pkt.code) == "1F09" and str(pkt.verb).strip() == "I" and len(pkt.payload) == 6:
                sx["rx"].append({"t": ticks(loop.time()), "dtm": ticks((pkt.dtm - fakes.EPOCH).total_seconds()), "src": int(pkt.src.id[3:]), "rem": int(pkt.payload[2:6], 16) * 1000})

        t._pkt_read = pkt_read  # type: ignore[method-assign]
        orig_acquire = t._leaker_sem.acquire

        async def acquire() -> bool:
            fr, ident = sys._getframe(1), None
            for _ in range(8):              # the caller is write_frame(self, frame, ...), possibly through a helper or two
                if fr is None:
                    break
                ident = ids.get(fr.f_locals.get("frame")) if isinstance(fr.f_locals.get("frame"), str) else None
                if ident is not None:
                    break
                fr = fr.f_back
            if ident is not None:
                sx["passes"].append({"id": ident, "t": ticks(loop.time())})
            return await orig_acquire()

        t._leaker_sem.acquire = acquire  # type: ignore[method-assign]
        def deliver(line: bytes) -> None:
            # the reader callback itself, at exactly this virtual instant (bytes that merely make the socket readable
            # are picked up only after the clock has jumped to the next timer)
            ser.chunks.append(line)
            t._read_ready()

        for when_tick, src, rem in syncs:
            line = f"045  I --- 01:{src:06d} --:------ 01:{src:06d} 1F09 003 FF{rem:04X}\r\n".encode()
            loop.call_at((zero + when_tick) * TICK, deliver, line)
    tasks: list[asyncio.Task] = []
    counter = [0]
    errors: list[str] = []

    def call(nbytes: int) -> asyncio.Task:
        counter[0] += 1
        ident = counter[0]
        frame = frame_for(ident, nbytes)
        ids[frame] = ident
        frame_of_id[ident] = frame
        async def one() -> None:      # the call event is the first step of the caller: its acceptance
            ev.append({"k": "call", "id": ident, "t": ticks(loop.time()), "bits": units(frame_bits(frame)), "b": -1, "same": True})
            await t.write_frame(frame)

        task = loop.create_task(one())
        tasks.append(task)
        return task

    async def client(start: int, items: list) -> None:
        first = True
        for think, nbytes in items:
            when = ((zero + start + think) * TICK) if first else (loop.time() + think * TICK)
            first = False
            fut = loop.create_future()
            loop.call_at(when, fut.set_result, None)       # the clock jumps exactly to `when`
            await fut
            task = call(nbytes)
            try:
                await task
            except Exception as err:  # noqa: BLE001
                errors.append(f"{type(err).__name__}: {err}"[:120])

    if sc.get("init") is not None:        # model-driven runs start from the model's initial bucket
        def poke() -> None:
            cells["bits_in_bucket"].cell_contents = sc["init"] * UNIT
            cells["last_time_bit_added"].cell_contents = loop.time()
        loop.call_at(zero * TICK, poke)
    async def open_loop(calls: list) -> None:
        """Absolute call times; calls at one instant are made in list order from one callback."""
        pending = []
        for when_tick, nbytes in calls:
            when = (zero + when_tick) * TICK
            if when > loop.time():
                fut = loop.create_future()
                loop.call_at(when, fut.set_result, None)
                await fut
            pending.append(call(nbytes))
        for res in await asyncio.gather(*pending, return_exceptions=True):
            if isinstance(res, Exception):
                errors.append(f"{type(res).__name__}: {res}"[:120])

    clients = [loop.create_task(open_loop(sorted(sc["calls"], key=lambda c: c[0])))] if sc.get("calls") else []
    clients += [loop.create_task(client(c[0], c[1])) for c in sc.get("clients", [])]
    await asyncio.wait(clients, timeout=sc.get("timeout_s", 36000))
    not_done = [c for c in clients if not c.done()]
    await asyncio.sleep(sc.get("settle_s", 5))
    ev.append({"k": "end", "id": 0, "t": ticks(loop.time()), "bits": 0, "b": -1, "same": True})
    connected = proto._transport is t
    t.close()
    for c in not_done:
        c.cancel()
    await asyncio.sleep(0)
    await asyncio.sleep(0)
    try:
        loop.remove_reader(ser.fileno())
    except Exception:  # noqa: BLE001
        pass
    ser.close()
    _CUR["hook"] = None
    poked = sc.get("init") is not None
    return {"mode": "serial", "gap": ticks(tr.MIN_INTER_WRITE_GAP), "maxtok": 0,
            "init": sc["init"] if poked else CAP_UNITS, "t0": zero if poked else 0,
            "ev": ev, "mw": [], "zero": zero, "sx": sx,
            "info": {"sig_writes": n_sig[0], "connected": connected, "topups": topups_seen[0], "errors": errors[:5],
                     "clients_not_done": len(not_done), "end_s": round(loop.time(), 3),
                     "active_gwy": t.get_extra_info("active_gwy")}}


class _FakeMsgInfo:
    rc = 0


class FakeMqttClient:
    """paho.mqtt.client.Client stand-in: no network, records publish()."""

    instances: list["FakeMqttClient"] = []

    def __init__(self, *a, **kw) -> None:  # noqa: ANN002
        self.published: list[tuple[str, str, int]] = []
        self.on_publish_cb = None
        FakeMqttClient.instances.append(self)

    def username_pw_set(self, *a) -> None: ...
    def connect_async(self, *a, **kw) -> None: ...
    def loop_start(self) -> None: ...
    def loop_stop(self) -> None: ...
    def subscribe(self, *a, **kw) -> None: ...
    def unsubscribe(self, *a, **kw) -> None: ...
    def disconnect(self) -> None: ...

    def publish(self, topic, payload=None, qos=0, **kw):  # noqa: ANN001
        if self.on_publish_cb:
            self.on_publish_cb(topic, payload, qos)
        return _FakeMsgInfo()


class _Msg:
    def __init__(self, topic: str, payload: bytes) -> None:
        self.topic, self.payload, self.timestamp = topic, payload, 0


async def _mqtt(sc: dict) -> dict:
    loop = asyncio.get_running_loop()
    _CUR["loop"] = loop
    _CUR["hook"] = None
    tr = fresh_transport_module()
    from ramses_tx.protocol import PortProtocol

    ev: list[dict] = []
    ids: dict[str, int] = {}
    tr.mqtt.Client = FakeMqttClient
    proto = PortProtocol(lambda m: None, disable_qos=False)
    t = tr.MqttTransport("mqtt://user:pw@localhost:1883", proto, loop=loop)
    published_ids: set[int] = set()

    def on_pub(topic: str, payload: str, qos: int) -> None:
        try:
            frame = json.loads(payload)["msg"]
        except Exception:  # noqa: BLE001
            frame = str(payload)
        ident = ids.get(frame)
        same = ident is not None and topic.endswith("/tx")
        if ident is None:
            m = _ID_RE.search(frame)
            ident = int(m.group(1)) if m else 0
        published_ids.add(ident)
        ev.append({"k": "write", "id": ident, "t": ticks(loop.time()), "bits": 0, "b": tok_units(), "same": same})

    def tok_units() -> int:
        try:
            return int(round(t._num_tokens * 600000))
        except Exception:  # noqa: BLE001
            return -1

    t.client.on_publish_cb = on_pub
    t._on_message(t.client, None, _Msg(f"RAMSES/GATEWAY/{GWY}", b"online"))
    zero = int(sc.get("zero", 2000))
    counter = [0]
    errors: list[str] = []

    async def one(ident: int, frame: str) -> None:
        ev.append({"k": "call", "id": ident, "t": ticks(loop.time()), "bits": 0, "b": -1, "same": True})
        try:
            await t.write_frame(frame)
        except Exception as err:  # noqa: BLE001
            errors.append(f"{type(err).__name__}: {err}"[:120])
        ev.append({"k": "ret", "id": ident, "t": ticks(loop.time()), "bits": 0, "b": -1, "same": True})

    def call(nbytes: int) -> asyncio.Task:
        counter[0] += 1
        ident = counter[0]
        frame = frame_for(ident, nbytes)
        ids[frame] = ident
        return loop.create_task(one(ident, frame))

    async def client(start: int, items: list) -> None:
        first = True
        for think, nbytes in items:
            when = ((zero + start + think) * TICK) if first else (loop.time() + think * TICK)
            first = False
            fut = loop.create_future()
            loop.call_at(when, fut.set_result, None)
            await fut
            await call(nbytes)

    async def open_loop(calls: list) -> None:
        pending = []
        for when_tick, nbytes in calls:
            when = (zero + when_tick) * TICK
            if when > loop.time():
                fut = loop.create_future()
                loop.call_at(when, fut.set_result, None)
                await fut
            pending.append(call(nbytes))
        await asyncio.gather(*pending, return_exceptions=True)

    # what the broker says meanwhile (nothing of it is a reason to write more): the gateway's retained status message
    # once more (ramses_esp rebooted / paho re-subscribed), and inbound traffic on the /rx topic
    def broker(what: str) -> None:
        if what == "online":
            t._on_message(t.client, None, _Msg(f"RAMSES/GATEWAY/{GWY}", b"online"))
        elif what == "rx":
            body = json.dumps({"msg": "045  I --- 01:145038 --:------ 01:145038 1F09 003 FF0532",
                               "ts": "2026-01-01T12:00:00.000000+00:00"})
            t._on_message(t.client, None, _Msg(f"RAMSES/GATEWAY/{GWY}/rx", body.encode()))

    for when_tick, what in sc.get("broker", []):
        loop.call_at((zero + when_tick) * TICK, broker, what)

    clients = [loop.create_task(open_loop(sorted(sc["calls"], key=lambda c: c[0])))] if sc.get("calls") else []
    clients += [loop.create_task(client(c[0], c[1])) for c in sc.get("clients", [])]
    await asyncio.wait(clients, timeout=sc.get("timeout_s", 36000))
    not_done = [c for c in clients if not c.done()]
    await asyncio.sleep(sc.get("settle_s", 5))
    ev.append({"k": "end", "id": 0, "t": ticks(loop.time()), "bits": 0, "b": -1, "same": True})
    for c in not_done:
        c.cancel()
    await asyncio.sleep(0)
    return {"mode": "mqtt", "gap": ticks(tr.MIN_INTER_WRITE_GAP), "maxtok": int(tr.MAX_TRANSMIT_RATE_TOKENS),
            "init": 0, "t0": 0, "ev": ev, "mw": [], "zero": zero,
            "info": {"published": len(published_ids), "calls": counter[0], "errors": errors[:5],
                     "clients_not_done": len(not_done), "end_s": round(loop.time(), 3),
                     "connected": proto._transport is t}}


def run_scenario(sc: dict) -> dict:
    """Run one scenario on a fresh VLoop (call in a worker process: it patches time.perf_counter)."""
    fn = _mqtt if sc.get("kind") == "mqtt" else _serial
    try:
        res, loop = vloop.run(lambda: fn(sc))
    finally:
        _CUR["loop"] = None
        _CUR["hook"] = None
    res["info"]["loop_exc"] = [f"{c.get('message')} {c.get('exception')!r}"[:200] for c in loop.exc[:3]]
    res["name"] = sc.get("name", "")
    return res


def run_scenarios(scs: list[dict], procs: int) -> list[dict]:
    import multiprocessing as mp

    if procs <= 1 or len(scs) <= 1:
        return [run_scenario(s) for s in scs]
    with mp.get_context("fork").Pool(procs) as pool:
        return pool.map(run_scenario, scs, chunksize=1)


def conform(results: list[dict], scs: list[dict], workers: int) -> dict:
    """Search-based validation (spec/TxConform.tla): is each recorded serial execution a behaviour of
    TxRegulator given its calls?  Returns which traces the model of the current code accepts and which the
    model of the repaired code accepts."""
    import os
    import tempfile

    from harness import tlc

    idx, items = [], []
    for i, (sc, r) in enumerate(zip(scs, results)):
        if r["mode"] != "serial" or sc.get("clients") or sc.get("syncs") or not 1 <= len(sc.get("calls", [])) <= 8:
            continue
        zero = r["zero"]
        calls = sorted(sc["calls"], key=lambda c: c[0])
        items.append({"init": r["init"], "h": [[c[0], (330 + 20 * c[1]) * 10000] for c in calls],
                      "rw": [[e["id"], e["t"] - zero] for e in r["ev"] if e["k"] == "write"]})
        idx.append(i)
    out = {"items": len(items), "index": idx}
    if not items:
        return out
    fd, path = tempfile.mkstemp(suffix=".json", prefix="c11conf_")
    os.close(fd)
    try:
        json.dump(items, open(path, "w"))
        for name, cfg in (("as_is", "TxConform.cfg"), ("repaired", "TxConform_fixed.cfg")):
            r = tlc.run_tlc("TxConform", cfg, workers=workers, env={"TRACE_FILE": path}, timeout=900)
            if r.errors or r.violated:
                raise tlc.MachineryFailure(f"{cfg}: {r.violated} {r.errors[:2]}\n{r.out[-1500:]}")
            acc = {p[1] for p in r.prints if isinstance(p, tuple) and len(p) == 2 and p[0] == "ACCEPT"}
            out[name] = {"accepted": len(acc), "rejected": [idx[k] for k in range(len(items)) if k + 1 not in acc],
                         "states": r.distinct, "wall_s": round(r.wall_s, 1)}
    finally:
        os.unlink(path)
    return out

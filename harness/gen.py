"""Systematic generators of RAMSES-II frames, payloads and log lines (stdlib only).

Written for C01/C05; importable by any check (`from harness import gen`).  Nothing here judges
anything: these are *input* generators.  Everything random is drawn from a `random.Random` the
caller seeds from `chk.seed` (VERIF_SEED), so runs are reproducible.

Corpus (the ~6 k real log lines shipped under <repo>/tests)
    corpus_raw_lines()        every line of every *.log, verbatim (incl. comments, blanks)
    corpus()                  [CorpusLine(dtm, rssi, frame, tail)] for the lines that look like packets
    corpus_frames()           sorted distinct frame texts ("RP --- 01:145038 18:013393 --:------ 0006 004 00050135")
    corpus_addr_profiles()    {(code, verb): sorted [(shape, src_type, dst_type)]} seen in the corpus

Payloads from the library's own per-verb/code regexes (ramses_tx.ramses.CODES_SCHEMA)
    schema_regexes()          [(code, verb, regex)]
    regex_members(regex, rng, n_random)   boundary + seeded random members (even-length hex, <= 48 bytes,
                              each satisfying re.match(regex) exactly as the library applies it)
    schema_payloads(rng, n_random)        {(code, verb): [payload, ...]}
    payload_neighbours(payload, regex, rng, n)   single-digit edits of a real payload the regex still accepts
    corpus_neighbour_frames(rng, n)       the corpus frames with neighbouring payloads (pass semantic asserts more often)
    extreme_payload_frames(per_pair, rng) every payload digit of real frames set to F/0/7/8 in turn (regex-valid only)

Frames
    make_frame(verb, a0, a1, a2, code, payload, seqn="---")
    addr_set(shape, src, dst)   shape in SHAPES = ("self", "bcast", "pair", "trail"):
                                  self  = src --:------ src      bcast = src --:------ dst
                                  pair  = src dst --:------      trail = --:------ --:------ src
    addr_sets_for(code, verb, rng, every_shape=False)   realistic (corpus) + systematic address sets
    schema_frames(rng, n_random=2, every_shape=False)   [GenFrame(code, verb, payload, shape, frame)]
    array_frame(code, elements, src_id)      an ` I` array frame (src --:------ src) of the given elements
    element_frame(code, element, src_id)     the same element on its own

Mutators ("a few edits of a valid frame")
    flip_hex_digit, corrupt_addr_digit, wrong_length, truncate, edit_char, drop_char, insert_char
    mutants(frame, rng, n)      [(op_name, mutated_frame)]   n seeded single edits (all operator kinds)
    mutants_systematic(frame)   every single-position edit of the cheap kinds (~250 per frame)
    double_mutants(frame, rng, n)

Line classes for log/dict replay shapes (C01; class names are the ones of spec/RxPipeline.tla)
    LINE_CLASSES, line_of_class(cls, rng, frame_pool) -> (dtm_ok: bool, text_after_dtm)
"""
from __future__ import annotations

import functools
import os
import random
import re
import re._parser as _sre  # sre_parse (3.11+ location)
from collections import namedtuple
from pathlib import Path
from typing import Iterable

HEX = "0123456789ABCDEF"
NON = "--:------"
ALL = "63:262142"
HGI = "18:000730"
MAX_PAYLOAD_CHARS = 96  # 48 bytes

CorpusLine = namedtuple("CorpusLine", "dtm rssi frame tail")
GenFrame = namedtuple("GenFrame", "code verb payload shape frame")

_RE_PKT_LINE = re.compile(
    r"^(\d{4}-\d\d-\d\dT\d\d:\d\d:\d\d\.\d{6}) (...) (( I|RP|RQ| W) (?:---|\d{3}|\.\.\.) "
    r"(?:--:------|\d\d:\d{6}) (?:--:------|\d\d:\d{6}) (?:--:------|\d\d:\d{6}) "
    r"[0-9A-F]{4} \d{3} [0-9A-F]+)(.*)$"
)


# --------------------------------------------------------------------------------------
# corpus


def repo_tests_dir() -> Path:
    """<repo>/tests next to the src being verified; falls back to /repo/tests (scratch src copies)."""
    src = Path(os.environ.get("VERIF_REPO_SRC", "/repo/src")).resolve()
    cand = src.parent / "tests"
    return cand if cand.is_dir() else Path("/repo/tests")


@functools.lru_cache(maxsize=1)
def corpus_raw_lines() -> tuple[str, ...]:
    out: list[str] = []
    for fp in sorted(repo_tests_dir().rglob("*.log")):
        try:
            out.extend(fp.read_text(errors="replace").splitlines())
        except OSError:
            continue
    return tuple(out)


@functools.lru_cache(maxsize=1)
def corpus() -> tuple[CorpusLine, ...]:
    out, seen = [], set()
    for ln in corpus_raw_lines():
        m = _RE_PKT_LINE.match(ln)
        if not m:
            continue
        key = (m.group(2), m.group(3))
        if key in seen:
            continue
        seen.add(key)
        out.append(CorpusLine(m.group(1), m.group(2), m.group(3), m.group(5)))
    return tuple(out)


@functools.lru_cache(maxsize=1)
def corpus_frames() -> tuple[str, ...]:
    return tuple(sorted({c.frame for c in corpus()}))


def frame_fields(frame: str) -> tuple[str, str, str, str, str, str, str, str]:
    """(verb, seqn, a0, a1, a2, code, len, payload) of a well-formed frame text."""
    verb = frame[:2]
    seqn, a0, a1, a2, code, len_, payload = frame[3:].split(" ")[:7]
    return verb, seqn, a0, a1, a2, code, len_, payload


def shape_of(a0: str, a1: str, a2: str) -> tuple[str, str, str] | None:
    """(shape, src_id, dst_id) of an address triple, or None if it is not one of the legal shapes."""
    if a0 != NON and a1 == NON and a2 != NON:
        return ("self" if a0 == a2 else "bcast"), a0, a2
    if a0 != NON and a1 != NON and a2 == NON:
        return "pair", a0, a1
    if a0 == NON and a1 == NON and a2 != NON:
        return "trail", a2, NON
    return None


@functools.lru_cache(maxsize=1)
def corpus_addr_profiles() -> dict[tuple[str, str], tuple[tuple[str, str, str], ...]]:
    prof: dict[tuple[str, str], set] = {}
    for f in corpus_frames():
        verb, _, a0, a1, a2, code, _, _ = frame_fields(f)
        s = shape_of(a0, a1, a2)
        if s is None:
            continue
        shape, src, dst = s
        prof.setdefault((code, verb), set()).add((shape, src[:2], dst[:2]))
    return {k: tuple(sorted(v)) for k, v in prof.items()}


# --------------------------------------------------------------------------------------
# regex members


def schema_regexes() -> list[tuple[str, str, str]]:
    from ramses_tx.ramses import CODES_SCHEMA

    out = []
    for code, d in CODES_SCHEMA.items():
        for verb in (" I", "RQ", "RP", " W"):
            if verb in d:
                out.append((str(code), verb, d[verb]))
    return out


WORD_EXTREMES = ("7FFF", "8000", "8001", "7F00", "7EFF", "FFFF")


class _Policy:
    """Decides every choice point of one walk.  base in {"min","max","rand"}; focus overrides one site."""

    def __init__(self, base: str, rng: random.Random | None, focus: tuple[int, int] | None = None,
                 cap: int = 8) -> None:
        self.base, self.rng, self.focus, self.cap = base, rng, focus, cap

    def pick(self, site: int, n: int) -> int:
        if self.focus is not None and self.focus[0] == site:
            return min(self.focus[1], n - 1)
        if self.base == "min":
            return 0
        if self.base == "max":
            return n - 1
        return self.rng.randrange(n)  # type: ignore[union-attr]


def _class_chars(av) -> str:
    chars: list[str] = []
    neg = False
    for op, a in av:
        o = str(op)
        if o == "NEGATE":
            neg = True
        elif o == "LITERAL":
            chars.append(chr(a))
        elif o == "RANGE":
            chars.extend(chr(c) for c in range(a[0], a[1] + 1))
        elif o == "CATEGORY":
            chars.extend("0123456789")
    if neg:
        chars = [c for c in HEX if c not in chars]
    chars = [c for c in chars if c in HEX] or chars
    return "".join(dict.fromkeys(chars))


def _sites(tree, out: list[tuple[int, int]], cap: int) -> None:
    """Collect (site_id, n_options) of every choice point (static walk)."""
    for node in tree:
        op, av = str(node[0]), node[1]
        if op == "IN":
            out.append((id(node), len(_class_chars(av))))
        elif op == "ANY":
            out.append((id(node), 16))
        elif op == "BRANCH":
            out.append((id(node), len(av[1])))
            for b in av[1]:
                _sites(b, out, cap)
        elif op in ("MAX_REPEAT", "MIN_REPEAT"):
            lo, hi, sub = av
            out.append((id(node), len(_rep_options(lo, hi, cap))))
            _sites(sub, out, cap)
        elif op == "SUBPATTERN":
            _sites(av[3], out, cap)


def _rep_options(lo: int, hi, cap: int) -> list[int]:
    hi = lo + cap if str(hi) == "MAXREPEAT" or hi > 200 else hi
    opts = [lo, min(lo + 1, hi), (lo + hi) // 2, max(hi - 1, lo), hi]
    return sorted(dict.fromkeys(opts))


def _emit(tree, pol: _Policy) -> str:
    out = []
    for node in tree:
        op, av = str(node[0]), node[1]
        if op == "LITERAL":
            out.append(chr(av))
        elif op == "NOT_LITERAL":
            out.append(next(c for c in HEX if c != chr(av)))
        elif op == "ANY":
            out.append(HEX[pol.pick(id(node), 16)])
        elif op == "IN":
            cs = _class_chars(av)
            out.append(cs[pol.pick(id(node), len(cs))])
        elif op == "BRANCH":
            out.append(_emit(av[1][pol.pick(id(node), len(av[1]))], pol))
        elif op in ("MAX_REPEAT", "MIN_REPEAT"):
            lo, hi, sub = av
            opts = _rep_options(lo, hi, pol.cap)
            n = opts[pol.pick(id(node), len(opts))]
            if pol.base == "rand" and (pol.focus is None or pol.focus[0] != id(node)):
                n = pol.rng.randint(opts[0], opts[-1])  # type: ignore[union-attr]
            out.extend(_emit(sub, pol) for _ in range(n))
        elif op == "SUBPATTERN":
            out.append(_emit(av[3], pol))
        elif op == "AT":
            pass
        else:  # pragma: no cover - construct not used by CODES_SCHEMA
            raise NotImplementedError(f"regex construct {op}")
    return "".join(out)


def _rand_hex(rng: random.Random, nchars: int) -> str:
    return "".join(rng.choice(HEX) for _ in range(nchars))


def regex_members(regex: str, rng: random.Random | None = None, n_random: int = 4) -> list[str]:
    """Boundary members (all-min, all-max, every option of every choice point once) + n_random seeded
    random members.  Only strings the library itself would accept as this verb/code's payload survive:
    re.match(regex, s), even length, 1..48 bytes, upper-case hex."""
    rng = rng or random.Random(0)
    tree = list(_sre.parse(regex))
    open_ended = not regex.endswith("$")
    found: dict[str, None] = {}

    def add(s: str) -> None:
        cands = [s]
        if open_ended:
            room = MAX_PAYLOAD_CHARS - len(s)
            cands = [s + sfx for sfx in ("", "00", "FF", _rand_hex(rng, 2 * rng.randint(1, 6)),
                                         _rand_hex(rng, max(room - room % 2, 0))) if len(sfx) <= room]
            if len(s) % 2:
                cands = [c + "0" for c in cands if len(c) < MAX_PAYLOAD_CHARS]
        for c in cands:
            if 2 <= len(c) <= MAX_PAYLOAD_CHARS and len(c) % 2 == 0 and re.match(regex, c) \
                    and re.fullmatch(r"[0-9A-F]+", c):
                found.setdefault(c)

    for cap in (8, 4, 2, 1):
        sites: list[tuple[int, int]] = []
        _sites(tree, sites, cap)
        n0 = len(found)
        for base in ("min", "max"):
            add(_emit(tree, _Policy(base, rng, None, cap)))
        for site, n in sites:
            for k in range(n):
                add(_emit(tree, _Policy("min", rng, (site, k), cap)))
                if n > 2:
                    add(_emit(tree, _Policy("rand", rng, (site, k), cap)))
        if len(found) > n0 and cap <= 4:
            break
    # semantic extremes of 16-bit fields: every byte-aligned 4-hex window of the first (all-min) member set to the
    # words around the sign bit and the sentinels (7FFF, 8000, 8001, 7F00, 7EFF, FFFF), kept if the regex still accepts
    base_members = list(found)[:1]
    for bm in base_members:
        for i in range(0, len(bm) - 3, 2):
            for wd in WORD_EXTREMES:
                if bm[i:i + 4] != wd:
                    add(bm[:i] + wd + bm[i + 4:])
    tries = 0
    want = len(found) + n_random
    while len(found) < want and tries < n_random * 20:
        tries += 1
        add(_emit(tree, _Policy("rand", rng, None, rng.choice((1, 2, 4, 8)))))
    return list(found)


def payload_neighbours(payload: str, regex: str, rng: random.Random, n: int) -> list[str]:
    """Up to n distinct single-hex-digit edits of a (real) payload that the verb/code regex still accepts -
    stays close to payloads the parsers' semantic checks accept, where pure regex members often do not."""
    out: dict[str, None] = {}
    tries = 0
    while len(out) < n and tries < n * 6 and payload:
        tries += 1
        p = rng.randrange(len(payload))
        c = rng.choice(HEX)
        if c == payload[p]:
            continue
        m = payload[:p] + c + payload[p + 1:]
        if re.match(regex, m):
            out.setdefault(m)
    return list(out)


def corpus_neighbour_frames(rng: random.Random, n: int) -> list[str]:
    """For every distinct corpus frame of a known verb/code: n frames with a neighbouring payload."""
    rx = {(c, v): r for c, v, r in schema_regexes()}
    out = []
    for f in corpus_frames():
        verb, seqn, a0, a1, a2, code, _len, payload = frame_fields(f)
        r = rx.get((code, verb))
        if r is None:
            continue
        for m in payload_neighbours(payload, r, rng, n):
            out.append(make_frame(verb, a0, a1, a2, code, m, seqn))
    return out


def extreme_payload_frames(per_pair: int, rng: random.Random | None = None) -> list[str]:
    """Systematic extremes around real payloads: for up to `per_pair` corpus frames of every verb/code, each
    payload digit in turn set to F, to 0, to 7 and to 8 (kept only if the verb/code regex still accepts the
    payload) - sign bits, maximal counters, sentinel bytes, without leaving the parsers' happy path."""
    rx = {(c, v): r for c, v, r in schema_regexes()}
    seen: dict[tuple[str, str], int] = {}
    frames = list(corpus_frames())
    if rng is not None:
        rng.shuffle(frames)
    out: dict[str, None] = {}
    for f in frames:
        verb, seqn, a0, a1, a2, code, _len, payload = frame_fields(f)
        r = rx.get((code, verb))
        if r is None or seen.get((code, verb), 0) >= per_pair:
            continue
        seen[(code, verb)] = seen.get((code, verb), 0) + 1
        for p in range(len(payload)):
            for c in "F078":
                if payload[p] != c:
                    m = payload[:p] + c + payload[p + 1:]
                    if re.match(r, m):
                        out.setdefault(make_frame(verb, a0, a1, a2, code, m, seqn))
    return list(out)


def schema_payloads(rng: random.Random, n_random: int = 4) -> dict[tuple[str, str], list[str]]:
    return {(c, v): regex_members(rx, rng, n_random) for c, v, rx in schema_regexes()}


# --------------------------------------------------------------------------------------
# frames


def make_frame(verb: str, a0: str, a1: str, a2: str, code: str, payload: str, seqn: str = "---") -> str:
    return f"{verb} {seqn} {a0} {a1} {a2} {code} {len(payload) // 2:03d} {payload}"


SHAPES = ("self", "bcast", "pair", "trail")


def addr_set(shape: str, src: str, dst: str) -> tuple[str, str, str]:
    if shape == "self":
        return src, NON, src
    if shape == "bcast":
        return src, NON, dst
    if shape == "pair":
        return src, dst, NON
    if shape == "trail":
        return NON, NON, src
    raise ValueError(shape)


def dev_id(dev_type: str, rng: random.Random) -> str:
    if dev_type == "63":
        return ALL
    if dev_type == "--":
        return NON
    return f"{dev_type}:{rng.randrange(1, 262143):06d}"


_DEFAULT_PROFILES = (
    ("self", "01", "01"), ("pair", "01", "18"), ("pair", "18", "01"), ("bcast", "04", "01"),
    ("trail", "12", "--"), ("pair", "10", "01"), ("self", "02", "02"), ("pair", "13", "01"),
    ("self", "32", "32"), ("pair", "37", "32"), ("bcast", "07", "01"), ("self", "23", "23"),
    ("pair", "34", "63"), ("self", "30", "30"), ("pair", "22", "01"),
)


def addr_sets_for(code: str, verb: str, rng: random.Random, every_shape: bool = False
                  ) -> list[tuple[str, tuple[str, str, str]]]:
    """[(shape, (a0, a1, a2))]: the (shape, src type, dst type) combinations the corpus shows for this
    verb/code (realistic), else a default rotation; with every_shape, additionally one of each legal
    shape with the first profile's device types."""
    profs = list(corpus_addr_profiles().get((code, verb), ()))
    if not profs:
        k = rng.randrange(len(_DEFAULT_PROFILES))
        profs = [_DEFAULT_PROFILES[k], _DEFAULT_PROFILES[(k + 1) % len(_DEFAULT_PROFILES)]]
    out = []
    for shape, st, dt_ in profs:
        src = dev_id(st, rng)
        dst = src if shape == "self" else dev_id(dt_, rng)
        out.append((shape, addr_set(shape, src, dst)))
    if every_shape:
        have = {s for s, _ in out}
        _, st, dt_ = profs[0]
        for shape in SHAPES:
            if shape not in have:
                src = dev_id(st, rng)
                dst = dev_id(dt_ if dt_ not in ("--",) else "01", rng)
                out.append((shape, addr_set(shape, src, dst)))
    return out


def schema_frames(rng: random.Random, n_random: int = 2, every_shape: bool = False,
                  max_profiles: int | None = None) -> list[GenFrame]:
    """Frames for every known verb/code: each regex member under the address sets of addr_sets_for."""
    out: list[GenFrame] = []
    for (code, verb), pls in schema_payloads(rng, n_random).items():
        for i, pl in enumerate(pls):
            sets = addr_sets_for(code, verb, rng, every_shape)
            if max_profiles is not None and len(sets) > max_profiles:
                k = i % len(sets)
                sets = (sets + sets)[k: k + max_profiles]
            for shape, (a0, a1, a2) in sets:
                out.append(GenFrame(code, verb, pl, shape, make_frame(verb, a0, a1, a2, code, pl)))
    return out


def array_codes() -> dict[str, tuple[int, tuple[str, ...]]]:
    """{code: (element length in bytes, legal source device types)} from the library's own table."""
    from ramses_tx.ramses import CODES_WITH_ARRAYS

    return {str(k): (int(v[0]), tuple(v[1])) for k, v in CODES_WITH_ARRAYS.items()}


def array_frame(code: str, elements: Iterable[str], src_id: str) -> str:
    """` I` frame carrying the concatenated elements.  Controllers (01/23/02) announce as
    `src --:------ src`; the 12:/22: thermostats that act as controllers as `--:------ --:------ src`."""
    pl = "".join(elements)
    a = addr_set("trail" if src_id[:2] in ("12", "22") else "self", src_id, src_id)
    return make_frame(" I", *a, code, pl)


def element_frame(code: str, element: str, src_id: str) -> str:
    return array_frame(code, [element], src_id)


# --------------------------------------------------------------------------------------
# mutators (operate on the frame text; positions are character offsets)

_ADDR_SPANS = ((7, 16), (17, 26), (27, 36))  # a0, a1, a2 in "VV SSS A0....... A1....... A2....... CCCC LLL PP.."
_CODE_SPAN = (37, 41)
_LEN_SPAN = (42, 45)
_PAYLOAD_AT = 46


def flip_hex_digit(frame: str, pos: int, to: str | None = None) -> str:
    """Replace the payload/code hex digit at absolute offset `pos` by another hex digit."""
    c = frame[pos]
    new = to or HEX[(HEX.index(c) + 1) % 16 if c in HEX else 0]
    return frame[:pos] + new + frame[pos + 1:]


def corrupt_addr_digit(frame: str, which: int, off: int, to: str) -> str:
    a, _ = _ADDR_SPANS[which]
    return frame[: a + off] + to + frame[a + off + 1:]


def wrong_length(frame: str, new_len: int) -> str:
    return frame[: _LEN_SPAN[0]] + f"{new_len:03d}"[-3:] + frame[_LEN_SPAN[1]:]


def truncate(frame: str, nchars: int) -> str:
    return frame[:nchars]


def edit_char(frame: str, pos: int, to: str) -> str:
    return frame[:pos] + to + frame[pos + 1:]


def drop_char(frame: str, pos: int) -> str:
    return frame[:pos] + frame[pos + 1:]


def insert_char(frame: str, pos: int, ch: str) -> str:
    return frame[:pos] + ch + frame[pos:]


_JUNK = "0123456789ABCDEFabcdefZ-:. #*<\t!\x7f"


def _one_mutation(frame: str, rng: random.Random) -> tuple[str, str]:
    """One seeded edit; works on any string (already-mutated, truncated, empty)."""
    n = len(frame)
    if n < _PAYLOAD_AT + 2:  # no longer frame-shaped: only position-free operators apply
        if n == 0 or rng.random() < 0.5:
            return "insert_char", insert_char(frame, rng.randrange(n + 1), rng.choice(_JUNK))
        return "edit_char", edit_char(frame, rng.randrange(n), rng.choice(_JUNK))
    kind = rng.choice(("hex", "hex", "hex", "addr", "addr", "len", "len", "trunc", "edit", "drop",
                       "insert", "verb", "code", "seqn", "grow"))
    if kind == "hex" and n > _PAYLOAD_AT:
        p = rng.randrange(_PAYLOAD_AT, n)
        return "flip_hex", flip_hex_digit(frame, p, rng.choice([h for h in HEX if h != frame[p]]))
    if kind == "addr":
        w, off = rng.randrange(3), rng.randrange(9)
        return "addr_digit", corrupt_addr_digit(frame, w, off, rng.choice("0123456789-:A"))
    if kind == "len":
        cur = int(frame[42:45]) if frame[42:45].isdigit() else 0
        return "wrong_len", wrong_length(frame, rng.choice((0, 1, cur - 1, cur + 1, cur * 2, 48, 49, 255, 999)) % 1000)
    if kind == "trunc":
        return "truncate", truncate(frame, rng.randrange(0, n))
    if kind == "drop":
        return "drop_char", drop_char(frame, rng.randrange(n))
    if kind == "insert":
        return "insert_char", insert_char(frame, rng.randrange(n + 1), rng.choice(_JUNK))
    if kind == "verb":
        return "verb", rng.choice((" I", "RQ", "RP", " W", "I ", "XX", "rq", "  ")) + frame[2:]
    if kind == "code":
        p = rng.randrange(*_CODE_SPAN)
        return "code_digit", flip_hex_digit(frame, p, rng.choice(HEX))
    if kind == "seqn":
        return "seqn", frame[:3] + rng.choice(("---", "000", "255", "...", "12", "1234", "abc")) + frame[6:]
    if kind == "grow" and n > _PAYLOAD_AT:
        extra = _rand_hex(rng, rng.choice((1, 2, 3, 4, 96)))
        return "grow_payload", frame + extra
    return "edit_char", edit_char(frame, rng.randrange(n), rng.choice(_JUNK))


def mutants(frame: str, rng: random.Random, n: int) -> list[tuple[str, str]]:
    """n seeded single-edit mutants [(operator, text)] (duplicates of the original removed)."""
    out: dict[str, str] = {}
    tries = 0
    while len(out) < n and tries < n * 4:
        tries += 1
        op, m = _one_mutation(frame, rng)
        if m != frame:
            out.setdefault(m, op)
    return [(op, m) for m, op in out.items()]


def double_mutants(frame: str, rng: random.Random, n: int) -> list[tuple[str, str]]:
    out: dict[str, str] = {}
    tries = 0
    while len(out) < n and tries < n * 4:
        tries += 1
        op1, m1 = _one_mutation(frame, rng)
        op2, m2 = _one_mutation(m1, rng) if m1 else (op1, m1)
        if m2 != frame:
            out.setdefault(m2, f"{op1}+{op2}")
    return [(op, m) for m, op in out.items()]


def mutants_systematic(frame: str) -> list[tuple[str, str]]:
    """Every single-position edit of the cheap kinds: each payload/code hex digit -> next digit, each
    address character -> a digit/dash that differs, every length 0..min(len+2, 49) plus 999, every truncation."""
    out: list[tuple[str, str]] = []
    n = len(frame)
    for p in list(range(*_CODE_SPAN)) + list(range(_PAYLOAD_AT, n)):
        out.append(("flip_hex", flip_hex_digit(frame, p)))
    for w in range(3):
        for off in range(9):
            a = _ADDR_SPANS[w][0] + off
            for to in ("0", "9", "-", ":"):
                if frame[a] != to:
                    out.append(("addr_digit", corrupt_addr_digit(frame, w, off, to)))
    cur = int(frame[42:45]) if frame[42:45].isdigit() else 0
    for ln in sorted({0, 1, cur - 1, cur + 1, cur * 2, 48, 49, 999} - {cur, -1}):
        out.append(("wrong_len", wrong_length(frame, ln % 1000)))
    for k in range(0, n):
        out.append(("truncate", truncate(frame, k)))
    return out


# --------------------------------------------------------------------------------------
# line classes for replay shapes (names shared with spec/RxPipeline.tla)

LINE_CLASSES = ("valid", "blank", "comment", "badDtm", "badStructure", "badAddr", "badLen",
                "badPayload", "assertPath", "chatter")

# ` I` array-shaped 000A/2309/30C9 whose source/destination break Frame._has_array's bare asserts
_ASSERT_TEMPLATES = (
    (" I", "pair", "01", "01", "30C9", "0007D00107D0"),
    (" I", "pair", "04", "01", "2309", "0007D00107D0"),
    (" I", "pair", "01", "13", "000A", "001001F40DAC011001F40DAC"),
    (" I", "self", "12", "12", "30C9", "0007D00107D0"),
    (" I", "bcast", "22", "01", "2309", "0007D00107D0"),
    (" I", "pair", "12", "01", "30C9", "0007D00107D0"),
)


def assert_path_frame(rng: random.Random) -> str:
    verb, shape, st, dt_, code, pl = rng.choice(_ASSERT_TEMPLATES)
    src = dev_id(st, rng)
    dst = dev_id(dt_, rng)
    while dst == src:
        dst = dev_id(dt_, rng)
    if shape == "self":
        dst = src
    return make_frame(verb, *addr_set(shape, src, dst), code, pl)


def line_of_class(cls: str, rng: random.Random, valid_frames: list[str]) -> tuple[str, str]:
    """(dtm_field, rest_of_line) for one log/dict line of the class; dtm_field "" = use the caller's
    running timestamp.  rest_of_line is what follows the 27-char timestamp column in a packet log
    (`RSSI frame`), and the dict value in a packet dict."""
    f = rng.choice(valid_frames)
    if cls == "valid":
        return "", f"{rng.choice(('045', '---', '000', '099'))} {f}"
    if cls == "blank":
        return "blank", rng.choice(("", "   ", "\t"))
    if cls == "comment":
        return "comment", rng.choice(("# a comment", "#", "# 2021-01-01T00:00:00.000000 045 " + f))
    if cls == "badDtm":
        # 26 characters, undatable within the first 19 (callers may overwrite the fraction to make it unique)
        return rng.choice(("2021-13-45T99:00:00.000000", "yesterday-at-noon-ish-0000", "0000-00-00T00:00:00.000000",
                           "2021-02-30T12:00:00.000000", "2021-01-01 00-00-00.000000")), f"045 {f}"
    if cls == "badStructure":
        op = rng.choice((lambda x: x.lower(), lambda x: x.replace(" ", "  ", 1), lambda x: "XX" + x[2:],
                         lambda x: x[:45], lambda x: x + "G", lambda x: x[1:], lambda x: x[:20] + "\x00" + x[21:]))
        return "", f"045 {op(f)}"
    if cls == "badAddr":
        v, s, a0, a1, a2, c, l_, p = frame_fields(f)
        a = rng.choice(((NON, NON, NON), (a0 if a0 != NON else "01:000001", "01:000002", "01:000003"),
                        (NON, a2 if a2 != NON else "01:000001", NON), (ALL, NON, ALL), (NON, "01:000001", "01:000001")))
        return "", f"045 {make_frame(v, *a, c, p, s)}"
    if cls == "badLen":
        cur = int(f[42:45])
        return "", f"045 {wrong_length(f, (cur + rng.choice((1, 2, 47))) % 1000)}"
    if cls == "badPayload":  # structurally fine, known code, payload the code's regex refuses
        v, s, a0, a1, a2, c, l_, p = frame_fields(f)
        return "", f"045 {make_frame(v, a0, a1, a2, c, 'FE' * rng.choice((1, 7, 13, 48)), s)}"
    if cls == "assertPath":
        return "", f"045 {assert_path_frame(rng)}"
    if cls == "chatter":
        return "", rng.choice(("# evofw3 0.7.1", "!V", "000 # evofw3 0.7.1", "!C 01 23", "* Checksum error",
                               "045 " + f[:30] + " * Collision", "\x00\x01\x02", "evofw3"))
    raise ValueError(cls)

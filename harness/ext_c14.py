"""C14 helpers: worlds (real Gateway + schema), packet builders per abstract (ctx, code, form),
attribute readers, the concretiser (MsgStore history -> real frames) and the executor that
records what the real objects do.  Used by checks/c14.py only.

Abstract values v = 1, 2 (, 3) are mapped to distinct payload values per code; a reader maps what
the library reports back to v (0 = None/unknown, 99 = a value no message carried, -1 = raised).
"""
from __future__ import annotations

import asyncio
import datetime as _dt
import random
import re
from typing import Any, Callable

from harness import fakes, vloop
from harness.tlc import parse_value

CTL = "01:145038"
HGI = fakes.GWY_ID
NBR = "01:999999"  # a neighbour's controller
TRV, TRV2 = "04:189078", "04:189079"
THM, BDR, BDR2, OTB, DHWS = "34:064023", "13:032648", "13:111111", "10:048122", "07:017494"
FAN, CO2, HUM = "32:155617", "37:171871", "29:150155"
START_MS = 1000
GRACE_MS = 3000
ALL_ZONES = [f"{i:02X}" for i in range(12)]


def hx4(x: float) -> str:
    return f"{int(round(x * 100)) & 0xFFFF:04X}"


def last_var(text: str, name: str) -> Any:
    """The value of variable `name` in the last state of a TLC -simulate trace file."""
    ms = re.findall(rf"(?ms)^/\\ {name} = (.*?)(?=^/\\ |^\s*$|\Z)", text)
    return parse_value(ms[-1]) if ms else None


# --------------------------------------------------------------------------------------
# decoders: library value -> abstract value


def _num(base: float) -> Callable[[Any], int]:
    def f(x: Any) -> int:
        if x is None:
            return 0
        if isinstance(x, (int, float)) and not isinstance(x, bool):
            for v in (1, 2, 3):
                if abs(x - (base + v)) < 1e-9:
                    return v
        return 99
    return f


def _ratio(step: float) -> Callable[[Any], int]:
    def f(x: Any) -> int:
        if x is None:
            return 0
        if isinstance(x, (int, float)) and not isinstance(x, bool):
            for v in (1, 2, 3):
                if abs(x - step * v) < 1e-9:
                    return v
        return 99
    return f


def _key(key: str, inner: Callable[[Any], int]) -> Callable[[Any], int]:
    def f(d: Any) -> int:
        if d is None:
            return 0
        if not isinstance(d, dict) or key not in d:
            return 99
        r = inner(d[key])
        return 99 if r == 0 else r
    return f


def _enum(*vals: Any) -> Callable[[Any], int]:
    def f(x: Any) -> int:
        if x is None:
            return 0
        for i, e in enumerate(vals):
            if type(x) is type(e) and x == e:
                return i + 1
        return 99
    return f


def _mode2349(d: Any) -> int:
    if d is None:
        return 0
    if not isinstance(d, dict):
        return 99
    for v, mode in ((1, "follow_schedule"), (2, "permanent_override"), (3, "follow_schedule")):
        if d.get("mode") == mode and isinstance(d.get("setpoint"), float) and abs(d["setpoint"] - (10 + v)) < 1e-9:
            return v
    return 99


# --------------------------------------------------------------------------------------
# zone family: ctx = a zone of CTL


def _arr(code: str, elems: list[str]) -> str:
    pl = "".join(elems)
    return f" I --- {CTL} --:------ {CTL} {code} {len(pl) // 2:03d} {pl}"


def _rp(code: str, pl: str) -> str:
    return f"RP --- {CTL} {HGI} --:------ {code} {len(pl) // 2:03d} {pl}"


def _ii(code: str, pl: str) -> str:
    return f" I --- {CTL} --:------ {CTL} {code} {len(pl) // 2:03d} {pl}"


ZCODES: dict[str, dict[str, Any]] = {
    # code: element payload(idx, v), verbs of the single form, has array form
    "2309": {"el": lambda i, v: f"{i}{hx4(10 + v)}", "single": ("RP",), "array": True},
    "30C9": {"el": lambda i, v: f"{i}{hx4(20 + v)}", "single": ("RP",), "array": True},
    "000A": {"el": lambda i, v: f"{i}10{hx4(4 + v)}0DAC", "single": ("RP", " I"), "array": True},
    "2349": {"el": lambda i, v: f"{i}{hx4(10 + v)}{'02' if v == 2 else '00'}FFFFFF", "single": ("RP", " I"),
             "array": False},
    "12B0": {"el": lambda i, v: f"{i}{'C800' if v == 2 else '0000'}", "single": ("RP", " I"), "array": False},
    "0004": {"el": lambda i, v: f"{i}00{('Zone' + str(v)).encode().hex().upper():0<40}", "single": ("RP",),
             "array": False},
}

ZVARIANTS: dict[str, dict[str, Any]] = {
    # MC codes 1 (array+single), 2 (single only), 3 (array+single) -> real codes; attributes
    "Z1": {"codes": {1: "2309", 2: "2349", 3: "30C9"},
           "attrs": [((1, 2), "setpoint", _num(10)), ((2,), "mode", _mode2349), ((3,), "temperature", _num(20))]},
    "Z2": {"codes": {1: "000A", 2: "12B0", 3: "30C9"},
           "attrs": [((1,), "config", _key("min_temp", _num(4))), ((2,), "window_open", _enum(False, True)),
                     ((3,), "temperature", _num(20))]},
    "Z3": {"codes": {1: "30C9", 2: "0004", 3: "000A"},
           "attrs": [((1,), "temperature", _num(20)), ((2,), "name", _enum("Zone1", "Zone2", "Zone3")),
                     ((3,), "config", _key("min_temp", _num(4)))]},
}


class ZoneFamily:
    """ctx i (1-based) = zone zones[i-1] of CTL; one extra zone exists for 'other' traffic."""

    kind = "zone"

    def __init__(self, variant: str, zones: list[str], extra: str) -> None:
        self.variant, self.zones, self.extra = variant, zones, extra
        v = ZVARIANTS[variant]
        self.codes: dict[int, str] = v["codes"]
        self.attrs = v["attrs"]

    def spec(self) -> dict:
        return {"kind": "zone", "variant": self.variant, "zones": self.zones, "extra": self.extra}

    def n_ctx(self) -> int:
        return len(self.zones)

    def attr_codes(self) -> list[list[int]]:
        return [list(a[0]) for a in self.attrs]

    def attr_of(self, c: int, codes: frozenset) -> int | None:
        for i, a in enumerate(self.attrs):
            if frozenset(a[0]) == codes:
                return i + 1
        for i, a in enumerate(self.attrs):  # the MC attribute {1,2} of a variant without it
            if set(a[0]) <= set(codes):
                return i + 1
        return None

    def frame(self, k: int, form: str, pairs: list[tuple[int, int]], rnd: random.Random) -> str | None:
        code = self.codes.get(k)
        if code is None:
            return None
        zc = ZCODES[code]
        els = [zc["el"](self.zones[c - 1], v) for c, v in pairs]
        if form == "A":
            return _arr(code, els) if zc["array"] else None
        verb = rnd.choice(zc["single"])
        return _rp(code, els[0]) if verb == "RP" else _ii(code, els[0])

    def other(self, rnd: random.Random) -> str:
        code = rnd.choice(sorted(set(self.codes.values())))
        zc = ZCODES[code]
        z = rnd.choice(self.zones)
        v = rnd.choice((1, 2))
        pick = rnd.randrange(6)
        if pick == 0:  # the neighbour's controller, same code, same zone indexes
            pl = "".join(zc["el"](i, v) for i in self.zones) if zc["array"] else zc["el"](z, v)
            return f" I --- {NBR} --:------ {NBR} {code} {len(pl) // 2:03d} {pl}"
        if pick == 1:  # a reply about a zone that is not modelled
            return _rp(code, zc["el"](self.extra, v))
        if pick == 2:  # our own request (carries the zone index, no value)
            return f"RQ --- {HGI} {CTL} --:------ {code} 001 {z}"
        if pick == 3:  # a thermostat asking the controller to change a setpoint (a W, not a report)
            return f" W --- 22:060293 {CTL} --:------ 2309 003 {z}{hx4(10 + v)}"
        if pick == 4:  # a sensor's own temperature
            return f" I --- {THM} --:------ {THM} 30C9 003 00{hx4(20 + v)}"
        return f" I --- {TRV} --:------ {CTL} 3150 002 {z}{0x32 * v:02X}"

    def schema(self) -> tuple[dict, dict]:
        zs = {z: {} for z in self.zones + [self.extra]}
        return {"main_tcs": CTL, CTL: {"zones": zs}}, {}

    def entities(self, gwy: Any) -> list[Any]:
        tcs = gwy.tcs
        for z in self.zones + [self.extra]:
            tcs.get_htg_zone(z)
        return [tcs.zone_by_idx[z] for z in self.zones]

    def real_code(self, c: int, k: int) -> str | None:
        return self.codes.get(k)

    def reader(self, c: int, a: int) -> tuple[str, Callable[[Any], int]]:
        _, name, dec = self.attrs[a - 1]
        return name, dec


# --------------------------------------------------------------------------------------
# single-form family: ctx = DHW zone / system / a device; code k = the entity's k-th source


def _dev_i(dev: str, code: str, pl: str) -> str:
    return f" I --- {dev} --:------ {dev} {code} {len(pl) // 2:03d} {pl}"


def _dev_to_ctl(dev: str, code: str, pl: str) -> str:
    return f" I --- {dev} --:------ {CTL} {code} {len(pl) // 2:03d} {pl}"


def _dev_rp(dev: str, code: str, pl: str) -> str:
    return f"RP --- {dev} {HGI} --:------ {code} {len(pl) // 2:03d} {pl}"


_31DA = "00{aq}40020434EF7FFF7FFF7FFF7FFFF808EF1804000000EFEF7FFF7FFF"

# entity -> list of (real code, frame(v), attribute name, decoder)
SINGLES: dict[str, list[tuple[str, Callable[[int], str], str, Callable[[Any], int]]]] = {
    "dhw": [
        ("10A0", lambda v: _rp("10A0", f"00{hx4(45 + v)}0003E8"), "config", _key("setpoint", _num(45))),
        ("1F41", lambda v: _rp("1F41", f"00{'01' if v == 2 else '00'}00FFFFFF"), "mode",
         _key("active", _enum(False, True))),
        ("1260", lambda v: _rp("1260", f"00{hx4(45 + v)}"), "temperature", _num(45)),
    ],
    "tcs": [
        ("2E04", lambda v: _ii("2E04", f"{'01' if v == 2 else '00'}FFFFFFFFFFFF00"), "system_mode",
         _key("system_mode", _enum("auto", "heat_off"))),
        ("3150", lambda v: _ii("3150", f"FC{0x32 * v:02X}"), "heat_demand", _ratio(0.25)),
        ("1100", lambda v: _rp("1100", f"FC{12 * v:02X}0400007FFF01"), "tpi_params", _key("cycle_rate", _ratio(3))),
    ],
    "trv": [
        # (TrvActuator.heat_demand also consults .setpoint: a derived attribute, not tabulated here)
        ("12B0", lambda v: _dev_to_ctl(TRV, "12B0", f"00{'C800' if v == 2 else '0000'}"), "window_open",
         _enum(False, True)),
        ("30C9", lambda v: _dev_i(TRV, "30C9", f"00{hx4(20 + v)}"), "temperature", _num(20)),
        ("2309", lambda v: _dev_to_ctl(TRV, "2309", f"00{hx4(10 + v)}"), "setpoint", _num(10)),
    ],
    "thm": [
        ("30C9", lambda v: _dev_i(THM, "30C9", f"00{hx4(20 + v)}"), "temperature", _num(20)),
        ("2309", lambda v: _dev_i(THM, "2309", f"00{hx4(10 + v)}"), "setpoint", _num(10)),
    ],
    "bdr": [
        ("0008", lambda v: _dev_rp(BDR, "0008", f"00{0x32 * v:02X}"), "relay_demand", _ratio(0.25)),
        ("3EF0", lambda v: _dev_i(BDR, "3EF0", f"00{'C8' if v == 2 else '00'}FF"), "actuator_state",
         _key("modulation_level", _enum(0.0, 1.0))),
    ],
    "otb": [
        ("3EF0", lambda v: _dev_i(OTB, "3EF0", f"00{0x10 * v:02X}10020000032000"), "rel_modulation_level",
         _ratio(0.16)),
        ("22D9", lambda v: _dev_rp(OTB, "22D9", f"00{hx4(60 + v)}"), "boiler_setpoint", _num(60)),
        ("3200", lambda v: _dev_rp(OTB, "3200", f"00{hx4(50 + v)}"), "boiler_output_temp", _num(50)),
    ],
    "dhws": [
        ("1260", lambda v: _dev_i(DHWS, "1260", f"00{hx4(45 + v)}"), "temperature", _num(45)),
    ],
    "fan": [
        ("31DA", lambda v: _dev_i(FAN, "31DA", _31DA.format(aq=f"{0x32 * v:02X}")), "air_quality", _ratio(0.25)),
        ("10D0", lambda v: _dev_i(FAN, "10D0", f"00{0x10 * v:02X}B400"), "filter_remaining", _ratio(16)),
    ],
    "co2": [
        ("1298", lambda v: _dev_i(CO2, "1298", f"00{500 + v:04X}"), "co2_level", _num(500)),
    ],
    "hum": [
        ("12A0", lambda v: _dev_i(HUM, "12A0", f"00{0x30 + v:02X}"), "indoor_humidity", _ratio(0.0)),
    ],
}


def _hum_dec(x: Any) -> int:
    if x is None:
        return 0
    for v in (1, 2, 3):
        if isinstance(x, float) and abs(x - (0x30 + v) / 100) < 1e-9:
            return v
    return 99


SINGLES["hum"][0] = (SINGLES["hum"][0][0], SINGLES["hum"][0][1], "indoor_humidity", _hum_dec)

SINGLE_SCHEMA = {
    "main_tcs": CTL,
    CTL: {"system": {"appliance_control": OTB},
          "stored_hotwater": {"sensor": DHWS, "hotwater_valve": BDR2},
          "zones": {"00": {"sensor": THM, "actuators": [TRV]}, "01": {"actuators": [BDR]}}},
    "orphans_hvac": [FAN, CO2, HUM],
}
SINGLE_KNOWN = {FAN: {"class": "FAN"}, CO2: {"class": "CO2"}, HUM: {"class": "HUM"}}


class SingleFamily:
    """ctx i = entity ents[i-1]; MC code k = the k-th entry of SINGLES[entity] (if it has one)."""

    kind = "single"

    def __init__(self, ents: list[str], picks: list[list[int]]) -> None:
        self.ents, self.picks = ents, picks  # picks[i] = indexes into SINGLES[ents[i]] for k = 1, 2, 3

    def spec(self) -> dict:
        return {"kind": "single", "ents": self.ents, "picks": self.picks}

    def n_ctx(self) -> int:
        return len(self.ents)

    def attr_codes(self) -> list[list[int]]:
        return [[1], [2], [3]]

    def attr_of(self, c: int, codes: frozenset) -> int | None:
        if len(codes) != 1:
            return None
        k = next(iter(codes))
        return k if self._entry(c, k) is not None else None

    def _entry(self, c: int, k: int):
        p = self.picks[c - 1]
        if k - 1 >= len(p):
            return None
        return SINGLES[self.ents[c - 1]][p[k - 1]]

    def frame(self, k: int, form: str, pairs: list[tuple[int, int]], rnd: random.Random) -> str | None:
        if form != "S":
            return None
        c, v = pairs[0]
        e = self._entry(c, k)
        return e[1](v) if e else None

    def other(self, rnd: random.Random) -> str:
        v = rnd.choice((1, 2))
        return rnd.choice([
            f" I --- {TRV2} --:------ {CTL} 3150 002 00{0x32 * v:02X}",
            f" I --- 34:111111 --:------ 34:111111 30C9 003 00{hx4(20 + v)}",
            f" I --- {NBR} --:------ {NBR} 2E04 008 00FFFFFFFFFFFF00",
            f"RP --- {NBR} {HGI} --:------ 10A0 006 00{hx4(45 + v)}0003E8",
            f"RQ --- {HGI} {CTL} --:------ 1F41 001 00",
            f" I --- 32:111111 --:------ 32:111111 31DA 029 " + _31DA.format(aq=f"{0x32 * v:02X}"),
            f"RP --- 13:222222 {HGI} --:------ 0008 002 00{0x32 * v:02X}",
        ])

    def schema(self) -> tuple[dict, dict]:
        return SINGLE_SCHEMA, SINGLE_KNOWN

    def entities(self, gwy: Any) -> list[Any]:
        tcs = gwy.tcs
        d = gwy.device_by_id
        m = {"dhw": tcs.dhw, "tcs": tcs, "trv": d[TRV], "thm": d[THM], "bdr": d[BDR], "otb": d[OTB],
             "dhws": d[DHWS], "fan": d[FAN], "co2": d[CO2], "hum": d[HUM]}
        return [m[e] for e in self.ents]

    def real_code(self, c: int, k: int) -> str | None:
        e = self._entry(c, k)
        return e[0] if e else None

    def reader(self, c: int, a: int) -> tuple[str, Callable[[Any], int]]:
        e = self._entry(c, a)
        return e[2], e[3]


def family_from_spec(s: dict):
    if s["kind"] == "zone":
        return ZoneFamily(s["variant"], s["zones"], s["extra"])
    return SingleFamily(s["ents"], s["picks"])


# --------------------------------------------------------------------------------------
# concretiser: MsgStore history h -> concrete events (frames, symbolic ticks, reads)

BUMPS = (3001, 3500, 4200, 7000, 31000)  # > 3 s apart, except where concretise() asks for a fragment merge
FRAGMENT_CODES = ("000A",)
# by how much the clock is put back before a packet whose stamp is earlier than the clock before it (MsgStore:
# StampSteps < 0): a millisecond or two, an NTP step, an hour (the end of DST - the library uses naive local time)
BACK_STEPS = (1, 2, 40, 700, 2900, 3001, 12_000, 3_600_000)


def _step(d: int, rnd: random.Random) -> int:
    """The model's stamp step d (> 0 time went by, 0 the same millisecond - a second frame of one serial read -,
    < 0 the clock was put back) as a concrete number of milliseconds."""
    if d > 0:
        return rnd.choice(BUMPS)
    return 0 if d == 0 else -rnd.choice(BACK_STEPS)


def concretise(h: tuple, fam, rnd: random.Random) -> list[dict]:
    out: list[dict] = []
    for e in h:
        kind = e[0]
        if kind == "rx":
            _, k, form, pairs, _life, _t, mt, d = e  # mt = the message's arrival number in the model's history
            pairs = sorted(pairs)
            fr = fam.frame(k, form, pairs, rnd)
            if fr is None:
                continue
            dt = _step(d, rnd)
            # a per-zone 000A hard on the heels of the array form (the controller's confirmation of a change): the
            # library takes it for the tail of the array and merges the two (dispatcher.detect_array_fragment) -
            # the zone's newest message is still this one
            if (d > 0 and form != "A" and getattr(fam, "codes", {}).get(k) in FRAGMENT_CODES and out and out[-1]["k"] == "rx"
                    and out[-1]["code"] == k and out[-1]["form"] == "A" and rnd.random() < 0.6):
                for _ in range(8):
                    if fr[:2] == " I":
                        break
                    fr = fam.frame(k, form, pairs, rnd)
                if fr[:2] == " I":
                    dt = rnd.choice((400, 1200, 2900))
            out.append({"k": "rx", "code": k, "form": form, "cs": [p[0] for p in pairs],
                        "vs": [p[1] for p in pairs], "frame": fr, "dt": dt, "mt": mt})
        elif kind == "other":
            out.append({"k": "other", "frame": fam.other(rnd), "dt": _step(e[2], rnd)})
        elif kind == "tick":
            out.append({"k": "tick", "ref": e[2][0], "j": e[2][1]})
        elif kind == "read":
            a = fam.attr_of(e[1], frozenset(e[2]))
            if a is not None:
                out.append({"k": "read", "c": e[1], "a": a})
    return out


def threshold(t: int, life: int, j: int) -> int:
    return {1: t + life - 1, 2: t + life, 3: t + 2 * life + GRACE_MS - 1, 4: t + 2 * life + GRACE_MS}[j]


# --------------------------------------------------------------------------------------
# executor


def life_ms(msg: Any) -> int:
    """The lifetime the code gives this message (J13): the payload countdown for 1F09, else
    pkt._lifespan; -1 = never expires."""
    if msg.code == "1F09" and msg.verb != "RQ":
        return int(round(msg.payload["remaining_seconds"] * 1000))
    ls = msg._pkt._lifespan
    if ls is False or ls is None:
        return -1
    if ls is True:
        return -1
    return int(round(ls / _dt.timedelta(milliseconds=1)))


def exp_flag(msg: Any) -> int:
    try:
        return 1 if msg._expired else 0
    except Exception:  # noqa: BLE001
        return -1


async def execute(fam, events: list[dict], *, final_reads: int = 2, verbose: bool = False) -> dict:
    """Run concrete events against a fresh real Gateway; return the recorded trace item."""
    loop = asyncio.get_running_loop()
    schema, known = fam.schema()
    gwy, tr = await fakes.make_port_gateway(config={"disable_sending": True}, schema=schema, known_list=known)
    got: list[Any] = []
    gwy.add_msg_handler(got.append)
    from ramses_tx.packet import Packet

    ents = fam.entities(gwy)
    n = fam.n_ctx()
    # two clocks: `now` is the wall clock (ms) - what the transport stamps packets with and what the gateway's
    # _dt_now() returns, the only clock the library ages messages by; it can be put back (dt < 0).  The loop's
    # monotonic clock (real time) stands at now + sk, sk = by how much the wall clock has been put back so far.
    sk = 0
    now = START_MS + sum(-e["dt"] for e in events if e["k"] in ("rx", "other") and e["dt"] < 0)
    loop._vt = (now + sk) / 1000.0
    msgs: list[Any] = []  # modelled messages, in order of arrival
    t_of: dict[int, int] = {}  # the model's message id (arrival number in its history) -> index into msgs
    rec: list[dict] = []

    def wall() -> _dt.datetime:
        return fakes.EPOCH + _dt.timedelta(milliseconds=now)

    tr._dt_now = wall  # type: ignore[method-assign]
    tr.make_pkt = lambda frame, rssi="045": Packet(wall(), f"{rssi} {frame}")  # type: ignore[method-assign]
    if gwy._dt_now() != wall():
        raise RuntimeError("harness: the gateway does not read the harness's wall clock")

    def ms_of(m: Any) -> int:
        return int(round((m.dtm - fakes.EPOCH) / _dt.timedelta(milliseconds=1)))

    def arrival(m: Any) -> int:
        """Which of the history's messages is this object (stamps need not tell them apart)?"""
        return next((i + 1 for i, x in enumerate(msgs) if x is m), -1)

    def slots() -> list[list[int]]:
        out = []
        for c in range(1, n + 1):
            row = []
            for k in (1, 2, 3):
                code = fam.real_code(c, k)
                m = ents[c - 1]._msgs_.get(code) if code else None
                row.append(arrival(m) if m is not None else 0)
            out.append(row)
        return out

    def record(base: dict) -> None:
        ev = {"k": "", "code": 0, "form": "", "cs": [], "vs": [], "life": 0, "t": now, "sk": sk, "c": 0, "a": 0,
              "obs": 0, "slots": slots(), "exp": [exp_flag(m) for m in msgs], "mcs": [], "mvs": [], "mlife": 0}
        ev.update(base)
        rec.append(ev)
        if verbose:
            print(f"  t={now:>10}{f' (put back {sk} ms so far)' if sk else ''} {ev['k']:5} " + " ".join(f"{k}={ev[k]}" for k in ("code", "form", "cs", "vs", "life", "c", "a", "obs") if ev[k] not in (0, "", []))
                  + f" slots={ev['slots']} exp={ev['exp']}")

    async def inject(frame: str) -> Any:
        before = len(got)
        tr.rx(frame)
        await vloop.drain()
        return got[before] if len(got) > before else None

    async def do_read(c: int, a: int) -> None:
        name, dec = fam.reader(c, a)
        try:
            obs = dec(getattr(ents[c - 1], name))
        except Exception as err:  # noqa: BLE001
            obs = -1
            if verbose:
                print(f"  read {name} raised {type(err).__name__}: {err}")
        await vloop.drain()
        if verbose:
            print(f"  read ctx {c} .{name} -> {obs}")
        record({"k": "read", "c": c, "a": a, "obs": obs})

    prev_rx: dict | None = None
    try:
        for e in events:
            if e["k"] in ("rx", "other"):
                if e["dt"] < 0:  # the wall clock is put back (no real time goes by)
                    sk -= e["dt"]
                now += e["dt"]
                loop._vt = (now + sk) / 1000.0
                if e.get("read_in_callback"):  # a client callback that reads an attribute on every message
                    rc, ra = e["read_in_callback"]
                    rname, _dec = fam.reader(rc, ra)

                    def _cb(_m: Any, rc: int = rc, rname: str = rname) -> None:
                        try:
                            getattr(ents[rc - 1], rname)
                        except Exception:  # noqa: BLE001
                            pass
                    gwy.add_msg_handler(_cb)
                m = await inject(e["frame"])
                if verbose:
                    print(f"  rx {e['frame']}")
                if e["k"] == "rx":
                    if m is None:
                        raise RuntimeError(f"harness: frame was not delivered as a message: {e['frame']}")
                    if ms_of(m) != now:
                        raise RuntimeError("harness: clock mismatch")
                    msgs.append(m)
                    t_of[e["mt"]] = len(msgs) - 1
                    merged: dict[int, int] = {}
                    if isinstance(m.payload, list) and (e["form"] != "A" or len(m.payload) > len(e["cs"])):
                        # the library merged this packet into the array before it (the implementation-shaped model
                        # must know: the stored message then covers the array's zones too); the contract does not care.
                        # With a stamp less than 3 s past the array's (the same millisecond, a clock put back) the
                        # packet merged may itself be an array: the second fragment of a long one
                        if prev_rx is None or prev_rx["form"] != "A" or prev_rx["code"] != e["code"]:
                            raise RuntimeError(f"harness: unexpected merge of {e['frame']}")
                        merged = dict(zip(prev_rx.get("_mcs", prev_rx["cs"]), prev_rx.get("_mvs", prev_rx["vs"])))
                        merged.update(zip(e["cs"], e["vs"]))
                        e["_mcs"], e["_mvs"] = sorted(merged), [merged[c] for c in sorted(merged)]
                    # the lifetime the merged message must have: that of the array it continues (a message's lifetime
                    # is fixed by its kind, and the library says this one is an array)
                    mlife = prev_rx.get("_life", 0) if merged else 0
                    record({"k": "rx", "code": e["code"], "form": e["form"], "cs": e["cs"], "vs": e["vs"],
                            "life": life_ms(m), "mcs": sorted(merged), "mvs": [merged[c] for c in sorted(merged)],
                            "mlife": mlife})
                    prev_rx = dict(e, form="A", _life=mlife) if merged else dict(e, _life=life_ms(m))
                else:
                    record({"k": "other"})
                    prev_rx = None
            elif e["k"] == "tick":
                i = t_of.get(e["ref"])
                if i is None:
                    continue
                lf = life_ms(msgs[i])
                if lf < 0:
                    continue
                tgt = threshold(ms_of(msgs[i]), lf, e["j"])
                if tgt <= now:
                    continue
                now = tgt
                loop._vt = (now + sk) / 1000.0
                await vloop.drain()
                record({"k": "tick"})
            elif e["k"] == "read":
                await do_read(e["c"], e["a"])
        for _ in range(final_reads):
            for c in range(1, n + 1):
                for a in range(1, len(fam.attr_codes()) + 1):
                    if fam.kind == "single" and fam._entry(c, a) is None:
                        continue
                    await do_read(c, a)
    finally:
        await gwy.stop()
    if now + sk >= 2**31 - 1:
        raise RuntimeError("harness: clock exceeds TLC's integer range")
    return {"attrs": fam.attr_codes(), "ev": rec}

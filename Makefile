PY=/venv/bin/python
.PHONY: setup sany selftest manifest
setup: sany selftest
	@echo setup ok
sany:
	@cd /verif && PYTHONPATH=/verif $(PY) tools/sany_all.py
selftest:
	@cd /verif && PYTHONPATH=/verif:/repo/src $(PY) tools/selftest.py
manifest:
	@cd /verif && python3-vt tools/mkmanifest.py

"""Stand-alone: a connection attempt that times out must not poison the next one."""
import asyncio, sys
from ramses_tx import exceptions as exc
from ramses_tx.protocol import PortProtocol
class T:
    def get_extra_info(self, name, default=None): return {"active_gwy": "18:111111", "is_evofw3": True}.get(name, default)
async def main():
    proto = PortProtocol(lambda m: None)
    try:
        await proto.wait_for_connection_made(timeout=0.05)    # the port stays silent
    except exc.TransportError:
        pass
    proto.connection_made(T(), ramses=True)                   # the next attempt connects
    try:
        await proto.wait_for_connection_made(timeout=0.05)
    except BaseException as err:
        print("FAIL:", repr(err)); return 1
    print("ok"); return 0
sys.exit(asyncio.run(main()))

"""/repo before e6ce7db (repaired there): set_pkt_logging()'s clean-up loop removed handlers from the list it iterates (every other one
survives).  With cc_console=True (Gateway: config.reduce_processing >= DONT_CREATE_MESSAGES) the handler list is
[file, stderr, stdout], so an old file handler can survive a later configuration:
  (1) file A + console, (2) file A, (3) file A, one packet heard  ->  the packet is in A twice
  (1) file A + console, (2) file B + console, (3) file C + console, one packet -> it is in B as well as in C
Run: cd /verif && PYTHONPATH=/repo/src /venv/bin/python findings/repro_c02_pktlog_handler_cleanup.py
exit 1 = defect present (before e6ce7db), exit 0 = repaired (for handler in list(logger.handlers))"""
import logging, os, sys, tempfile
from datetime import datetime as dt
from ramses_tx import packet as _packet
from ramses_tx.logger import set_pkt_logging
from ramses_tx.packet import Packet

out = sys.stdout
sys.stdout = sys.stderr = open(os.devnull, "w")         # the console handlers bind these
tmp = tempfile.mkdtemp()
A, B, C = (f"{tmp}/{n}.log" for n in "ABC")
FRAME = "045  I --- 01:145038 --:------ 01:145038 1F09 003 FF073F"
pkts = lambda fn: [ln[27:].rstrip() for ln in open(fn) if " # ramses_tx" not in ln]

set_pkt_logging(_packet.PKT_LOGGER, cc_console=True, file_name=A)
set_pkt_logging(_packet.PKT_LOGGER, file_name=A)
set_pkt_logging(_packet.PKT_LOGGER, file_name=A)
Packet.from_port(dt.now(), FRAME)
same = pkts(A)
for h in list(_packet.PKT_LOGGER.handlers):
    _packet.PKT_LOGGER.removeHandler(h)
for fn in (A, B, C):
    set_pkt_logging(_packet.PKT_LOGGER, cc_console=True, file_name=fn)
Packet.from_port(dt.now(), FRAME)
print("one packet heard after 3 configurations of the same file :", len(same), "line(s) in the log", file=out)
print("one packet heard while C is the packet log               : A", len(pkts(A)) - len(same), " B", len(pkts(B)), " C", len(pkts(C)), file=out)
sys.exit(0 if (len(same), len(pkts(B)), len(pkts(C))) == (1, 0, 1) else 1)

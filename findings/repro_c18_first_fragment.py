#!/usr/bin/env python3
"""C18a stand-alone: a schedule edited on the controller is not noticed when its first fragment is unchanged.

    PYTHONPATH=/repo/src /venv/bin/python findings/repro_c18_first_fragment.py        exit 1 = stale schedule returned

When a zone's schedule is cached and the controller's change counter (RP|0006) has gone up, Schedule._get_schedule()
(src/ramses_rf/system/schedule.py) empties only slot 0 of the cached fragment set

    self._payload_set[0] = None  # if 1st frag valid: schedule very likely unchanged

and asks the controller for fragment 1 alone.  If that fragment is byte-identical with the cached one (and the number of
fragments is unchanged), the set is "complete" again: it is the *old* set, zlib accepts it, and the OLD schedule is returned and
filed under the NEW change counter - get_schedule(force_io=True) included, and every later fetch until the counter moves again.
A schedule is sent as one zlib stream cut into 41-byte fragments; an edit of one set-point late in the week very often leaves
the head of the stream as it was (irregular weekly schedules of 6-7 fragments: about half of such edits).

A real Gateway (protocol + QoS + dispatcher + entities) runs over a fake transport behind which a minimal evohome controller
answers RQ|0006 and RQ|0404.  No faults, no timing involved:
  1. zone 01's schedule A is fetched                                   (counter N)
  2. one switch-point of Saturday/Sunday is edited on the controller:  B (counter N+1); fragment 1 of B == fragment 1 of A
  3. zone.get_schedule(force_io=True)                                  must return B (or raise), returns A
"""
from __future__ import annotations

import asyncio
import copy
import logging
import random
import sys

logging.disable(logging.CRITICAL)

import ramses_tx.gateway as tx_gateway  # noqa: E402
from ramses_rf import Gateway  # noqa: E402
from ramses_rf.system.schedule import full_sched_to_fragz  # noqa: E402
from ramses_tx.transport import _FileTransportAbstractor, _FullTransport  # noqa: E402

CTL_ID = "01:145038"
HGI_ID = "18:123456"


def irregular_schedule(seed: int) -> dict:
    """4-6 switch-points a day at odd times and set-points: what a lived-in weekly schedule looks like."""
    rnd = random.Random(f"repro-c18-{seed}")
    days = []
    for d in range(7):
        slots = sorted(rnd.sample(range(144), rnd.randint(4, 6)))
        days.append({"day_of_week": d, "switchpoints": [
            {"time_of_day": f"{t // 6:02d}:{10 * (t % 6):02d}", "heat_setpoint": rnd.randrange(10, 50) / 2} for t in slots]})
    return {"zone_idx": "01", "schedule": days}


def find_pair() -> tuple[dict, dict, tuple[int, int], int, int]:
    """(A, B, (day, switch-point) edited, pairs tried, pairs with an unchanged first fragment)."""
    tried = same = 0
    found = None
    for seed in range(40):
        a = irregular_schedule(seed)
        fa = full_sched_to_fragz(a)  # type: ignore[arg-type]
        for day in (5, 6):
            for i in range(len(a["schedule"][day]["switchpoints"])):
                b = copy.deepcopy(a)
                b["schedule"][day]["switchpoints"][i]["heat_setpoint"] += 0.5
                fb = full_sched_to_fragz(b)  # type: ignore[arg-type]
                tried += 1
                if len(fa) == len(fb) and fa[0] == fb[0] and fa != fb:
                    same += 1
                    found = found or (a, b, (day, i))
        if found and seed >= 4:
            break
    if not found:
        print("SETUP PROBLEM: no edit with an unchanged first fragment found")
        sys.exit(2)
    return found[0], found[1], found[2], tried, same


class Controller:
    def __init__(self) -> None:
        self.counter = 0x0100
        self.sched: dict = {}
        self.frags: list[str] = []
        self.log: list[str] = []

    def edit(self, sched: dict) -> None:  # as if on the controller's own touch screen
        self.sched, self.frags = sched, full_sched_to_fragz(sched)  # type: ignore[arg-type]
        self.counter += 1

    def respond(self, frame: str) -> str | None:
        verb, _, src, dst, _, code, _, payload = frame.split()
        if dst != CTL_ID or verb != "RQ":
            return None
        if code == "0006":
            return f"RP --- {CTL_ID} {src} --:------ 0006 004 0005{self.counter:04X}"
        if code == "0404":
            idx, num = payload[:2], int(payload[10:12], 16)
            if idx != "01" or num > len(self.frags):
                return None
            frag = self.frags[num - 1]
            pay = f"{idx}200008{len(frag) // 2:02X}{num:02X}{len(self.frags):02X}{frag}"
            return f"RP --- {CTL_ID} {src} --:------ 0404 {len(pay) // 2:03d} {pay}"
        return None


class FakeTransport(_FullTransport, _FileTransportAbstractor):
    def __init__(self, protocol, ctl: Controller, loop) -> None:  # type: ignore[no-untyped-def]
        super().__init__(None, protocol, loop=loop)
        self._ctl = ctl
        self._make_connection(HGI_ID)  # type: ignore[arg-type]

    def _rx(self, frame: str) -> None:
        self._ctl.log.append(frame)
        self._frame_read(self._dt_now().isoformat(timespec="microseconds"), "000 " + frame)

    async def _write_frame(self, frame: str) -> None:
        frame = frame.replace("18:000730", HGI_ID)
        self._loop.call_later(0.002, self._rx, frame)  # the echo
        if (reply := self._ctl.respond(frame)) is not None:
            self._loop.call_later(0.004, self._rx, reply)


async def main() -> int:
    a, b, (day, i), tried, same = find_pair()
    ctl = Controller()
    ctl.edit(a)

    async def factory(protocol, /, **kwargs):  # type: ignore[no-untyped-def]
        return FakeTransport(protocol, ctl, asyncio.get_running_loop())

    tx_gateway.transport_factory = factory  # type: ignore[assignment]
    gwy = Gateway("/dev/ttyFAKE", config={"disable_discovery": True, "enforce_known_list": False},
                  known_list={HGI_ID: {"class": "HGI"}})
    await gwy.start()
    gwy.get_device(CTL_ID)
    try:
        assert gwy.tcs is not None
        zone = gwy.tcs.get_htg_zone("01")
        first = await zone.get_schedule()
        if first != a["schedule"]:
            print("SETUP PROBLEM: the first fetch did not return the schedule")
            return 2
        n_frags, ver_a = len(ctl.frags), ctl.counter

        ctl.edit(b)  # one set-point, late in the week
        sent = len(ctl.log)
        try:
            second = await zone.get_schedule(force_io=True)  # "the latest schedule is guaranteed"
        except Exception as err:  # noqa: BLE001 - an error is a clean end, as per the property
            print(f"ok: the second fetch ended with an error: {err!r}")
            return 0
        pkts = [f for f in ctl.log[sent:] if f.startswith("RQ")]
        sp_a, sp_b = a["schedule"][day]["switchpoints"][i], b["schedule"][day]["switchpoints"][i]
        if second == b["schedule"]:
            print(f"ok: the forced fetch returned the edited schedule ({len(pkts)} requests)")
            return 0
        print("FAIL: get_schedule(force_io=True) returned without an error, but not with the controller's schedule")
        print(f"  edit on the controller: day {day}, {sp_a['time_of_day']}: {sp_a['heat_setpoint']} -> {sp_b['heat_setpoint']}"
              f"   (change counter {ver_a:04X} -> {ctl.counter:04X}; {n_frags} fragments before and after, fragment 1 unchanged)")
        got = second[day]["switchpoints"][i] if second else second
        print(f"  returned:               day {day}, {got}   == the schedule as it was before the edit: {second == a['schedule']}")
        print(f"  filed under version {zone.schedule_version:04X}; requests made by this fetch: "
              + ", ".join(f"{f.split()[5]}{'#' + str(int(f.split()[7][10:12], 16)) if f.split()[5] == '0404' else ''}" for f in pkts))
        print(f"  ({same} of {tried} single-set-point edits of Saturday/Sunday tried leave fragment 1 and the fragment count unchanged)")
        return 1
    finally:
        await gwy.stop()


if __name__ == "__main__":
    sys.exit(asyncio.run(main()))

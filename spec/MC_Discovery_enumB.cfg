\* enumeration of the configurations of instance B (PrintT, one per line)
CONSTANTS
  ZoneIds <- MCZones
  Configs <- MCConfigs
  TcsTable <- TabSys
  MCZones = {}
  MCClasses = {"08"}
  MCMaxActs = 0
  MCSensors = {"none"}
  MCDhw <- DhwAll
  MCApps = {"none", "bdr", "otb"}
  MaxLoss = 3
  MaxRound = 4
  EtherCap = 2
  IterSafe = FALSE
SPECIFICATION EnumSpec
INVARIANT PrintCfg

------------------------------- MODULE QosPort -------------------------------
(***************************************************************************)
(* The layer between a caller and the QoS state machine (QosFsm):          *)
(* ramses_tx.protocol.PortProtocol.send_cmd / _send_cmd and                *)
(* _BaseProtocol.send_cmd, transcribed statement by statement.             *)
(*                                                                         *)
(*   send_cmd(cmd, qos):                                                   *)
(*     S1  if cmd.src is not the gateway placeholder:                      *)
(*             await _send_impersonation_alert(cmd)   -- a whole send of a *)
(*             7FFF notice through S3..S6 (default QoS); its error aborts  *)
(*     S2  (num_repeats bookkeeping - no effect with QoS)                  *)
(*     S3  if self._pause_writing: raise ProtocolError      (base class)   *)
(*     S4  mode rewrite of qos.wait_for_reply (in place, on the caller's   *)
(*         QosParams object - or on the shared DEFAULT_QOS):               *)
(*             disable_qos is True                      -> False           *)
(*             disable_qos is None and code not in MUST -> False           *)
(*         MUST = {0006, 0404, 0418, 1FC9}                                 *)
(*     S5  context.send_cmd(...)             -- QosFsm; the state machine  *)
(*         waits for the reply iff the command has a reply header and      *)
(*         qos.wait_for_reply is truthy (None counts as False there)       *)
(*     S6  a None result -> ProtocolSendFailed                             *)
(*                                                                         *)
(* What the layer decides is a pure function of (mode, requested           *)
(* wait_for_reply, code class, command shape, paused, impersonating) plus  *)
(* one piece of state: the in-place rewrite of S4 persists in the          *)
(* QosParams object, so a *shared* object (the module default) remembers   *)
(* it.  Both are modelled: Row is the function, Share the two-call         *)
(* history on one object.                                                  *)
(*                                                                         *)
(* The world of the rows: every transmission is echoed, and answered if    *)
(* the command has a reply header, promptly.                               *)
(***************************************************************************)
EXTENDS Naturals, Sequences, TLC

Modes  == {"on", "off", "auto"}        \* disable_qos = False / True / None
Reqs   == {"T", "F", "N"}              \* qos.wait_for_reply as the caller set it
Kinds  == {"RQ", "W", "I", "IMP", "LOG"}   \* the harness's command kinds (harness/qos.py make_cmd)

HasRx(k)   == k \in {"RQ", "W", "LOG"}   \* the command has a reply header
Must(k)    == k = "LOG"                  \* its code is one of 0006/0404/0418/1FC9 (0418 here)
Imp(k)     == k = "IMP"                  \* its source is not the gateway: a notice goes first

\* S4
EffWfr(mode, req, k) ==
  IF mode = "off" THEN "F"
  ELSE IF mode = "auto" /\ ~Must(k) THEN "F"
  ELSE req

\* S5 (QosFsm: Wfr[c] = TRUE)
Awaits(mode, req, k) == HasRx(k) /\ EffWfr(mode, req, k) = "T"

\* one call on a fresh QosParams object
Row(mode, req, k, paused) ==
  [notices |-> IF Imp(k) THEN 1 ELSE 0,      \* S1 runs before S3 and goes straight to _send_cmd: the notice is sent even when paused
   out     |-> IF paused THEN "refused" ELSE IF Awaits(mode, req, k) THEN "reply" ELSE "echo",
   writes  |-> IF paused THEN 0 ELSE 1,
   wfrAfter |-> IF paused THEN req ELSE EffWfr(mode, req, k)]    \* what the caller's object holds afterwards

\* two calls sharing one QosParams object (e.g. the module-level default): the second sees what S4 left
Share(mode, req, k1, k2) ==
  LET r1 == Row(mode, req, k1, FALSE)
      r2 == Row(mode, r1.wfrAfter, k2, FALSE)
  IN  <<r1, r2>>

-----------------------------------------------------------------------------
(* The enumeration TLC walks: every row once. *)
VARIABLES mode, req, kind, paused, done
vars == <<mode, req, kind, paused, done>>

Init == mode \in Modes /\ req \in Reqs /\ kind \in Kinds /\ paused \in BOOLEAN /\ done = FALSE
Next == ~done /\ done' = TRUE /\ UNCHANGED <<mode, req, kind, paused>>
Spec == Init /\ [][Next]_vars

R == Row(mode, req, kind, paused)

(* What C07 says about this layer, as invariants of the table: *)
\* "or it raises an error of the protocol-error family": a paused protocol refuses, nothing is written
PausedRefuses == paused => (R.out = "refused" /\ R.writes = 0)
\* "its own echo, or - when a reply is awaited ... - the matching reply": a reply is only ever awaited when
\* the caller asked for it, the command can have one, and the gateway's QoS mode lets it
ReplyOnlyIfAsked == R.out = "reply" => (req = "T" /\ HasRx(kind) /\ mode # "off")
\* with QoS switched off nothing waits for a reply; in the default mode only the must-QoS codes may
OffNeverWaits == mode = "off" => R.out # "reply"
AutoWaitsOnlyForMust == (mode = "auto" /\ R.out = "reply") => Must(kind)
\* "plus only the time taken by a mandatory impersonation notice": exactly one notice, only when impersonating
NoticeIffImp == (R.notices = 1) = Imp(kind)
\* (as coded: the notice of an impersonated command is transmitted even while the protocol is paused and the
\*  command itself is refused - S1 precedes S3 and bypasses it)
\* the command itself is written exactly once in a loss-free world
OneWrite == ~paused => R.writes = 1

(* The shared-object history: the rewrite is sticky.  (An observation about the code as it is, recorded as a
   named consequence rather than a property: after one call in "off"/"auto" mode on a shared object, a later
   call that asked for the reply through that same object no longer waits for it.) *)
StickyRewrite ==
  \A m \in Modes, k1 \in Kinds, k2 \in Kinds :
     LET s == Share(m, "T", k1, k2) IN
     (s[1].wfrAfter = "F") => s[2].out # "reply"
=============================================================================

SPECIFICATION Spec
CONSTANTS
  Fix = FALSE
  Ratify = TRUE
  DeliveryChoices <- DC_small
  EchoChoices <- EC_two
  ThirdChoices <- TC_some
  Presence <- P_all
  SkewChoices <- SK_none
INVARIANT TypeOK
INVARIANT SuccessUnderDuplicates
INVARIANT ScenarioOut
CHECK_DEADLOCK TRUE

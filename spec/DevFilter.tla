------------------------------ MODULE DevFilter ------------------------------
(* C10 - device-id filters of ramses_rf (block list, known list, enforcement).

   Two descriptions of the same rule live here, and TLC shows them equal on the
   whole (bounded, but complete w.r.t. the role abstraction) input space:

   * the PROPERTY as properties.jsonl/C10 words it:  MustDrop / MustPass
     (block beats allow; with the known list enforced only listed ids, the active
      gateway, the broadcast/null addresses - and, when sending, the placeholder
      18:000730 that stands for the gateway - are allowed; an empty known list
      disables enforcement, ramses_tx.schemas.select_device_filter_mode);

   * the CODE, clause by clause: CodeWanted = _DeviceIdFilterMixin._is_wanted_addrs
     (src/ramses_tx/protocol.py) with the state that __init__, _set_active_hgi and
     select_device_filter_mode give it.

   Ids are abstracted to the nine roles of DESIGN.md 4/C10.  A configuration says
   which roles are in the known list / block list, whether enforcement is asked
   for, and which id the transport reports as the active gateway.                *)
EXTENDS Naturals, FiniteSets, TLC

Roles  == {"Listed", "Unlisted", "Blocked", "ListedAndBlocked", "Gwy", "Foreign18",
           "Placeholder", "Broadcast", "Null"}
Shapes == {"a0_a2", "a0a1_", "__a2"}   \* the three legal address-set shapes (address.pkt_addrs)
Dirs   == {"rx", "tx"}

(* configuration record:
     kl  : BOOLEAN                     known list holds Listed and ListedAndBlocked
     hgi : {"no","explicit","implicit"} known list holds Gwy (with / without class: HGI)
     bl  : BOOLEAN                     block list holds Blocked and ListedAndBlocked
     gwb : BOOLEAN                     block list holds Gwy  (gateway itself block-listed)
     enf : BOOLEAN                     enforce_known_list as configured
     act : {"gwy","none","foreign"}    id the transport reports as active gateway
     ph  : {"none","known","block"}    placeholder 18:000730 put in a list by the user
     fgn : {"none","known","block"}    the other 18: device put in a list by the user     *)

Known(c) == (IF c.kl THEN {"Listed", "ListedAndBlocked"} ELSE {})
            \cup (IF c.hgi # "no" THEN {"Gwy"} ELSE {})
            \cup (IF c.ph = "known" THEN {"Placeholder"} ELSE {})
            \cup (IF c.fgn = "known" THEN {"Foreign18"} ELSE {})

Block(c) == (IF c.bl THEN {"Blocked", "ListedAndBlocked"} ELSE {})
            \cup (IF c.gwb THEN {"Gwy"} ELSE {})
            \cup (IF c.ph = "block" THEN {"Placeholder"} ELSE {})
            \cup (IF c.fgn = "block" THEN {"Foreign18"} ELSE {})

ActiveId(c) == CASE c.act = "gwy" -> "Gwy" [] c.act = "foreign" -> "Foreign18" [] OTHER -> "NoId"

(* select_device_filter_mode: an empty known list cannot be enforced *)
Enforced(c) == c.enf /\ Known(c) # {}

Addrs(r) == {r.src, r.dst}

(* ---------------------------------------------------------------------------------
   The property (statement of C10).                                                *)

BlockListed(id, c) == id \in Block(c)

(* "every id that is neither listed, nor the active gateway, nor a broadcast/null
    address" - when sending, 18:000730 denotes the gateway (it is what the firmware
    replaces by its own id), so it is not such an id in a command.                  *)
NotKnown(id, c, dir) == /\ id \notin Known(c)
                        /\ id # ActiveId(c)
                        /\ id \notin {"Broadcast", "Null"}
                        /\ ~(dir = "tx" /\ id = "Placeholder")

MustDrop(r) == \E id \in Addrs(r) :
                  \/ BlockListed(id, r.cfg)
                  \/ Enforced(r.cfg) /\ NotKnown(id, r.cfg, r.dir)

(* "a packet all of whose addresses are allowed" - stated positively *)
AllowedId(id, c, dir) ==
    /\ id \notin Block(c)                                   \* block beats allow
    /\ Enforced(c) => \/ id \in Known(c)
                      \/ id = ActiveId(c)                   \* gateway exemption
                      \/ id \in {"Broadcast", "Null"}
                      \/ dir = "tx" /\ id = "Placeholder"    \* placeholder when sending

MustPass(r) == \A id \in Addrs(r) : AllowedId(id, r.cfg, r.dir)

(* which sentence of the statement a drop falls under: "a" block list, "c" known list *)
DropClause(r) == IF \E id \in Addrs(r) : BlockListed(id, r.cfg) THEN "a" ELSE "c"

(* ---------------------------------------------------------------------------------
   The code.  State of the protocol object for configuration c:                     *)

CodeExclude(c) == Block(c)
CodeInclude(c) == Known(c) \cup {"Broadcast", "Null"}          \* __init__ adds 63:262142, --:------
CodeActive(c)  == IF ActiveId(c) \in CodeExclude(c) THEN "NoId" ELSE ActiveId(c)   \* _set_active_hgi

(* one pass of the for-loop body of _is_wanted_addrs: "drop" / "next" *)
CodeId(id, c, sending) ==
    IF id \in CodeExclude(c) THEN "drop"                               \* 1
    ELSE IF id = CodeActive(c) THEN "next"                             \* 2
    ELSE IF id \in CodeInclude(c) THEN "next"                          \* 3
    ELSE IF sending /\ id = "Placeholder" THEN "next"                  \* 4
    ELSE IF Enforced(c) THEN "drop"                                    \* 5
    ELSE "next"                                                        \* 6,7 (18: warning only)

CodeWanted(r) == \A id \in Addrs(r) : CodeId(id, r.cfg, r.dir = "tx") = "next"

(* ---------------------------------------------------------------------------------
   Rows: what can be put in a frame.                                                 *)

Expressible(src, dst, shape) ==
    /\ src \notin {"Null", "Broadcast"}
    /\ CASE shape = "a0_a2" -> dst # "Null"
         [] shape = "a0a1_" -> dst \notin {"Null", src}
         [] shape = "__a2"  -> dst = "Null"

=============================================================================

------------------------------ MODULE DevFilter ------------------------------
(* C10 - device-id filters of ramses_rf (block list, known list, enforcement).

   Two descriptions of the same rule live here, and TLC shows them equal on the
   whole (bounded, but complete w.r.t. the role abstraction) input space:

   * the PROPERTY as properties.jsonl/C10 words it:  MustDrop / MustPass
     (block beats allow; with the known list enforced only listed ids, the active
      gateway, the broadcast/null addresses - and, when sending, the placeholder
      18:000730 that stands for the gateway - are allowed; an empty known list
      disables enforcement, ramses_tx.schemas.select_device_filter_mode);

   * the CODE, clause by clause: CodeWanted = _DeviceIdFilterMixin._is_wanted_addrs
     (src/ramses_tx/protocol.py) with the state that __init__, _set_active_hgi and
     select_device_filter_mode give it.

   Ids are abstracted to the nine roles of DESIGN.md 4/C10.  A configuration says
   which roles are in the known list / block list, whether enforcement is asked
   for, and which id the transport reports as the active gateway.

   A protocol object outlives its connection (connection_lost, then connection_made
   again with a transport that reports the same, another or no gateway id): the
   life-cycle section below says which configuration is in force after such a
   history, and what state the code's filter is in.                              *)
EXTENDS Naturals, FiniteSets, Sequences, TLC

Roles  == {"Listed", "Unlisted", "Blocked", "ListedAndBlocked", "Gwy", "Foreign18",
           "Placeholder", "Broadcast", "Null"}
Shapes == {"a0_a2", "a0a1_", "__a2"}   \* the three legal address-set shapes (address.pkt_addrs)
Dirs   == {"rx", "tx"}

(* configuration record:
     kl  : BOOLEAN                     known list holds Listed and ListedAndBlocked
     hgi : {"no","explicit","implicit"} known list holds Gwy (with / without class: HGI)
     bl  : BOOLEAN                     block list holds Blocked and ListedAndBlocked
     gwb : BOOLEAN                     block list holds Gwy  (gateway itself block-listed)
     enf : BOOLEAN                     enforce_known_list as configured
     act : {"gwy","none","foreign"}    id the transport reports as active gateway
     ph  : {"none","known","block"}    placeholder 18:000730 put in a list by the user
     fgn : {"none","known","block"}    the other 18: device put in a list by the user     *)

Known(c) == (IF c.kl THEN {"Listed", "ListedAndBlocked"} ELSE {})
            \cup (IF c.hgi # "no" THEN {"Gwy"} ELSE {})
            \cup (IF c.ph = "known" THEN {"Placeholder"} ELSE {})
            \cup (IF c.fgn = "known" THEN {"Foreign18"} ELSE {})

Block(c) == (IF c.bl THEN {"Blocked", "ListedAndBlocked"} ELSE {})
            \cup (IF c.gwb THEN {"Gwy"} ELSE {})
            \cup (IF c.ph = "block" THEN {"Placeholder"} ELSE {})
            \cup (IF c.fgn = "block" THEN {"Foreign18"} ELSE {})

ActId(a)    == CASE a = "gwy" -> "Gwy" [] a = "foreign" -> "Foreign18" [] OTHER -> "NoId"
ActiveId(c) == ActId(c.act)

(* select_device_filter_mode: an empty known list cannot be enforced *)
Enforced(c) == c.enf /\ Known(c) # {}

Addrs(r) == {r.src, r.dst}

(* ---------------------------------------------------------------------------------
   The property (statement of C10).                                                *)

BlockListed(id, c) == id \in Block(c)

(* "every id that is neither listed, nor the active gateway, nor a broadcast/null
    address" - when sending, 18:000730 denotes the gateway (it is what the firmware
    replaces by its own id), so it is not such an id in a command.                  *)
NotKnown(id, c, dir) == /\ id \notin Known(c)
                        /\ id # ActiveId(c)
                        /\ id \notin {"Broadcast", "Null"}
                        /\ ~(dir = "tx" /\ id = "Placeholder")

MustDrop(r) == \E id \in Addrs(r) :
                  \/ BlockListed(id, r.cfg)
                  \/ Enforced(r.cfg) /\ NotKnown(id, r.cfg, r.dir)

(* "a packet all of whose addresses are allowed" - stated positively *)
AllowedId(id, c, dir) ==
    /\ id \notin Block(c)                                   \* block beats allow
    /\ Enforced(c) => \/ id \in Known(c)
                      \/ id = ActiveId(c)                   \* gateway exemption
                      \/ id \in {"Broadcast", "Null"}
                      \/ dir = "tx" /\ id = "Placeholder"    \* placeholder when sending

MustPass(r) == \A id \in Addrs(r) : AllowedId(id, r.cfg, r.dir)

(* which sentence of the statement a drop falls under: "a" block list, "c" known list *)
DropClause(r) == IF \E id \in Addrs(r) : BlockListed(id, r.cfg) THEN "a" ELSE "c"

(* ---------------------------------------------------------------------------------
   The code.  State of the protocol object for configuration c:                     *)

CodeExclude(c) == Block(c)
CodeInclude(c) == Known(c) \cup {"Broadcast", "Null"}          \* __init__ adds 63:262142, --:------

(* the filter's state: __init__, then connection_made -> _set_active_hgi, connection_lost *)
CodeInit(c) == [excl |-> CodeExclude(c), incl |-> CodeInclude(c), enf |-> Enforced(c), active |-> "NoId"]

(* _set_active_hgi(id the transport reports).  `append` = the line the code has commented out
   ("# self._include.append(dev_id)  # a good idea?"): FALSE is the code, TRUE is the question.    *)
CodeConnMadeP(s, a, append) ==
    LET id == ActId(a) IN
    IF id = "NoId" \/ id \in s.excl THEN [s EXCEPT !.active = "NoId"]
    ELSE [s EXCEPT !.active = id,
                   !.incl   = IF append /\ id \notin s.incl THEN s.incl \cup {id} ELSE s.incl]
CodeConnMade(s, a) == CodeConnMadeP(s, a, FALSE)
CodeConnLost(s)    == [s EXCEPT !.active = "NoId"]     \* "the next connection (if any) will set it again"

CodeState(c)   == CodeConnMade(CodeInit(c), c.act)     \* one connection, reporting c.act
CodeActive(c)  == CodeState(c).active

(* one pass of the for-loop body of _is_wanted_addrs in state s: "drop" / "next" *)
CodeIdIn(id, s, sending) ==
    IF id \in s.excl THEN "drop"                                       \* 1
    ELSE IF id = s.active THEN "next"                                  \* 2
    ELSE IF id \in s.incl THEN "next"                                  \* 3
    ELSE IF sending /\ id = "Placeholder" THEN "next"                  \* 4
    ELSE IF s.enf THEN "drop"                                          \* 5
    ELSE "next"                                                        \* 6,7 (18: warning only)

CodeWantedIn(s, r) == \A id \in Addrs(r) : CodeIdIn(id, s, r.dir = "tx") = "next"

CodeId(id, c, sending) == CodeIdIn(id, CodeState(c), sending)
CodeWanted(r) == CodeWantedIn(CodeState(r.cfg), r)

(* ---------------------------------------------------------------------------------
   Life cycle.  c.act is what the transport of the first connection reports; a history
   h is what happened to the same protocol object afterwards: "lost" (connection_lost)
   and the act of each later connection_made, alternating.  The statement is evaluated
   under the configuration in force when the packet arrives / the command is sent
   (the filter is stateless, J24): the lists as configured, and as active gateway the
   one of the connection that is up - none while the connection is down.               *)

Acts       == {"gwy", "none", "foreign"}
ConnEvents == Acts \cup {"lost"}
LegalHist(h) == \A i \in 1..Len(h) : /\ h[i] \in ConnEvents
                                     /\ (h[i] = "lost") <=> (i % 2 = 1)
Up(h)        == IF h = <<>> THEN TRUE ELSE h[Len(h)] # "lost"
InForce(c, h) == IF h = <<>> THEN c
                 ELSE [c EXCEPT !.act = IF h[Len(h)] = "lost" THEN "none" ELSE h[Len(h)]]

RECURSIVE CodeAfter(_, _)
CodeAfter(c, h) == IF h = <<>> THEN CodeState(c)
                   ELSE LET s == CodeAfter(c, SubSeq(h, 1, Len(h) - 1))
                            e == h[Len(h)]
                        IN IF e = "lost" THEN CodeConnLost(s) ELSE CodeConnMade(s, e)

(* ---------------------------------------------------------------------------------
   Rows: what can be put in a frame.                                                 *)

Expressible(src, dst, shape) ==
    /\ src \notin {"Null", "Broadcast"}
    /\ CASE shape = "a0_a2" -> dst # "Null"
         [] shape = "a0a1_" -> dst \notin {"Null", src}
         [] shape = "__a2"  -> dst = "Null"

=============================================================================

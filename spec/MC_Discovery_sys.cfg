\* Instance B (system parts): no zones; every subset of DHW parts x appliance kinds; up to 3 losses
CONSTANTS
  ZoneIds <- MCZones
  Configs <- MCConfigs
  TcsTable <- TabSys
  MCZones = {}
  MCClasses = {"08"}
  MCMaxActs = 0
  MCSensors = {"none"}
  MCDhw <- DhwAll
  MCApps = {"none", "bdr", "otb"}
  MaxLoss = 3
  MaxRound = 4
  EtherCap = 2
  IterSafe = FALSE
SPECIFICATION FairSpec
INVARIANT TypeOK
INVARIANT Sound
INVARIANT NoDeadPoller
INVARIANT Recovery
INVARIANT RecoveryNoLoss
PROPERTY Monotone
PROPERTY Complete

\* Transition coverage (thorough): 1 controller, zones 00 and 01 in range and 02 beyond max_zones, a thermostat and a
\* TRV, class 08, eavesdropping on; both devices may be asked to be faked          (11 905 transitions)
CONSTANTS
  Ctls <- MCCtls1
  ZoneIds <- MCZones3
  ZNum <- MCZNum
  MaxZones = 2
  Devs <- MCDevsTC
  PairDevs <- MCDevsTC
  TypeOf <- MCTypeOf
  Classes = {"08"}
  Eavesdrop = TRUE
  FakeDevs <- MCFakeTC
  MaxClaims = 40
SPECIFICATION TCSpec
VIEW TCView
INVARIANT OnePlace
INVARIANT ZonesInRange

------------------------------- MODULE Engine -------------------------------
(* C13 "No traffic can break the gateway": the pause / resume bracket of the engine.

   Transcribed from ramses_tx/gateway.py (Engine._pause/_resume) and ramses_rf/gateway.py
   (Gateway._pause/_resume, get_state, _restore_cached_packets), one action per statement:

     Gateway._pause   P1  config.disable_discovery, disc_flag = True, config.disable_discovery
     Engine._pause    E1  if _engine_state is not None: (undo P1) raise RuntimeError
                      E2  _engine_state = (None, None, ())
                      E3  protocol.pause_writing()
                      E4  if _transport: transport.pause_reading()
                      E5  protocol._msg_handler, handler = None, protocol._msg_handler
                      E6  _disable_sending, read_only = True, _disable_sending
                      E7  _engine_state = (handler, read_only, disc_flag)
     body             get_state: the traversal of all stores, msg._expired, self.schema ...
                      restore:   temporary protocol + transport, await the reader task
                      -- may raise at any point; NO try/finally around it (TryFinally = FALSE)
     Engine._resume   R1  if _engine_state is None: raise RuntimeError
                      R2  protocol._msg_handler, _disable_sending, disc = _engine_state
                      R3  if _transport: transport.resume_reading()
                      R4  if not _disable_sending: protocol.resume_writing()
                      R5  _engine_state = None
     Gateway._resume  R6  config.disable_discovery = disc
     Engine.start     B1  _transport = await transport_factory(_protocol, ...)   (action Bind)

   The engine has no transport until start() (Engine.__init__: "None until self.start()"): E4 and R3
   are guarded by `if self._transport:`, E3 and R4 are not.  The gateway therefore begins in the
   phase 'not yet started' (tr = FALSE), in which operations may be requested just as well (a
   snapshot of the configured state, a cache restored before the port is opened: point zero of the
   history); Bind is start() and may happen whenever no operation is in progress.  "Running as
   before" in that phase: not paused, handler installed, flags as configured, writing not paused,
   nothing reading (there is nothing to read from) - and once Bind has happened, running.

   restore awaits inside its body, so a second operation may start there (nested misuse: pause
   while paused).  Views are read-only.  The projection <<es, hdl, snd, rd, pw, disc>> is what
   the harness reads off the real objects. *)
EXTENDS Integers, Sequences, FiniteSets, TLC

CONSTANTS
  TryFinally,     \* TRUE = the proposed repair (pause ... try: body finally: resume)
  CfgSending,     \* the gateway's configured disable_sending (FALSE = may send)
  CfgDisc         \* the gateway's configured disable_discovery

VARIABLES
  es,     \* _engine_state: "none" | "partial" | "saved"
  hdl,    \* protocol._msg_handler is installed
  snd,    \* _disable_sending
  rd,     \* transport is reading
  pw,     \* protocol._pause_writing
  disc,   \* config.disable_discovery
  tr,     \* a transport is bound (start() has been called): FALSE = 'not yet started'
  saved,  \* the tuple kept in _engine_state
  calls,  \* stack of operations in progress: [op, pc, base, dflag, raised]
  done,   \* the operation that has just finished: [op, base, raised] or NoDone
  h

vars == <<es, hdl, snd, rd, pw, disc, tr, saved, calls, done, h>>

Proj == <<es, hdl, snd, rd, pw, disc>>
NoDone == [op |-> "-", base |-> <<>>, raised |-> FALSE]

(* "running": what a gateway that is neither paused nor broken looks like *)
(* p = <<es, hdl, snd, rd, pw, disc>>; noSend = disable_sending.  A gateway that may not send is
   never un-paused for writing (R4), so pw is only compared for a sending gateway. *)
(* bound = a transport exists (the gateway has been started): it is reading iff there is one *)
RunningIn(p, bound, noSend, noDisc) ==
  p = <<"none", TRUE, noSend, bound, IF noSend THEN p[5] ELSE FALSE, noDisc>>
Running(p, noSend, noDisc) == RunningIn(p, TRUE, noSend, noDisc)
SameProj(p, q) == /\ p[1] = q[1] /\ p[2] = q[2] /\ p[3] = q[3] /\ p[4] = q[4] /\ p[6] = q[6]
                  /\ (~p[3] => p[5] = q[5])

Init == /\ es = "none" /\ hdl = TRUE /\ snd = CfgSending /\ rd = FALSE /\ pw = FALSE /\ disc = CfgDisc
        /\ tr = FALSE
        /\ saved = <<TRUE, CfgSending, CfgDisc>>
        /\ calls = <<>> /\ done = NoDone /\ h = <<>>

Top == calls[Len(calls)]
SetTop(r) == [calls EXCEPT ![Len(calls)] = r]
Pop == SubSeq(calls, 1, Len(calls) - 1)

(* an operation may start when nothing runs, or while a restore awaits in its body *)
Start(op) ==
  /\ IF calls = <<>> THEN TRUE ELSE (Top.op = "restore" /\ Top.pc = "body")
  /\ calls' = Append(calls, [op |-> op, pc |-> "P1", base |-> Proj, dflag |-> FALSE, raised |-> FALSE])
  /\ done' = NoDone /\ h' = Append(h, <<"start", op>>)
  /\ UNCHANGED <<es, hdl, snd, rd, pw, disc, tr, saved>>

(* Gateway.start() / Engine.start(): the protocol - in whatever state the operations so far have left
   it - is bound to a new transport, which reads.  Nothing else of the projection is touched
   (Gateway.start saves and puts back disable_discovery around it). *)
Bind ==
  /\ calls = <<>> /\ ~tr
  /\ tr' = TRUE /\ rd' = TRUE
  /\ done' = NoDone /\ h' = Append(h, <<"bind", "start()">>)
  /\ UNCHANGED <<es, hdl, snd, pw, disc, saved, calls>>

Finish(raised) ==
  /\ done' = [op |-> Top.op, base |-> Top.base, raised |-> raised]
  /\ calls' = Pop

Step ==
  /\ calls # <<>>
  /\ tr' = tr
  /\ LET c == Top IN
     CASE c.pc = "P1" ->
            /\ disc' = TRUE /\ calls' = SetTop([c EXCEPT !.pc = "E1", !.dflag = disc])
            /\ done' = NoDone /\ UNCHANGED <<es, hdl, snd, rd, pw, saved, h>>
       [] c.pc = "E1" ->
            IF es # "none"
            THEN /\ disc' = c.dflag /\ Finish(TRUE)                 \* RuntimeError: already paused
                 /\ UNCHANGED <<es, hdl, snd, rd, pw, saved, h>>
            ELSE /\ es' = "partial" /\ calls' = SetTop([c EXCEPT !.pc = "E3"])
                 /\ done' = NoDone /\ UNCHANGED <<hdl, snd, rd, pw, disc, saved, h>>
       [] c.pc = "E3" -> /\ pw' = TRUE /\ calls' = SetTop([c EXCEPT !.pc = "E4"])
                         /\ done' = NoDone /\ UNCHANGED <<es, hdl, snd, rd, disc, saved, h>>
       [] c.pc = "E4" -> /\ rd' = (IF tr THEN FALSE ELSE rd) /\ calls' = SetTop([c EXCEPT !.pc = "E5"])
                         /\ done' = NoDone /\ UNCHANGED <<es, hdl, snd, pw, disc, saved, h>>
       [] c.pc = "E5" -> /\ hdl' = FALSE /\ saved' = <<hdl, saved[2], saved[3]>>
                         /\ calls' = SetTop([c EXCEPT !.pc = "E6"])
                         /\ done' = NoDone /\ UNCHANGED <<es, snd, rd, pw, disc, h>>
       [] c.pc = "E6" -> /\ snd' = TRUE /\ saved' = <<saved[1], snd, saved[3]>>
                         /\ calls' = SetTop([c EXCEPT !.pc = "E7"])
                         /\ done' = NoDone /\ UNCHANGED <<es, hdl, rd, pw, disc, h>>
       [] c.pc = "E7" -> /\ es' = "saved" /\ saved' = <<saved[1], saved[2], c.dflag>>
                         /\ calls' = SetTop([c EXCEPT !.pc = "body"])
                         /\ done' = NoDone /\ UNCHANGED <<hdl, snd, rd, pw, disc, h>>
       [] c.pc = "body" ->
            \/ /\ calls' = SetTop([c EXCEPT !.pc = "R1"])             \* the body completes
               /\ done' = NoDone /\ UNCHANGED <<es, hdl, snd, rd, pw, disc, saved, h>>
            \/ /\ IF TryFinally                                       \* the body raises
                  THEN calls' = SetTop([c EXCEPT !.pc = "R1", !.raised = TRUE]) /\ done' = NoDone
                  ELSE Finish(TRUE)
               /\ h' = Append(h, <<"raise", c.op>>)
               /\ UNCHANGED <<es, hdl, snd, rd, pw, disc, saved>>
       [] c.pc = "R1" ->
            IF es = "none"
            THEN Finish(TRUE) /\ UNCHANGED <<es, hdl, snd, rd, pw, disc, saved, h>>
            ELSE /\ hdl' = saved[1] /\ snd' = saved[2] /\ calls' = SetTop([c EXCEPT !.pc = "R3"])
                 /\ done' = NoDone /\ UNCHANGED <<es, rd, pw, disc, saved, h>>
       [] c.pc = "R3" -> /\ rd' = (IF tr THEN TRUE ELSE rd) /\ calls' = SetTop([c EXCEPT !.pc = "R4"])
                         /\ done' = NoDone /\ UNCHANGED <<es, hdl, snd, pw, disc, saved, h>>
       [] c.pc = "R4" -> /\ pw' = (IF snd THEN pw ELSE FALSE) /\ calls' = SetTop([c EXCEPT !.pc = "R5"])
                         /\ done' = NoDone /\ UNCHANGED <<es, hdl, snd, rd, disc, saved, h>>
       [] c.pc = "R5" -> /\ es' = "none" /\ calls' = SetTop([c EXCEPT !.pc = "R6"])
                         /\ done' = NoDone /\ UNCHANGED <<hdl, snd, rd, pw, disc, saved, h>>
       [] c.pc = "R6" -> /\ disc' = saved[3] /\ Finish(c.raised)
                         /\ UNCHANGED <<es, hdl, snd, rd, pw, saved, h>>

Next == (\E op \in {"get_state", "restore"} : Start(op)) \/ Step \/ Bind
Spec == Init /\ [][Next]_vars

-----------------------------------------------------------------------------
(* C13b "taking a snapshot or restoring one leaves the gateway running exactly as before ...
   whether or not the operation itself succeeded": when an operation has just finished, the
   projection is what it was when the operation started. *)
AsBefore == done # NoDone => SameProj(Proj, done.base)

(* ... modulo the known defect: an operation whose body raised (no try/finally) *)
AsBeforeUnlessBodyRaised ==
  (done # NoDone /\ ~(done.raised /\ done.base[1] = "none" /\ Proj[1] # "none")) => SameProj(Proj, done.base)

(* at rest the gateway runs *)
(* at rest the gateway runs - in the phase it is in; in particular a gateway started after any number
   of operations in the 'not yet started' phase is running (still receiving, still able to send) *)
BodyRaised == \E i \in 1..Len(h) : h[i][1] = "raise"    \* (without try/finally: paused for good, Bind or not)
RunningAtRest == (calls = <<>> /\ (done = NoDone \/ ~done.raised) /\ ~BodyRaised) => RunningIn(Proj, tr, CfgSending, CfgDisc)
RunningAtRestStrict == calls = <<>> => RunningIn(Proj, tr, CfgSending, CfgDisc)
=============================================================================

---------------------------- MODULE SchedXfer ----------------------------
(* C18 - schedule transfers under faults: the model-checking spec.
   The gateway side (functional core, one operator per code step between two awaits) is in
   SchedXferCore.tla and is shared with SchedXferTrace.tla; here it is driven by an environment
   (controller, faults, caller aborts, overheard traffic) and the property clauses are stated. *)
EXTENDS SchedXferCore

\* ------------------------------------------------------------------------------------------
\* Model-checking spec: the core driven by an environment (controller, faults, caller).

CONSTANTS Zones,          \* subset of 1..3
          FixLock, FixAck, FixStale, \* see SchedXferCore
          ZlibDetects,    \* TRUE (assumption); FALSE shows why it is needed
          MaxMain,        \* main-phase transfers
          MaxFaults,      \* lost / rlost / cancel / timeout
          MaxBumps, MaxHeard, MaxAge,
          AllowSet,       \* whether set_schedule transfers are started
          HeardStale,     \* see HeardFrag
          HeardAcks       \* whether another device's write acknowledgements are overheard

\* Two more parameters, given as definitions so that an instance overrides them in its cfg (X <- Y) and the others need
\* not name them:  Shared[c] = the positions at which the fragment of version c is byte-identical with that of version c-1 (an
\* edit late in the week leaves the head of the compressed stream as it was);  FixHead, see SchedXferCore.
Shared  == NoShare
FixHead == FALSE

Fix == [lock |-> FixLock, ack |-> FixAck, stale |-> FixStale, head |-> FixHead]
Cod == [zlib |-> ZlibDetects, sh |-> Shared]

VARIABLES G,              \* gateway side (core)
          late,           \* replies on their way to a transfer that was cancelled meanwhile
          ctr, cver,      \* controller: change counter, content version per zone
          phase,          \* "main" | "fu" | "end"
          cnt,            \* budgets used: [started, fault, bump, heard, age]
          ct,             \* contract history (C18a): [acc, armed, since, fresh] - versions a result may carry
          lastEnded, fuDone, lockAtMainEnd,
          h               \* environment choices (scenario for the harness)

vars == <<G, late, ctr, cver, phase, cnt, ct, lastEnded, fuDone, lockAtMainEnd, h>>

AnyActive == \E z \in Zones : Active(G, z)

\* where an environment choice is anchored for the harness: after the n-th completed exchange of the
\* oldest active transfer, or after the end of the transfer that ended last
Trig == IF AnyActive
        THEN LET z == CHOOSE z \in Zones : Active(G, z) /\
                          \A y \in Zones : Active(G, y) => G.zs[z].tid <= G.zs[y].tid
             IN  <<G.zs[z].tid, G.zs[z].n>>
        ELSE <<lastEnded, -1>>

Ev(kind, a, b, c, d) == [k |-> kind, a |-> a, b |-> b, c |-> c, d |-> d,
                         tt |-> Trig[1], tn |-> Trig[2]]

Init == /\ G = GInit(Zones) /\ late = {}
        /\ ctr = 1 /\ cver = [z \in Zones |-> 0]
        /\ phase = "main"
        /\ cnt = [started |-> 0, fault |-> 0, bump |-> 0, heard |-> 0, age |-> 0]
        /\ ct = [acc |-> [z \in Zones |-> {0}], armed |-> [z \in Zones |-> FALSE],
                 since |-> [z \in Zones |-> {0}], fresh |-> FALSE]
        /\ lastEnded = 0 /\ fuDone = {} /\ lockAtMainEnd = NoZone
        /\ h = <<>>

\* ---- contract history -----------------------------------------------------------------------
\* A transfer may rely on a change counter it reads itself, or (the latitude the library takes: "cached values are
\* only used if less than 3 minutes old") on the latest counter the controller was heard to send - but only while
\* that reading is younger than the freshness window.  ct.fresh is the environment's side of that window (a fact
\* about elapsed time, whatever the gateway believes): set when the controller sends an RP|0006, reset when more
\* than the window has passed since (AgeCache, the 3-minute lock wait).  A transfer called with ct.fresh = FALSE
\* has no earlier reading to go by: until it reads a counter itself, the only schedule that is certainly "the
\* controller's" is the one the controller holds from the call on (acc = {cver[z]}, plus later edits).
\* the controller answers an RQ|0006 (or is overheard doing so): a change counter is read
VRead(c) == [acc   |-> [z \in Zones |-> IF Active(G, z) /\ ~c.armed[z] THEN {cver[z]} ELSE c.acc[z]],
             armed |-> [z \in Zones |-> c.armed[z] \/ Active(G, z)],
             since |-> [z \in Zones |-> {cver[z]}],
             fresh |-> TRUE]
\* zone z's content becomes version v
Changed(c, z, v) == [c EXCEPT !.acc[z] = IF Active(G, z) THEN @ \cup {v} ELSE @,
                              !.since[z] = @ \cup {v}]
\* a transfer of zone z is called
Called(c, z) == [c EXCEPT !.acc[z] = IF c.fresh THEN c.since[z] ELSE {cver[z]}, !.armed[z] = FALSE]
\* more than the freshness window has passed since the controller last sent its change counter
Expired(c) == [c EXCEPT !.fresh = FALSE]

\* the transfer (if any) that G2 ends
NoteEnd(G2) == lastEnded' = IF \E z \in Zones : Active(G, z) /\ ~Active(G2, z)
                            THEN G.zs[CHOOSE z \in Zones : Active(G, z) /\ ~Active(G2, z)].tid
                            ELSE lastEnded

\* ---- caller ---------------------------------------------------------------------------------------
StartXfer(z, op, force) ==
    /\ phase = "main" /\ cnt.started < MaxMain /\ ~Active(G, z)
    /\ op = "set" => AllowSet
    /\ LET tid == cnt.started + 1
           G2  == IF op = "get" THEN StartGet(G, z, force, tid, Fix) ELSE StartSet(G, z, cver[z] + 1, tid, Fix)
       IN  /\ G' = G2
           /\ cnt' = [cnt EXCEPT !.started = tid]
           /\ h' = Append(h, Ev("start", tid, z, IF op = "get" THEN 0 ELSE 1, IF force THEN 1 ELSE 0))
           /\ ct' = Called(ct, z)
           /\ lastEnded' = IF Active(G2, z) THEN lastEnded ELSE tid
    /\ UNCHANGED <<late, ctr, cver, phase, fuDone, lockAtMainEnd>>

\* ---- exchanges ------------------------------------------------------------------------------------
IsFinalPut(z) == Z(G, z).pc = "w_put" /\ Z(G, z).k = Z(G, z).nfr
IsVer(z)      == Z(G, z).pc \in {"w_v1", "w_v2", "w_v3", "w_sv"}

\* the controller receives the request of zone z's pending exchange
CtlRecv(z) == IF IsFinalPut(z)
              THEN /\ cver' = [cver EXCEPT ![z] = Z(G, z).wr] /\ ctr' = ctr + 1
              ELSE UNCHANGED <<ctr, cver>>
CtAfterRecv(c, z) == IF IsFinalPut(z) THEN Changed(c, z, Z(G, z).wr) ELSE c

\* the reply the controller produces for it
ReplyOf(z) == LET r == Z(G, z) IN
    CASE IsVer(z) -> [z |-> z, kind |-> "ver", c |-> (IF IsFinalPut(z) THEN ctr + 1 ELSE ctr), k |-> 0, n |-> 0]
      [] r.pc = "w_frag" -> [z |-> z, kind |-> "frag", c |-> Rep(Shared, cver[z], ReqFrag(G, z)), k |-> ReqFrag(G, z),
                             n |-> NFrags(cver[z])]
      [] r.pc = "w_put" -> [z |-> z, kind |-> "ack", c |-> Ack, k |-> r.k, n |-> r.nfr]

\* (the controller answers in order: the reply to an abandoned exchange arrives before any later
\*  exchange completes - hence late = {})
Exch(z, outcome) ==
    /\ Z(G, z).pc \in ExchPcs /\ late = {}
    /\ outcome # "ok" => phase = "main" /\ cnt.fault < MaxFaults
    /\ LET r  == Z(G, z)
           m  == ReplyOf(z)
           G2 == CASE outcome # "ok" -> Fail(G, z, "err", Fix)
                   [] m.kind = "ver"  -> OnVer(G, z, m.c, Fix)
                   [] m.kind = "frag" -> OnFrag(G, z, m.c, m.k, m.n, Cod, Fix)
                   [] m.kind = "ack"  -> OnPutAck(G, z)
       IN  /\ G' = G2 /\ NoteEnd(G2)
           /\ IF outcome = "lost" THEN UNCHANGED <<ctr, cver>> ELSE CtlRecv(z)
           /\ ct' = LET c1 == IF outcome = "lost" THEN ct ELSE CtAfterRecv(ct, z)
                    IN  IF outcome = "ok" /\ m.kind = "ver" THEN VRead(c1) ELSE c1
           /\ cnt' = IF outcome = "ok" THEN cnt ELSE [cnt EXCEPT !.fault = @ + 1]
           /\ h' = IF outcome = "ok" THEN h ELSE Append(h, Ev(outcome, r.tid, r.n + 1, 0, 0))
    /\ UNCHANGED <<late, phase, fuDone, lockAtMainEnd>>

\* the caller cancels the task, or its overall time-out (get_schedule's wait_for) expires, while the
\* reply is on its way: the request was delivered, the reply arrives later (Late); at the lock wait
\* only a cancel is scripted
Abort(z, why) ==
    /\ phase = "main" /\ cnt.fault < MaxFaults /\ Active(G, z)
    /\ why = "timeout" => Z(G, z).op = "get" /\ Z(G, z).pc \in ExchPcs
    /\ LET r  == Z(G, z)
           G2 == Fail(G, z, why, Fix)
           delivered == r.pc \in ExchPcs
       IN  /\ G' = G2 /\ NoteEnd(G2)
           /\ IF delivered THEN CtlRecv(z) /\ ct' = CtAfterRecv(ct, z) /\ late' = late \cup {ReplyOf(z)}
              ELSE UNCHANGED <<ctr, cver, ct, late>>
           /\ h' = Append(h, Ev(why, r.tid, IF r.pc = "w_lock" THEN 0 ELSE r.n + 1, 0, 0))
    /\ cnt' = [cnt EXCEPT !.fault = @ + 1]
    /\ UNCHANGED <<phase, fuDone, lockAtMainEnd>>

\* the reply to an abandoned exchange arrives: only the dispatcher sees it
Late(m) ==
    /\ m \in late /\ late' = late \ {m}
    /\ G' = CASE m.kind = "frag" -> Heard(G, m.z, m.c, m.k, m.n, Cod)
              [] m.kind = "ack"  -> HeardAck(G, m.z, m.k, m.n, Cod, Fix)
              [] m.kind = "ver"  -> Heard6(G, m.c)
    /\ ct' = IF m.kind = "ver" THEN VRead(ct) ELSE ct
    /\ UNCHANGED <<ctr, cver, phase, cnt, lastEnded, fuDone, lockAtMainEnd, h>>

\* the 5 ms sleep of _obtain_lock ends and the lock is free
Spin(z) ==
    /\ Z(G, z).pc = "w_lock" /\ G.lock \in {NoZone, z}
    /\ G' = TryLock(G, z, Fix)
    /\ UNCHANGED <<late, ctr, cver, phase, cnt, ct, lastEnded, fuDone, lockAtMainEnd, h>>

\* the lock is held by a zone with no transfer in progress: the waiter's time-out expires
\* (get: wait_for 15 s -> TimeoutError; set: _obtain_lock 3 min -> TimeoutError)
StuckTimeout(z) ==
    /\ Z(G, z).pc = "w_lock" /\ G.lock \notin {NoZone, z} /\ ~Active(G, G.lock)
    /\ LET G2 == IF Z(G, z).op = "get" THEN Fail(G, z, "timeout", Fix)
                 ELSE Age(Fail(G, z, "locktimeout", Fix))          \* 3 minutes have passed
       IN  G' = G2 /\ NoteEnd(G2)
    /\ ct' = IF Z(G, z).op = "get" THEN ct ELSE Expired(ct)
    /\ UNCHANGED <<late, ctr, cver, phase, cnt, fuDone, lockAtMainEnd, h>>

\* ---- the rest of the world ------------------------------------------------------------------------
\* somebody else changes zone z's schedule on the controller (silently, e.g. on its touch screen)
Bump(z) ==
    /\ phase = "main" /\ cnt.bump < MaxBumps
    /\ ~(Active(G, z) /\ Z(G, z).op = "set")        \* two writers at once: controller semantics unknown
    /\ cver' = [cver EXCEPT ![z] = @ + 1] /\ ctr' = ctr + 1
    /\ ct' = Changed(ct, z, cver[z] + 1)
    /\ cnt' = [cnt EXCEPT !.bump = @ + 1]
    /\ h' = Append(h, Ev("bump", z, 0, 0, 0))
    /\ UNCHANGED <<G, late, phase, lastEnded, fuDone, lockAtMainEnd>>

\* an RP|0404 of the controller to some other device is overheard.  The controller only sends its
\* current content: HeardStale = TRUE additionally admits fragments of earlier versions (a reply
\* delayed past a whole later transfer - not plausible on RF; kept to show what it would do)
HeardFrag(z, c, k) ==
    /\ phase = "main" /\ cnt.heard < MaxHeard
    /\ c \in (IF HeardStale THEN 0..cver[z] ELSE {cver[z]}) /\ k \in 1..NFrags(c)
    /\ G' = Heard(G, z, Rep(Shared, c, k), k, NFrags(c), Cod)
    /\ cnt' = [cnt EXCEPT !.heard = @ + 1]
    /\ h' = Append(h, Ev("heard", z, c, k, 0))
    /\ UNCHANGED <<late, ctr, cver, phase, ct, lastEnded, fuDone, lockAtMainEnd>>

\* an I|0404 of the controller to some other device (which is writing zone z's current content) is
\* overheard
HeardAckOf(z, k) ==
    /\ phase = "main" /\ cnt.heard < MaxHeard /\ HeardAcks
    /\ k \in 1..NFrags(cver[z])
    /\ G' = HeardAck(G, z, k, NFrags(cver[z]), Cod, Fix)
    /\ cnt' = [cnt EXCEPT !.heard = @ + 1]
    /\ h' = Append(h, Ev("heardack", z, k, NFrags(cver[z]), 0))
    /\ UNCHANGED <<late, ctr, cver, phase, ct, lastEnded, fuDone, lockAtMainEnd>>

HeardVer ==
    /\ phase = "main" /\ cnt.heard < MaxHeard
    /\ G' = Heard6(G, ctr) /\ ct' = VRead(ct)
    /\ cnt' = [cnt EXCEPT !.heard = @ + 1]
    /\ h' = Append(h, Ev("heard6", 0, 0, 0, 0))
    /\ UNCHANGED <<late, ctr, cver, phase, lastEnded, fuDone, lockAtMainEnd>>

\* more than the freshness window (3 minutes; by how much - minutes, a day and a bit, a week - is the harness's sweep,
\* checks/c18.py AGES) passes with no RP|0006 of the controller heard: the gateway's cached counter stops being usable
\* (Age: the code compares the message's time stamp with now) and the contract stops admitting it (Expired)
AgeCache ==
    /\ phase = "main" /\ cnt.age < MaxAge /\ G.fresh /\ ~AnyActive
    /\ G' = Age(G) /\ cnt' = [cnt EXCEPT !.age = @ + 1]
    /\ ct' = Expired(ct)
    /\ h' = Append(h, Ev("age", 0, 0, 0, 0))
    /\ UNCHANGED <<late, ctr, cver, phase, lastEnded, fuDone, lockAtMainEnd>>

\* ---- follow-up phase: fault-free get_schedule(force_io=True) on every zone, in any order ----------
ToFollowUp ==
    /\ phase = "main" /\ ~AnyActive /\ cnt.started >= 1 /\ late = {}
    /\ phase' = "fu" /\ lockAtMainEnd' = G.lock
    /\ UNCHANGED <<G, late, ctr, cver, cnt, ct, lastEnded, fuDone, h>>

StartFu(z) ==
    /\ phase = "fu" /\ ~AnyActive /\ z \notin fuDone
    /\ LET tid == 100 + z
           G2  == StartGet(G, z, TRUE, tid, Fix)
       IN  /\ G' = G2 /\ lastEnded' = IF Active(G2, z) THEN lastEnded ELSE tid
    /\ fuDone' = fuDone \cup {z}
    /\ ct' = Called(ct, z)
    /\ h' = Append(h, Ev("fu", z, 0, 0, 0))
    /\ UNCHANGED <<late, ctr, cver, phase, cnt, lockAtMainEnd>>

Finish ==
    /\ phase = "fu" /\ ~AnyActive /\ fuDone = Zones
    /\ phase' = "end"
    /\ UNCHANGED <<G, late, ctr, cver, cnt, ct, lastEnded, fuDone, lockAtMainEnd, h>>

Over == phase = "end" /\ UNCHANGED vars          \* terminal self-loop: a deadlock is a real hang

Next == \/ \E z \in Zones, op \in {"get", "set"}, f \in BOOLEAN : StartXfer(z, op, IF op = "get" THEN f ELSE FALSE)
        \/ \E z \in Zones, o \in {"ok", "lost", "rlost"} : Exch(z, o)
        \/ \E z \in Zones, w \in {"cancel", "timeout"} : Abort(z, w)
        \/ \E m \in late : Late(m)
        \/ \E z \in Zones : Spin(z) \/ StuckTimeout(z) \/ Bump(z) \/ StartFu(z)
        \/ \E z \in Zones, c \in 0..3, k \in 1..3 : HeardFrag(z, c, k)
        \/ \E z \in Zones, k \in 1..3 : HeardAckOf(z, k)
        \/ HeardVer \/ AgeCache \/ ToFollowUp \/ Finish \/ Over

\* the steps that happen by themselves (fairness for liveness)
Progress == \/ \E z \in Zones : Exch(z, "ok") \/ Spin(z) \/ StuckTimeout(z) \/ StartFu(z)
            \/ \E m \in late : Late(m)

Spec     == Init /\ [][Next]_vars
FairSpec == Spec /\ WF_vars(Progress) /\ WF_vars(ToFollowUp) /\ WF_vars(Finish)

\* ------------------------------------------------------------------------------------------
\* Property clauses

Zr(z) == G.zs[z]

\* C18a "always ends": no reachable state in which a transfer is pending and nothing can happen
\* (checked as TLC deadlock freedom thanks to Over), and under fairness every transfer ends:
AllEnd == \A z \in Zones : Active(G, z) ~> ~Active(G, z)

\* C18a "with the controller's schedule (as of a change counter read during the transfer) or an
\* error":  a normal return carries a version the controller held at or after the counter reading
\* the transfer relied on;  a write returns what was written
ResultAsOfRead ==
    \A z \in Zones : Zr(z).pc = "done" /\ Zr(z).exit = "ok" =>
        IF Zr(z).op = "get" THEN Zr(z).res \in ct.acc[z] ELSE Zr(z).res = Zr(z).wr

\* C18b "never returns a schedule stitched from two versions"
NeverMixed == \A z \in Zones : Zr(z).full # Mixed /\ Zr(z).res # Mixed

\* C18c "a transfer that fails or is abandoned leaves nothing behind"
LockFreeWhenIdle == ~AnyActive => G.lock = NoZone

\* C18c "later transfers for the same and for other zones proceed normally"
FollowUpNormal ==
    \A z \in Zones : Zr(z).tid >= 100 /\ Zr(z).pc = "done" => Zr(z).exit = "ok" /\ Zr(z).res = cver[z]

\* sanity of the model itself
TypeOK == /\ G.lock \in Zones \cup {NoZone}
          /\ \A z \in Zones : /\ Zr(z).pc \in WaitPcs \cup {"idle", "done"}
                              /\ Len(Zr(z).pset) \in 1..3
                              /\ Zr(z).sver <= ctr /\ Zr(z).gver <= ctr
=============================================================================

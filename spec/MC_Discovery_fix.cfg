\* Instance A with the proposed repair (poller iterates over a copy): all clauses outright + liveness
CONSTANTS
  ZoneIds <- MCZones
  Configs <- MCConfigs
  TcsTable <- TabZones2
  MCZones = {"00"}
  MCClasses = {"08", "11"}
  MCMaxActs = 2
  MCSensors = {"none", "thm", "ctl", "own"}
  MCDhw <- NoDhw
  MCApps = {"none"}
  MaxLoss = 2
  MaxRound = 3
  EtherCap = 1
  IterSafe = TRUE
SPECIFICATION FairSpec
INVARIANT TypeOK
INVARIANT Sound
INVARIANT NoDeadPoller
INVARIANT Recovery
INVARIANT RecoveryNoLoss
PROPERTY Monotone
PROPERTY Complete

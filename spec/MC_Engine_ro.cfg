\* as the code is; a read-only gateway (disable_sending, disable_discovery)
SPECIFICATION BSpec
CONSTANTS
  TryFinally = FALSE
  CfgSending = TRUE
  CfgDisc = TRUE
  MaxOps = 4
VIEW View
INVARIANT AsBeforeUnlessBodyRaised
INVARIANT RunningAtRest

SPECIFICATION Spec
CONSTANT Deep = TRUE
INVARIANT TypeOK
INVARIANT KeyConsistent
INVARIANT ModeTotal
INVARIANT DomainConsistent
INVARIANT WantsKeysUnique
INVARIANT SlotsUnique

SPECIFICATION Spec
CONSTANTS Depth = 5  MaxIdx = 62  MaxTs = 7  MaxEv = 7
  Starts <- Starts01  Limits <- LimitsAll  Kinds <- KindsNoClr  Repair = TRUE  PushOnNew = TRUE  KnownTrips <- TripsNone
CONSTRAINT Bound
INVARIANT TripsKnown
CHECK_DEADLOCK FALSE

\* port part, the code as it is (a frame class whose constructor exception escapes): counter-examples expected
SPECIFICATION Spec
CONSTANTS
  Mode = "port"
  Escaping = TRUE
  Streams <- AllStreams
  MaxZero <- MaxZeroDef
  FileShapes <- NoShapes
VIEW PortView
INVARIANT SplitInv
INVARIANT PartitionIndependent
INVARIANT NoLoopException

SPECIFICATION Spec
CONSTANTS
  Lower <- LowerV
  Upper <- UpperV
  Short <- ShortV
  Long <- LongV
  MaxTracked = 3
  Srcs = {1, 2}
  Rems <- RemsQ
  Writers = {1}
  AdvSteps <- AdvFine
  MaxRx = 2
  MaxTime = 2200
VIEW View
INVARIANT TypeOK
INVARIANT TrackedBound
PROPERTY LeavesOutsideWindow
INVARIANT Prompt

----------------------------- MODULE MC_Engine -----------------------------
(* Bounded instances of Engine (C13): at most MaxOps operations (nested ones included),
   before and after the gateway is started (Bind). *)
EXTENDS Engine
CONSTANTS MaxOps
NStarts == Cardinality({i \in 1..Len(h) : h[i][1] = "start"})
BNext == (NStarts < MaxOps /\ \E op \in {"get_state", "restore"} : Start(op)) \/ Step \/ Bind
BSpec == Init /\ [][BNext]_vars
View == <<es, hdl, snd, rd, pw, disc, tr, saved, calls, done, NStarts, BodyRaised>>
=============================================================================

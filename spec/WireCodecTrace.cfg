SPECIFICATION Spec
INVARIANT Verdict

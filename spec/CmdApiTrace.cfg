SPECIFICATION Spec
INVARIANT Verdict

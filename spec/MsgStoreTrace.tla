--------------------------- MODULE MsgStoreTrace ---------------------------
(* C14: batch validation of recorded executions of the real Gateway against MsgStore.

   One item = one history replayed into a real Gateway (harness: checks/c14.py):
     [ attrs |-> <<codes of attribute 1, ...>>,          \* each a sequence of code numbers
       ev    |-> << [k, code, form, cs, vs, life, t, c, a, obs, slots, exp] ... >> ]
   t  = the clock (what the gateway's _dt_now() returns, ms) at the event; a packet's stamp (dtm) is the clock
        at its receipt - it need not be later than the one before it (same millisecond / clock put back)
   sk = by how much the clock has been put back in total up to the event (t + sk = the time really elapsed)
   k = "rx"    a packet of `code`/`form` for contexts cs with abstract values vs, lifetime `life`
               (ms, read from the real packet; -1 = never expires), received at clock t; the i-th "rx" event
               is the i-th message to arrive (its arrival number)
       "other" a packet of another device / controller / code at clock t
       "tick"  the clock moved to t
       "read"  attribute a of context c was read (then the loop was drained); obs = the value
               (0 = unknown/None, 99 = a value no message carried, -1 = the read raised)
   after every event the harness records, at quiescence,
     slots[c][code] = arrival number of the message (by identity) in the entity's _msgs_[code] (0 = none,
                      -1 = a message that is none of the history's)
     exp[i]         = msg._expired of the i-th received message (1/0, -1 = it raised)

   Judged here by TLC with the operators of MsgStore:
     contract (VIOLATION classes)  C14a/b/e on every read via Allowed(); C14b/c/d on every exp[i];
     drift    (MODEL-DRIFT)        slots and obs against the transcription (StoreEffect,
                                   DeleteEffect, Picked, Expired).
   The fold is total; the verdict lists every distinct failure class with its first line
   (and the first drift, if any). *)
EXTENDS MsgStore, Json, IOUtils

Traces == JsonDeserialize(IOEnv.TRACE_FILE)
DummyF == [x \in {} |-> 0]      \* the environment constants of MsgStore are not used here

VARIABLES tid, l, allm, prevExp, failC, failD
tvars == <<vars, tid, l, allm, prevExp, failC, failD>>

Ev(i) == Traces[tid].ev[i]
NEv   == Len(Traces[tid].ev)
AttrCodes(a) == {Traces[tid].attrs[a][i] : i \in 1..Len(Traces[tid].attrs[a])}

ValsOf(e) == [x \in {e.cs[i] : i \in 1..Len(e.cs)} |->
                e.vs[CHOOSE i \in 1..Len(e.cs) : e.cs[i] = x]]
(* mcs/mvs (empty unless it happened): the library took this per-zone packet for the tail of the array received
   just before it and merged the two (dispatcher.detect_array_fragment): the message it *stores* is an array over
   the zones of both (mlife = the lifetime of the array it continues). *)
MergedValsOf(e) == [x \in {e.mcs[i] : i \in 1..Len(e.mcs)} |->
                      e.mvs[CHOOSE i \in 1..Len(e.mcs) : e.mcs[i] = x]]

TInit ==
  /\ tid \in 1..Len(Traces)
  /\ l = 1 /\ allm = <<>> /\ prevExp = <<>> /\ failC = <<>> /\ failD = <<>>
  /\ Init

(* which clause does a disallowed read break? *)
ReadClass(la, t, sk, seen, c, codes, v) ==
  LET n == Newest(la, c, codes)
      (* messages of the attribute (the newest or an older one of another code) that must be
         expired by now and carry the value that was reported *)
      stale == {x \in Known(la, c, codes) : MustBeExp(x, t) /\ x.vals[c] = v} IN
  IF v = -1 THEN "C14a:read-raises"
  ELSE IF n = NoMsg THEN "C14a:value-without-message"
  ELSE IF NotYetDue(n, t, sk) /\ v = Unknown THEN "C14b:unknown-before-lifetime"
  ELSE IF NotYetDue(n, t, sk) THEN "C14a:not-the-latest-value"
  ELSE IF \E x \in stale : x.n \notin seen THEN "C14e:stale-value-on-first-read-after-expiry"
  ELSE IF stale # {} THEN "C14e:stale-value-lingers"
  ELSE "C14a:not-the-latest-value"

(* Message._expired latches: once it has been evaluated to True it stays True, whatever the clock does.  The
   harness evaluates it for every message after every event (exp[]), so prevExp tells which messages are latched;
   this only shows when the clock is put back across a message's expiry instant (transcription, not contract) *)
ExpiredL(m, t) == Expired(m, t) \/ (m.n >= 1 /\ m.n <= Len(prevExp) /\ prevExp[m.n] = 1)

(* what the transcription (either variant of StaleFirstRead) returns if it picks m *)
ImplVals(m, t, c) ==
  IF m = NoMsg THEN {Unknown}
  ELSE IF ExpiredL(m, t) THEN {m.vals[c], Unknown} ELSE {m.vals[c]}

(* the stores hold the messages the transcription says they hold - by arrival number, i.e. by identity *)
SlotTimes(sl, e) ==
  \A c \in 1..Len(e.slots) : \A k \in 1..Len(e.slots[c]) :
     e.slots[c][k] = sl[c][k].n

(* C14b/c/d on the recorded _expired flags, at clock t, for the messages am *)
(* "before the lifetime has passed" on the real age, "once twice the lifetime has passed" on the age by the
   clock; "never un-happens as time advances": judged unless the clock was put back at this very event *)
ExpClass(am, t, sk, e) ==
  LET bad == {i \in 1..Len(am) :
                \/ e.exp[i] = -1
                \/ e.exp[i] = 1 /\ NotYetDue(am[i], t, sk)
                \/ e.exp[i] = 0 /\ MustBeExp(am[i], t)
                \/ i <= Len(prevExp) /\ prevExp[i] = 1 /\ e.exp[i] # 1 /\ t >= now} IN
  IF bad = {} THEN ""
  ELSE LET i == CHOOSE x \in bad : \A y \in bad : x <= y IN
       IF e.exp[i] = -1 THEN "C14c:expired-raises"
       ELSE IF e.exp[i] = 1 /\ NotYetDue(am[i], t, sk) THEN "C14b:expired-before-lifetime"
       ELSE IF e.exp[i] = 0 /\ MustBeExp(am[i], t) THEN "C14c:not-expired-after-twice-lifetime"
       ELSE "C14d:expiry-undone"

(* every distinct class is recorded once, with the line where it first occurred *)
Add(f, line, cls) == IF cls = "" \/ \E i \in 1..Len(f) : f[i][2] = cls THEN f ELSE Append(f, <<line, cls>>)

(* a read: the message the library picked (Picks: the greatest stamp; between equal stamps the choice is open -
   the one that agrees with what was recorded is taken) *)
ReadEffect(sl, m, t) == IF m # NoMsg /\ ExpiredL(m, t) THEN DeleteEffect(sl, {m}) ELSE sl

GoodPicks(e, codes, t) ==
  {x \in Picks(slot, e.c, codes) : SlotTimes(ReadEffect(slot, x, t), e) /\ e.obs \in ImplVals(x, t, e.c)}

TStep ==
  /\ l <= NEv
  /\ LET e == Ev(l) IN
     /\ now' = e.t
     /\ skew' = e.sk
     /\ nrx' = IF e.k = "rx" THEN nrx + 1 ELSE nrx
     /\ IF e.k = "rx"
        THEN LET m0 == Msg(e.code, e.form, ValsOf(e), e.t, e.life, nrx + 1, e.t + e.sk)
                 \* the transcription: what the library stores, with the lifetime it gave it
                 ms == IF Len(e.mcs) = 0 THEN m0
                       ELSE Msg(e.code, "A", MergedValsOf(e), e.t, e.life, nrx + 1, e.t + e.sk)
                 \* the contract: a merged packet is, as the library itself says, an array received now - the newest
                 \* message of every zone it carries - and an array's lifetime is the one of the array it continues
                 \* (e.mlife), whatever lifetime the library gave it
                 m  == IF Len(e.mcs) = 0 THEN m0
                       ELSE Msg(e.code, "A", MergedValsOf(e), e.t, e.mlife, nrx + 1, e.t + e.sk) IN
             /\ slot' = StoreEffect(slot, ms)
             /\ last' = LastEffect(last, m)
             /\ allm' = Append(allm, m)
             /\ UNCHANGED seenExp
        ELSE IF e.k = "read"
        THEN LET codes == AttrCodes(e.a)
                 cands == Picks(slot, e.c, codes)
                 good  == GoodPicks(e, codes, e.t)
                 m  == IF good # {} THEN CHOOSE x \in good : TRUE ELSE CHOOSE x \in cands : TRUE
                 ex == m # NoMsg /\ ExpiredL(m, now') IN
             /\ slot' = ReadEffect(slot, m, now')
             /\ seenExp' = IF ex THEN seenExp \cup {m.n} ELSE seenExp
             /\ UNCHANGED <<last, allm>>
        ELSE UNCHANGED <<slot, last, allm, seenExp>>
     /\ LET codes == IF e.k = "read" THEN AttrCodes(e.a) ELSE {}
            okC == e.k # "read" \/ e.obs \in Allowed(last, now', skew', e.c, codes)
            xc  == ExpClass(allm', now', skew', e)
            rc  == IF ~okC THEN ReadClass(last, now', skew', seenExp, e.c, codes, e.obs) ELSE ""
            okD == IF e.k = "read" THEN GoodPicks(e, codes, e.t) # {} ELSE SlotTimes(slot', e) IN
        /\ failC' = Add(Add(failC, l, rc), l, xc)
        /\ failD' = IF failD = <<>> /\ ~okD THEN <<l, "drift">> ELSE failD
     /\ prevExp' = e.exp
  /\ l' = l + 1
  /\ UNCHANGED <<tid, pend, obs, h>>

TSpec == TInit /\ [][TStep]_tvars

Fail == IF failD # <<>> THEN Append(failC, failD) ELSE failC
Verdict == (l > NEv) => PrintT(<<"VERDICT", tid, Fail>>)
=============================================================================

CONSTANTS MaxTp = 6  Silent <- Silent25  FixActive = TRUE  FixShield = TRUE  Overlap = TRUE
SPECIFICATION Spec
CHECK_DEADLOCK FALSE
INVARIANT NoTrip
INVARIANT CtxTracksConnection

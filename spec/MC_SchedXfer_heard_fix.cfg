SPECIFICATION Spec
CONSTANTS
  Zones = {1, 2}
  FixLock = TRUE
  FixAck = TRUE
  FixStale = TRUE
  ZlibDetects = TRUE
  MaxMain = 2
  MaxFaults = 0
  MaxBumps = 1
  MaxHeard = 2
  MaxAge = 0
  AllowSet = FALSE
  HeardStale = FALSE
  HeardAcks = FALSE
CONSTRAINT Bound
INVARIANT TypeOK
INVARIANT ResultAsOfRead
INVARIANT NeverMixed
CHECK_DEADLOCK TRUE
VIEW View

SPECIFICATION Spec
INVARIANT PausedRefuses
INVARIANT ReplyOnlyIfAsked
INVARIANT OffNeverWaits
INVARIANT AutoWaitsOnlyForMust
INVARIANT NoticeIffImp
INVARIANT OneWrite
INVARIANT StickyRewrite

---------------------------- MODULE SchedFragsTrace ----------------------------
(* Batch trace validation for the reassembly half of C17 (convention: harness/README.md), forest
   form: the recorded runs of real Schedule objects (one per zone) fed with 0404 reply packets are
   merged into a prefix tree (equal packet prefixes give equal observations), one item per node:

     [p, d, kids  parent node (0: none), depth, children; node 1 is the initial state
      k           "frag" (a reply packet handed to Schedule._handle_msg)  |  "fetch" (Schedule.get_schedule() against
                  a faithful controller that holds version v; nobody else holds the lock, nothing is lost)
      z           zone the packet was dispatched to / whose schedule was fetched
      v, n        version and fragment number of the packet (fetch: the controller's version, 0)
      del         fetch: <<fragment numbers the controller was asked for and replied with>>; frag: <<>>
      exc         "" or the exception type that escaped Schedule._handle_msg / get_schedule
      view        <<<<zone, x>>, ...>>  the public `Schedule.schedule` of every zone afterwards:
                  "none", a catalogue version id (deep-equal to that version's schedule),
                  "other" (a schedule equal to no version), or "raises:<T>"                    ]
   got (the fragments delivered so far) is re-derived from the events; the clause is
   SchedFrags!AssembledV evaluated on the RECORDED public view of every zone.  An exception is neither "the same
   schedule" nor "no schedule": out of _handle_msg always, out of get_schedule within SchedFrags!InScope (all the
   zone has been given are packets of the schedule the controller holds - the statement's quantifier; a fetch after
   the schedule was replaced may end with an error, C18).
     fail (per node) = <<>>  or  <<depth, clause>>  (clauses: "harness", "Raises", "SameOrNone");
     a clause is reported at the first node of a path where it fails.                          *)
EXTENDS SchedFrags, Json, IOUtils

Nodes   == JsonDeserialize(IOEnv.TRACE_FILE)
ZonesC  == {"HW", "Z1"}
VersT   == {"D1", "D2", "E", "A", "B", "C", "F"}
NFc     == [v \in VersT |-> CASE v \in {"D1", "D2"} -> 1 [] v \in {"E", "C"} -> 2 [] v = "F" -> 4 [] OTHER -> 3]
ZoneOfC == [v \in VersT |-> IF v \in {"D1", "D2", "E", "F"} THEN "HW" ELSE "Z1"]

VARIABLES tid, fail, done
tvars == <<tid, fail, done, shared, ref, own, full, got, nev, h>>

ViewOf(v, z) == v[CHOOSE n \in 1..Len(v) : v[n][1] = z][2]
ToSet(q) == {q[n] : n \in 1..Len(q)}

TInit == tid = 1 /\ fail = <<>> /\ done = {} /\ Init

TStep ==
  \E n \in ToSet(Nodes[tid].kids) :
     LET e == Nodes[n]
         harnessOk == /\ e.z \in Zones /\ e.v \in Vers /\ ZoneOf[e.v] = e.z
                      /\ \/ e.k = "frag" /\ e.n \in 1..NF[e.v] /\ e.del = <<>>
                         \/ e.k = "fetch" /\ e.n = 0 /\ ToSet(e.del) \subseteq 1..NF[e.v]
         new == IF e.k = "frag" THEN {<<e.v, e.n>>} ELSE {<<e.v, i>> : i \in ToSet(e.del)}
         raised == e.exc # "" /\ (e.k = "frag" \/ InScope(e.z, e.v, got[e.z]))
     IN
     /\ tid' = n
     /\ got' = IF harnessOk THEN [got EXCEPT ![e.z] = @ \cup new] ELSE got
     /\ full' = [z \in Zones |-> ViewOf(e.view, z)]
     /\ nev' = nev + 1 /\ h' = [pre |-> <<>>, ev |-> <<e.k, e.z, e.v, e.n>>, exc |-> e.exc]
     /\ UNCHANGED <<shared, ref, own>>
     /\ LET c == IF ~harnessOk THEN "harness"
                 ELSE IF raised THEN "Raises"
                 ELSE IF ~(\A z \in Zones : AssembledV(full'[z], z, got'[z])) THEN "SameOrNone"
                 ELSE ""
        IN /\ fail' = IF c = "" \/ c \in done THEN <<>> ELSE <<e.d, c>>
           /\ done' = IF c = "" THEN done ELSE done \cup {c}

TSpec == TInit /\ [][TStep]_tvars
Verdict == PrintT(<<"VERDICT", tid, fail>>)
=============================================================================

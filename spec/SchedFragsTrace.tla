---------------------------- MODULE SchedFragsTrace ----------------------------
(* Batch trace validation for the reassembly half of C17 (convention: harness/README.md), forest
   form: the recorded runs of real Schedule objects (one per zone) fed with 0404 reply packets are
   merged into a prefix tree (equal packet prefixes give equal observations), one item per node:

     [p, d, kids  parent node (0: none), depth, children; node 1 is the initial state
      k           "frag"
      z           zone the packet was dispatched to
      v, n        version and fragment number of the packet
      exc         "" or the exception type that escaped Schedule._handle_msg
      view        <<<<zone, x>>, ...>>  the public `Schedule.schedule` of every zone afterwards:
                  "none", a catalogue version id (deep-equal to that version's schedule),
                  "other" (a schedule equal to no version), or "raises:<T>"                    ]
   got (the fragments delivered so far) is re-derived from the events; the clause is
   SchedFrags!AssembledV evaluated on the RECORDED public view of every zone.
     fail (per node) = <<>>  or  <<depth, clause>>  (clauses: "harness", "Raises", "SameOrNone");
     a clause is reported at the first node of a path where it fails.                          *)
EXTENDS SchedFrags, Json, IOUtils

Nodes   == JsonDeserialize(IOEnv.TRACE_FILE)
ZonesC  == {"HW", "Z1"}
VersT   == {"D1", "D2", "E", "A", "B", "C", "F"}
NFc     == [v \in VersT |-> CASE v \in {"D1", "D2"} -> 1 [] v \in {"E", "C"} -> 2 [] v = "F" -> 4 [] OTHER -> 3]
ZoneOfC == [v \in VersT |-> IF v \in {"D1", "D2", "E", "F"} THEN "HW" ELSE "Z1"]

VARIABLES tid, fail, done
tvars == <<tid, fail, done, shared, ref, own, full, got, nev, h>>

ViewOf(v, z) == v[CHOOSE n \in 1..Len(v) : v[n][1] = z][2]
ToSet(q) == {q[n] : n \in 1..Len(q)}

TInit == tid = 1 /\ fail = <<>> /\ done = {} /\ Init

TStep ==
  \E n \in ToSet(Nodes[tid].kids) :
     LET e == Nodes[n]
         harnessOk == e.k = "frag" /\ e.z \in Zones /\ e.v \in Vers /\ e.n \in 1..NF[e.v] /\ ZoneOf[e.v] = e.z
     IN
     /\ tid' = n
     /\ got' = IF harnessOk THEN [got EXCEPT ![e.z] = @ \cup {<<e.v, e.n>>}] ELSE got
     /\ full' = [z \in Zones |-> ViewOf(e.view, z)]
     /\ nev' = nev + 1 /\ h' = [pre |-> <<>>, ev |-> <<e.k, e.z, e.v, e.n>>]
     /\ UNCHANGED <<shared, ref, own>>
     /\ LET c == IF ~harnessOk THEN "harness"
                 ELSE IF e.exc # "" THEN "Raises"
                 ELSE IF ~(\A z \in Zones : AssembledV(full'[z], z, got'[z])) THEN "SameOrNone"
                 ELSE ""
        IN /\ fail' = IF c = "" \/ c \in done THEN <<>> ELSE <<e.d, c>>
           /\ done' = IF c = "" THEN done ELSE done \cup {c}

TSpec == TInit /\ [][TStep]_tvars
Verdict == PrintT(<<"VERDICT", tid, fail>>)
=============================================================================

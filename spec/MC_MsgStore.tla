---------------------------- MODULE MC_MsgStore ----------------------------
(* Bounded instances of MsgStore (C14).
   Shape of the zone family:  code 1 ~ 2309 (array + single), code 2 ~ 2349 (single only, long),
   code 3 ~ 30C9 (array + single);  attribute "sp" <- {1, 2}, "md" <- {2}, "tp" <- {3}.
   Lifetimes are abstract (only their order matters here; the conformance run uses the lifetimes
   read from the code).  Stamps: StampSteps = {1} (strictly increasing) in the older instances, StepsAnyDef
   (same millisecond / clock put back) in MC_MsgStore_stamps*.cfg and the -simulate instances.  h is hidden by the VIEW for exhaustive checking; the -simulate / -dump
   instances keep it to hand behaviours to the conformance harness. *)
EXTENDS MsgStore

CONSTANTS MaxEvents, MaxMsgs

CodesOfDef == [a \in {"sp", "md", "tp"} |->
                 IF a = "sp" THEN {1, 2} ELSE IF a = "md" THEN {2} ELSE {3}]
LifeSDef == (1 :> 7) @@ (2 :> 20) @@ (3 :> 9)
LifeADef == (1 :> 3) @@ (2 :> 0)  @@ (3 :> 3)

(* stamps: strictly increasing / also the same millisecond and a clock that was put back *)
StepsAnyDef == {-1, 0, 1}

NRx == nrx
Bound == Len(h) <= MaxEvents /\ NRx <= MaxMsgs
View == <<now, skew, slot, last, pend, seenExp, obs, Len(h), NRx>>
Sym == Permutations(Ctx) \cup Permutations(Val)
(* single-form shape (DHW / system / device attributes: no arrays, one code per attribute) *)
CodesOf1Def == [a \in {"a1", "a2", "a3"} |-> IF a = "a1" THEN {1} ELSE IF a = "a2" THEN {2} ELSE {3}]
LifeS1Def == (1 :> 7) @@ (2 :> 20) @@ (3 :> Never)
LifeA1Def == (1 :> 0) @@ (2 :> 0)  @@ (3 :> 0)

(* balanced random walk for -simulate (a uniform pick among successors would be nearly all
   receives): the kind of step is drawn first *)
SimNext ==
  /\ Len(h) < MaxEvents
  /\ IF pend # {} THEN Drain ELSE
     \E r \in {RandomElement(1..12)}, rd \in {RandomElement(1..10)} :
     LET \* the stamp of a packet: mostly later than the clock before it; the same millisecond (a second frame of
         \* one serial read) or an earlier one (the clock was put back) where the instance allows it
         d0     == IF rd \in 1..6 THEN 1 ELSE IF rd \in 7..8 THEN 0 ELSE -1
         d      == IF d0 \in StampSteps /\ now + d0 >= 0 THEN d0 ELSE 1
         ticks  == {<<m, j>> \in {x \in AllStored : CanExpire(x)} \X (1..4) : ThresholdAt(m, j) > now}
         canArr == \E k \in Code : LifeA[k] # 0
         kind   == IF r \in 6..8 /\ ticks # {} THEN "tick"
                   ELSE IF r \in 3..4 /\ canArr THEN "arr"
                   ELSE IF r = 5 THEN "other"
                   ELSE IF r \in 9..12 THEN "read" ELSE "single" IN
     \/ kind = "single" /\ \E k \in Code, c \in Ctx, v \in Val :
            LifeS[k] # 0 /\ ReceiveAt(k, "S", [x \in {c} |-> v], LifeS[k], now + d)
     \/ kind = "arr" /\ \E k \in Code, S \in Subsets1(Ctx) : \E vals \in [S -> Val] :
            LifeA[k] # 0 /\ ReceiveAt(k, "A", vals, LifeA[k], now + d)
     \/ kind = "other" /\ OtherAt(now + d)
     \/ kind = "tick" /\ \E p \in ticks : TickTo(ThresholdAt(p[1], p[2]), <<p[1].n, p[2]>>)
     \/ kind = "read" /\ \E c \in Ctx, a \in Attr : Read(c, CodesOf[a])
SimSpec == Init /\ [][SimNext]_vars

(* bounded next-state relation: no successors are generated beyond the bound *)
BNext == Len(h) < MaxEvents /\ Next
BSpec == Init /\ [][BNext]_vars
=============================================================================

\* implementation-shaped instance: hex_to_dts uses datetime(year=yy) -> InvA is expected to fail for yy = 00 (candidate, replayed on the code); other grids minimal
SPECIFICATION Spec
CONSTANTS
  Impl <- ImplDtsY0
  TempKs <- One
  DblKs <- One
  Years <- Year1
  Hours <- One
  Mins <- One
  Secs <- One
  YYs <- YY01
  DtsHours <- One
  IdNs <- One
  StrAlphabet <- One
  StrMaxLen = 1
INVARIANT InvA
INVARIANT InvB
INVARIANT InvC
INVARIANT InvD
INVARIANT InvE

SPECIFICATION Spec
CONSTANTS MaxEv = 4  NoSchedOn = FALSE  OwnDefault = TRUE  FetchOn = TRUE
  Zones <- ZonesC  Vers <- VersT  NF <- NFc  ZoneOf <- ZoneOfC
CONSTRAINT Bound
INVARIANT SameOrNone
INVARIANT DefaultUntouched
INVARIANT FetchClean
INVARIANT FetchSame
CHECK_DEADLOCK FALSE

\* all orders/repeats of <= 4 decodes of 3 packets, <= 2 eviction bursts, cache capacity 2
SPECIFICATION Spec
CONSTANTS
  Pkts <- PktsDef
  Vals <- ValsDef
  Dec <- DecDef
  KeyOf <- KeyId
  Cap = 2
  MaxDec = 4
  MaxEvict = 2
INVARIANT Deterministic
INVARIANT CacheSound

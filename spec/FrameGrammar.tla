---------------------------- MODULE FrameGrammar ----------------------------
(***************************************************************************)
(* C02 - the text form of a RAMSES frame (ramses_tx.frame.Frame,           *)
(* Command._from_attrs / from_cli, Packet) at CHARACTER level.             *)
(*                                                                         *)
(*   "RQ --- 18:000730 01:145038 --:------ 1F09 001 00"                    *)
(*    vv sss aaaaaaaaa bbbbbbbbb ccccccccc kkkk lll pp...                  *)
(*    1  4   8         18        28        38   43  47      (1-based)      *)
(*                                                                         *)
(* A frame is a record of strings [verb, seqn, a0, a1, a2, code, len,      *)
(* payload].  PrintFrame joins the fields with single spaces.  The code reads a *)
(* frame in two ways which must agree: by splitting at spaces              *)
(* (Frame.__init__) and by fixed columns (Frame._validate: frame[7:36],    *)
(* frame[42:45], frame[46:]); both are modelled (ParseSplit, ParseCols).   *)
(*                                                                         *)
(* Impl = departures of the current code transcribed by the                *)
(* implementation-shaped instance:  "cli_cut48"  Command.from_cli keeps    *)
(* only the first 48 *characters* of the payload.                          *)
(***************************************************************************)
EXTENDS Integers, Sequences, FiniteSets, TLC

CONSTANT Impl

Ch(s, i) == SubSeq(s, i, i)
HexCh == {"0", "1", "2", "3", "4", "5", "6", "7", "8", "9", "A", "B", "C", "D", "E", "F"}
DecCh == {"0", "1", "2", "3", "4", "5", "6", "7", "8", "9"}
AllIn(s, S) == \A i \in 1..Len(s) : Ch(s, i) \in S
DigitVal(c) == CASE c = "0" -> 0 [] c = "1" -> 1 [] c = "2" -> 2 [] c = "3" -> 3 [] c = "4" -> 4
                 [] c = "5" -> 5 [] c = "6" -> 6 [] c = "7" -> 7 [] c = "8" -> 8 [] c = "9" -> 9
RECURSIVE DecVal(_)
DecVal(s) == IF s = "" THEN 0 ELSE 10 * DecVal(SubSeq(s, 1, Len(s) - 1)) + DigitVal(Ch(s, Len(s)))
Digit(d) == Ch("0123456789", d + 1)
Dec3(n) == Digit((n \div 100) % 10) \o Digit((n \div 10) % 10) \o Digit(n % 10)

\* ---- lexical structure (what COMMAND_REGEX accepts, narrowed to what the property quantifies) ----
Verbs == {" I", "RQ", "RP", " W"}
NON == "--:------"
ALL == "63:262142"
HGI == "18:000730"
IsSeqn(s)  == s = "---" \/ (Len(s) = 3 /\ AllIn(s, DecCh) /\ DecVal(s) <= 255)
IsDevId(s) == /\ Len(s) = 9 /\ Ch(s, 3) = ":" /\ AllIn(SubSeq(s, 1, 2), DecCh) /\ AllIn(SubSeq(s, 4, 9), DecCh)
              /\ DecVal(SubSeq(s, 1, 2)) <= 63
IsDevIdRe(s) == Len(s) = 9 /\ Ch(s, 3) = ":" /\ AllIn(SubSeq(s, 1, 2), DecCh) /\ AllIn(SubSeq(s, 4, 9), DecCh)
IsAddr(s)  == s = NON \/ IsDevId(s)
IsCode(s)  == Len(s) = 4 /\ AllIn(s, HexCh)
IsLen(s)   == Len(s) = 3 /\ AllIn(s, DecCh)
IsPayload(s) == Len(s) % 2 = 0 /\ Len(s) \in 2..96 /\ AllIn(s, HexCh)

\* the three legal address-set shapes (address.pkt_addrs)
LegalAddrs(a0, a1, a2) ==
  \/ (a0 \notin {NON, ALL} /\ a1 = NON /\ a2 # NON)              \* src --  dst   (dst may equal src)
  \/ (a0 \notin {NON, ALL} /\ a1 \notin {NON, a0} /\ a2 = NON)   \* src dst --
  \/ (a2 \notin {NON, ALL} /\ a0 = NON /\ a1 = NON)              \* --  --  src
Src(a0, a1, a2) == IF a0 # NON THEN a0 ELSE IF a1 # NON THEN a1 ELSE a2
Dst(a0, a1, a2) ==
  LET devs == SelectSeq(<<a0, a1, a2>>, LAMBDA a : a # NON) IN IF Len(devs) > 1 THEN devs[2] ELSE NON

Fields == {"verb", "seqn", "a0", "a1", "a2", "code", "len", "payload"}
Lexical(f) == /\ f.verb \in Verbs /\ IsSeqn(f.seqn) /\ IsAddr(f.a0) /\ IsAddr(f.a1) /\ IsAddr(f.a2)
              /\ IsCode(f.code) /\ IsLen(f.len) /\ IsPayload(f.payload)
\* structurally valid frame = the frames C02 quantifies over
Valid(f) == /\ Lexical(f) /\ LegalAddrs(f.a0, f.a1, f.a2) /\ Len(f.payload) = 2 * DecVal(f.len)

\* ---- print / parse ------------------------------------------------------------------------------
PrintFrame(f) == f.verb \o " " \o f.seqn \o " " \o f.a0 \o " " \o f.a1 \o " " \o f.a2 \o " " \o f.code
            \o " " \o f.len \o " " \o f.payload

\* fixed columns (1-based, inclusive), as used by Frame._validate and Packet (frame[4:] after the RSSI)
ParseCols(t) ==
  [verb |-> SubSeq(t, 1, 2), seqn |-> SubSeq(t, 4, 6), a0 |-> SubSeq(t, 8, 16), a1 |-> SubSeq(t, 18, 26),
   a2 |-> SubSeq(t, 28, 36), code |-> SubSeq(t, 38, 41), len |-> SubSeq(t, 43, 45), payload |-> SubSeq(t, 47, Len(t))]

\* split at single spaces (Frame.__init__: frame.lstrip().split(" "), verb = frame[:2])
MinOf(S) == CHOOSE x \in S : \A y \in S : x <= y
RECURSIVE SplitAt(_, _, _)
SplitAt(t, start, sp) ==    \* tokens of t from position start on, sp = positions of the remaining spaces
  IF sp = {} THEN <<SubSeq(t, start, Len(t))>>
  ELSE LET m == MinOf(sp) IN <<SubSeq(t, start, m - 1)>> \o SplitAt(t, m + 1, sp \ {m})
SplitFrom(t, i, cur) == SplitAt(t, i, {j \in i..Len(t) : Ch(t, j) = " "})      \* str.split(" ")
LStrip(t) == IF Len(t) > 0 /\ Ch(t, 1) = " " THEN SubSeq(t, 2, Len(t)) ELSE t     \* at most one (verb " I")
ParseSplit(t) ==
  LET tk == SplitFrom(LStrip(t), 1, "") IN
  IF Len(tk) # 8 THEN [verb |-> "?", seqn |-> "?", a0 |-> "?", a1 |-> "?", a2 |-> "?", code |-> "?", len |-> "?", payload |-> "?"]
  ELSE [verb |-> SubSeq(t, 1, 2), seqn |-> tk[2], a0 |-> tk[3], a1 |-> tk[4], a2 |-> tk[5], code |-> tk[6],
        len |-> tk[7], payload |-> tk[8]]

\* ---- the CLI short form (Command.from_cli): verb [seqn] addr0 [addr1 [addr2]] code payload ---------
\* "full" keeps the sequence token and all three addresses (the only form that can express every legal
\* address set); the abbreviated forms drop what from_cli re-derives.
TrimVerb(v) == IF Ch(v, 1) = " " THEN SubSeq(v, 2, 2) ELSE v
ShortFull(f) == TrimVerb(f.verb) \o " " \o f.seqn \o " " \o f.a0 \o " " \o f.a1 \o " " \o f.a2 \o " " \o f.code \o " " \o f.payload
SeqnTok(f) == IF f.seqn = "---" THEN "" ELSE f.seqn \o " "
\* two addresses: "src dst" (src # dst) -> src dst --, "src src" -> src -- src
HasShort2(f) == (f.a2 = NON /\ f.a0 # NON /\ f.a1 # NON) \/ (f.a1 = NON /\ f.a0 # NON /\ f.a2 = f.a0)
Short2(f) == TrimVerb(f.verb) \o " " \o SeqnTok(f) \o f.a0 \o " " \o (IF f.a2 = NON THEN f.a1 ELSE f.a2) \o " " \o f.code \o " " \o f.payload
\* one address: the gateway's own id is the source
HasShort1(f) == f.a0 = HGI /\ f.a2 = NON /\ f.a1 # NON
Short1(f) == TrimVerb(f.verb) \o " " \o SeqnTok(f) \o f.a1 \o " " \o f.code \o " " \o f.payload

CliPayload(p) == IF "cli_cut48" \in Impl /\ Len(p) > 48 THEN SubSeq(p, 1, 48) ELSE p   \* parts.pop()[:48]
VerbOf(tok) == IF tok = "I" THEN " I" ELSE IF tok = "W" THEN " W" ELSE tok
FromCli(s) ==      \* the frame from_cli builds from a short-form text (model of the code path)
  LET tk == SplitFrom(s, 1, "")
      n  == Len(tk)
      hasSeq == ~IsDevIdRe(tk[2])                    \* DEVICE_ID_REGEX.ANY (does not match '--:------')
      first == IF hasSeq THEN 3 ELSE 2
      nad == n - 2 - (first - 1)                     \* number of address tokens
      pl == CliPayload(tk[n])
      ad == CASE nad = 1 -> <<HGI, tk[first], NON>>
              [] nad = 2 /\ tk[first] = tk[first + 1] -> <<tk[first], NON, tk[first + 1]>>
              [] nad = 2 -> <<tk[first], tk[first + 1], NON>>
              [] OTHER -> <<tk[first], tk[first + 1], tk[first + 2]>>
  IN [verb |-> VerbOf(tk[1]), seqn |-> (IF hasSeq THEN tk[2] ELSE "---"), a0 |-> ad[1], a1 |-> ad[2], a2 |-> ad[3],
      code |-> tk[n - 1], len |-> Dec3(Len(pl) \div 2), payload |-> pl]

\* =====================================================================================
\* Laws (T), one case per state in MC_FrameGrammar
\* =====================================================================================
L_ParsePrint(f) == Valid(f) => /\ ParseSplit(PrintFrame(f)) = f
                               /\ ParseCols(PrintFrame(f)) = f              \* both readings agree
                               /\ Len(PrintFrame(f)) = 46 + Len(f.payload)
L_LenField(f)   == Valid(f) => DecVal(ParseCols(PrintFrame(f)).len) * 2 = Len(ParseCols(PrintFrame(f)).payload)
L_SrcDst(f)     == Valid(f) => /\ Src(f.a0, f.a1, f.a2) # NON
                               /\ (f.a1 = NON /\ f.a0 # NON => Dst(f.a0, f.a1, f.a2) = f.a2)
                               /\ (f.a2 = NON => Dst(f.a0, f.a1, f.a2) = f.a1)
                               /\ (f.a0 = NON => Dst(f.a0, f.a1, f.a2) = NON)
L_Cli(f)        == Valid(f) => /\ FromCli(ShortFull(f)) = f
                               /\ (HasShort2(f) => FromCli(Short2(f)) = f)
                               /\ (HasShort1(f) => FromCli(Short1(f)) = f)
=============================================================================

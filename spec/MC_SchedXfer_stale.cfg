SPECIFICATION Spec
CONSTANTS
  Zones = {1, 2}
  FixLock = TRUE
  FixAck = TRUE
  ZlibDetects = TRUE
  MaxMain = 2
  MaxFaults = 1
  MaxBumps = 1
  MaxHeard = 1
  MaxAge = 0
  AllowSet = TRUE
  HeardStale = TRUE
  HeardAcks = TRUE
CONSTRAINT Bound
INVARIANT ResultAsOfRead
CHECK_DEADLOCK TRUE
VIEW View

\* thorough: <= 4 events (MC_MsgStore_stamps.cfg: <= 3)
\* stamps need not increase: a packet may carry the same millisecond as the one before it (two frames of one
\* serial read) or an earlier one (the clock was put back); "most recently received" is decided by arrival.
\* The library as it is since 2f05aca (StaleFirstRead = FALSE); which of two codes of one attribute is the most
\* recent when stamp order and arrival order disagree is left open (CrossCodeOpen; MC_MsgStore_stamps_strict.cfg)
SPECIFICATION BSpec
CONSTANTS
  Ctx = {c1, c2}
  Code = {1, 2, 3}
  Val = {v1, v2}
  Attr = {"sp", "md", "tp"}
  CodesOf <- CodesOfDef
  LifeS <- LifeSDef
  LifeA <- LifeADef
  Grace = 2
  StaleFirstRead = FALSE
  InFlight = FALSE
  StampSteps <- StepsAnyDef
  CrossCodeOpen = TRUE
  MaxEvents = 4
  MaxMsgs = 3
CONSTRAINT Bound
VIEW View
SYMMETRY Sym
INVARIANT FreshA
INVARIANT NoInvention
INVARIANT ThresholdB
INVARIANT ThresholdC
INVARIANT ReadEStrict
INVARIANT StoreIsLast
PROPERTY MonotoneD

SPECIFICATION FairSpec
CONSTANTS
  Zones = {1, 2}
  FixLock = TRUE
  FixAck = TRUE
  FixStale = TRUE
  ZlibDetects = TRUE
  MaxMain = 2
  MaxFaults = 1
  MaxBumps = 1
  MaxHeard = 0
  MaxAge = 0
  AllowSet = TRUE
  HeardStale = FALSE
  HeardAcks = TRUE
CONSTRAINT Bound
PROPERTY AllEnd
CHECK_DEADLOCK TRUE
VIEW View

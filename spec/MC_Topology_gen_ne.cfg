\* Generator instance for -simulate (eavesdropping off): 2 controllers, 3 zone indexes (02 out of range),
\* 8 devices incl. a controller as its own zone sensor, 3 classes
CONSTANTS
  Ctls <- MCCtls2
  ZoneIds <- MCZones3
  ZNum <- MCZNum
  MaxZones = 2
  Devs <- MCDevs7
  PairDevs <- MCPair4
  TypeOf <- MCTypeOf
  Classes = {"08", "0A", "11"}
  Eavesdrop = FALSE
  FakeDevs <- MCFake3
  MaxClaims = 9
SPECIFICATION Spec
INVARIANT OnePlace
INVARIANT ZonesInRange

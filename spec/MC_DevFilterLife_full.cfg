SPECIFICATION Spec
CONSTANTS
  HgiOpts = {"no", "explicit", "implicit"}
  PhOpts = {"none", "known", "block"}
  FgnOpts = {"none", "known", "block"}
  MaxHist = 4
  AppendActive = FALSE
INVARIANT LegalHistory
INVARIANT Stateless
INVARIANT EqualsFresh
INVARIANT FoldAgrees
INVARIANT FormerGatewayNotExempt

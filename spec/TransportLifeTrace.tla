------------------------- MODULE TransportLifeTrace -------------------------
(* Trace validation of the real PortTransport's connection phase (FakeSerial, virtual time) against
   TransportLife.  One item = one schedule:  [maxtrys, sending, ev |-> << [e, k] ... >>]
     e = "sig"   a signature frame reached serial.write            (k = "")
         "rx"    the harness fed one line to the reader            (k = kind: sigecho | foreignsig | other)
         "pkt"   protocol.pkt_received ran                         (k = kind)
         "made"  protocol.connection_made ran                      (k = "gwy" | "none" | "foreign" | other id text)
         "end"   quiescence, 3 s after the last step               (k = what the transport reports as active gateway)
   The fold is total: a step the model does not allow records its clause once and the shadow state
   still advances as far as it can.
   Clauses: "b:*" are property-level (C01b/c: a packet the reader produced is delivered, once, in order,
   whatever the connection phase); everything else is drift between the model and the code.           *)
EXTENDS Naturals, Sequences, TLC, Json, IOUtils

Traces == JsonDeserialize(IOEnv.TRACE_FILE)

VARIABLES tid, l, s, fail
vars == <<tid, l, s, fail>>

S0 == [sent |-> 0, initFut |-> "pend", hgi |-> "none", made |-> <<>>, queue |-> <<>>, connected |-> FALSE]

Add(f, line, cls) == IF cls = "" \/ \E i \in 1..Len(f) : f[i][2] = cls THEN f ELSE Append(f, <<line, cls>>)

ClauseOf(t, st, e) ==
  CASE e.e = "sig"  -> IF st.connected THEN "drift:signature_after_connection"
                       ELSE IF t.sending = 0 THEN "drift:signature_although_sending_disabled"
                       ELSE IF st.sent >= t.maxtrys THEN "drift:signature_over_budget"
                       ELSE IF st.initFut = "echo" /\ st.sent > 0 THEN "drift:signature_after_echo_and_sleep"
                       ELSE ""
    [] e.e = "pkt"  -> IF st.queue = <<>> THEN "b:port:delivered_twice_or_unknown"
                       ELSE IF Head(st.queue) # e.k THEN "b:port:delivery_order"
                       ELSE ""
    [] e.e = "made" -> IF st.made # <<>> THEN "drift:connection_made_twice"
                       ELSE IF e.k # (IF st.initFut = "echo" THEN "gwy" ELSE "none") THEN "drift:connected_with_wrong_id"
                       ELSE ""
    [] e.e = "end"  -> IF st.queue # <<>> THEN "b:port:packet_not_delivered"
                       ELSE IF Len(st.made) # 1 THEN "drift:never_connected"
                       ELSE IF e.k # st.made[1] THEN "drift:reported_id_differs"
                       ELSE ""
    [] OTHER -> ""

Upd(t, st, e) ==
  CASE e.e = "sig"  -> [st EXCEPT !.sent = @ + 1]
    [] e.e = "rx"   -> [st EXCEPT !.queue = Append(@, e.k),
                                  !.initFut = IF st.initFut = "pend" /\ e.k = "sigecho" /\ st.sent > 0 THEN "echo" ELSE @,
                                  !.hgi = IF st.initFut = "pend" /\ e.k = "sigecho" /\ st.sent > 0 THEN "gwy" ELSE @]
    [] e.e = "pkt"  -> [st EXCEPT !.queue = IF @ = <<>> THEN @ ELSE IF Head(@) = e.k THEN Tail(@)
                                            ELSE SelectSeq(@, LAMBDA x : x # e.k)]   \* resynchronise after a reorder
    [] e.e = "made" -> [st EXCEPT !.made = Append(@, e.k), !.connected = TRUE,
                                  !.initFut = IF @ = "pend" THEN "none" ELSE @]
    [] OTHER -> st

Init == tid \in 1..Len(Traces) /\ l = 1 /\ s = S0 /\ fail = <<>>
Step == /\ l <= Len(Traces[tid].ev)
        /\ LET t == Traces[tid]  e == t.ev[l] IN
             /\ fail' = Add(fail, l, ClauseOf(t, s, e))
             /\ s' = Upd(t, s, e)
        /\ l' = l + 1 /\ UNCHANGED tid
Spec == Init /\ [][Step]_vars
Verdict == (l > Len(Traces[tid].ev)) => PrintT(<<"VERDICT", tid, fail>>)
=============================================================================

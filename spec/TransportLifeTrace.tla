------------------------- MODULE TransportLifeTrace -------------------------
(* Trace validation of the real PortTransport's connection phase and life cycle (FakeSerial, virtual time; the real
   PortProtocol with its QoS context, as a Gateway uses it) against TransportLife.
   One item = one schedule:  [maxtrys, sending, ev |-> << [e, k, mro] ... >>]
     e = "sig"   a signature frame reached serial.write            (k = "")
         "rx"    the harness fed one line to the reader            (k = kind: sigecho | foreignsig | other)
         "pkt"   protocol.pkt_received was entered                 (k = kind)
         "made"  protocol.connection_made ran                      (k = "gwy" | "none" | "foreign" | other id text)
         "close" the transport was closed / its port died          (k = "close" | "die")          -- TransportLife!Lose
         "lost"  protocol.connection_lost ran                      (k = "")
         "open"  the same protocol was handed to a new transport   (k = "")                       -- TransportLife!Reopen
         "exc"   an exception left protocol.pkt_received or PortTransport._read_ready - into the event loop's
                 exception handler                                 (k = Type@module.function, mro = class names)
         "end"   quiescence, 3 s after the last step               (k = what the transport reports as active gateway)
   The fold is total: a step the model does not allow records its clause once and the shadow state
   still advances as far as it can.
   Clauses: "b:*" and "a2:*" are property-level (C01b/c: a packet the reader produced is delivered, once, in order,
   whatever the connection phase;  C01a2: no exception other than the invalid-packet / value error escapes the receive
   path, whatever the connection phase - never connected, connected, lost, re-connecting); everything else is drift
   between the model and the code.                                                                                *)
EXTENDS Naturals, Sequences, TLC, Json, IOUtils

Traces == JsonDeserialize(IOEnv.TRACE_FILE)

VARIABLES tid, l, s, fail
vars == <<tid, l, s, fail>>

S0 == [sent |-> 0, initFut |-> "pend", hgi |-> "none", made |-> <<>>, queue |-> <<>>, connected |-> FALSE,
       closed |-> FALSE, ctx |-> "Inactive", epoch |-> 1]

AllowedNames == {"ramses_tx.exceptions.PacketInvalid", "builtins.ValueError"}
Allowed(mro) == \E i \in 1..Len(mro) : mro[i] \in AllowedNames

Add(f, line, cls) == IF cls = "" \/ \E i \in 1..Len(f) : f[i][2] = cls THEN f ELSE Append(f, <<line, cls>>)

ClauseOf(t, st, e) ==
  CASE e.e = "sig"  -> IF st.closed THEN "drift:signature_after_close"
                       ELSE IF st.connected THEN "drift:signature_after_connection"
                       ELSE IF t.sending = 0 THEN "drift:signature_although_sending_disabled"
                       ELSE IF st.sent >= t.maxtrys THEN "drift:signature_over_budget"
                       ELSE IF st.initFut = "echo" /\ st.sent > 0 THEN "drift:signature_after_echo_and_sleep"
                       ELSE ""
    [] e.e = "rx"   -> IF st.closed THEN "harness:rx_on_a_closed_transport" ELSE ""
    [] e.e = "pkt"  -> IF st.queue = <<>> THEN "b:port:delivered_twice_or_unknown"
                       ELSE IF Head(st.queue) # e.k THEN "b:port:delivery_order"
                       ELSE ""
    [] e.e = "made" -> IF st.made # <<>> THEN "drift:connection_made_twice"
                       ELSE IF e.k # (IF st.initFut = "echo" THEN "gwy" ELSE "none") THEN "drift:connected_with_wrong_id"
                       ELSE ""
    [] e.e = "close" -> IF st.closed \/ Len(st.made) # 1 THEN "harness:close_out_of_discipline" ELSE ""
    [] e.e = "lost" -> IF ~st.closed THEN "drift:connection_lost_without_close"
                       ELSE IF st.ctx = "Inactive" THEN "drift:connection_lost_twice"
                       ELSE ""
    [] e.e = "open" -> IF ~st.closed \/ st.ctx # "Inactive" THEN "harness:open_out_of_discipline"
                       ELSE IF st.queue # <<>> THEN "b:port:packet_not_delivered"
                       ELSE ""
    [] e.e = "exc"  -> IF Allowed(e.mro) THEN "" ELSE "a2:" \o e.k \o ":port"
    [] e.e = "end"  -> IF st.queue # <<>> THEN "b:port:packet_not_delivered"
                       ELSE IF Len(st.made) # 1 THEN "drift:never_connected"
                       ELSE IF e.k # st.made[1] THEN "drift:reported_id_differs"
                       ELSE ""
    [] OTHER -> ""

Upd(t, st, e) ==
  CASE e.e = "sig"  -> [st EXCEPT !.sent = @ + 1]
    [] e.e = "rx"   -> [st EXCEPT !.queue = Append(@, e.k),
                                  !.initFut = IF st.initFut = "pend" /\ e.k = "sigecho" /\ st.sent > 0 THEN "echo" ELSE @,
                                  !.hgi = IF st.initFut = "pend" /\ e.k = "sigecho" /\ st.sent > 0 THEN "gwy" ELSE @]
    [] e.e = "pkt"  -> [st EXCEPT !.queue = IF @ = <<>> THEN @ ELSE IF Head(@) = e.k THEN Tail(@)
                                            ELSE SelectSeq(@, LAMBDA x : x # e.k)]   \* resynchronise after a reorder
    [] e.e = "made" -> [st EXCEPT !.made = Append(@, e.k), !.connected = TRUE, !.ctx = "Idle",
                                  !.initFut = IF @ = "pend" THEN "none" ELSE @]
    [] e.e = "close" -> [st EXCEPT !.closed = TRUE]
    [] e.e = "lost" -> [st EXCEPT !.ctx = "Inactive"]
    [] e.e = "open" -> [S0 EXCEPT !.epoch = st.epoch + 1, !.queue = st.queue]
    [] OTHER -> st

Init == tid \in 1..Len(Traces) /\ l = 1 /\ s = S0 /\ fail = <<>>
Step == /\ l <= Len(Traces[tid].ev)
        /\ LET t == Traces[tid]  e == t.ev[l] IN
             /\ fail' = Add(fail, l, ClauseOf(t, s, e))
             /\ s' = Upd(t, s, e)
        /\ l' = l + 1 /\ UNCHANGED tid
Spec == Init /\ [][Step]_vars
Verdict == (l > Len(Traces[tid].ev)) => PrintT(<<"VERDICT", tid, fail>>)
=============================================================================

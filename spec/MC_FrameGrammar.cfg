\* contract instance: every law holds on the whole abstract cross product
SPECIFICATION Spec
CONSTANTS
  Impl <- NoImpl
  Seqns <- SeqnsC
  Addrs <- AddrsC
  Codes <- CodesC
  LenPairs <- LenPairsC
INVARIANT InvParsePrint
INVARIANT InvLenField
INVARIANT InvSrcDst
INVARIANT InvCli
INVARIANT InvShapesDisjoint

SPECIFICATION Spec
CONSTANT MaxId = 8
INVARIANT Verdict

SPECIFICATION SpecH
CONSTANTS
  MaxLen = 0
  Frames <- FramesC
  Annots <- AnnotsC
  FixCleanup = FALSE
  MaxSess = 3
  HFiles <- HFilesC
  Consoles <- AnyConsole
INVARIANT InvHistIdentity

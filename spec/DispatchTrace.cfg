SPECIFICATION Spec
CONSTANT Mode = "clauses"
INVARIANT Verdict

-------------------------- MODULE DiscoveryOrder --------------------------
(* C12 - the knowledge order on schemas, shared by the mechanism (Discovery) and the trace judge
   (DiscoveryTrace).  A schema is
       [zones |-> [z \in ZoneIdsPresent |-> [cls, sen, acts]], dhw |-> [sen, hwv, htv], app |-> id]
   with "" for "not known / none" and `acts` a set of device ids.
   k [= c  ("Leq"): everything k states, c states too - the formal reading of C12c
   "nothing ... replaced by something the controller did not say" (k = gateway, c = controller) and
   "nothing that was learned is lost" (k = earlier, c = later schema). *)
EXTENDS Naturals, FiniteSets, Sequences, TLC

None == ""

(* ------------------------------------------------------------------ knowledge order *)
LeqF(a, b) == a = None \/ a = b

Leq(k, c) ==
  /\ DOMAIN k.zones \subseteq DOMAIN c.zones
  /\ \A z \in DOMAIN k.zones :
        /\ LeqF(k.zones[z].cls, c.zones[z].cls)
        /\ LeqF(k.zones[z].sen, c.zones[z].sen)
        /\ k.zones[z].acts \subseteq c.zones[z].acts
  /\ LeqF(k.dhw.sen, c.dhw.sen) /\ LeqF(k.dhw.hwv, c.dhw.hwv) /\ LeqF(k.dhw.htv, c.dhw.htv)
  /\ LeqF(k.app, c.app)

\* names the first field in which  k [= c  fails ("" if it holds); used for verdict keys
LeqWhy(k, c) ==
  IF ~(DOMAIN k.zones \subseteq DOMAIN c.zones) THEN "zone"
  ELSE IF \E z \in DOMAIN k.zones : ~LeqF(k.zones[z].cls, c.zones[z].cls) THEN "zone.cls"
  ELSE IF \E z \in DOMAIN k.zones : ~LeqF(k.zones[z].sen, c.zones[z].sen) THEN "zone.sen"
  ELSE IF \E z \in DOMAIN k.zones : ~(k.zones[z].acts \subseteq c.zones[z].acts) THEN "zone.acts"
  ELSE IF ~LeqF(k.dhw.sen, c.dhw.sen) THEN "dhw.sen"
  ELSE IF ~LeqF(k.dhw.hwv, c.dhw.hwv) THEN "dhw.hwv"
  ELSE IF ~LeqF(k.dhw.htv, c.dhw.htv) THEN "dhw.htv"
  ELSE IF ~LeqF(k.app, c.app) THEN "app"
  ELSE ""

EmptyKnown == [zones |-> [z \in {} |-> 0], dhw |-> [sen |-> None, hwv |-> None, htv |-> None],
               app |-> None]

=============================================================================

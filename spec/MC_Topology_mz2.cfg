\* 1 controller, 2 zone indexes (both in range), 5 devices incl. the controller as a sensor, eavesdropping on
CONSTANTS
  Ctls <- MCCtls1
  ZoneIds <- MCZones2
  ZNum <- MCZNum
  MaxZones = 2
  Devs <- MCDevs5
  PairDevs <- MCDevs5
  TypeOf <- MCTypeOf
  Classes = {"08", "11"}
  Eavesdrop = TRUE
  FakeDevs <- MCFake1
  MaxClaims = 40
SPECIFICATION Spec
VIEW GraphView
INVARIANT OnePlace
INVARIANT OneController
INVARIANT ZonesInRange
INVARIANT ZoneContent
PROPERTY NoSilentMove
PROPERTY NeverMoves

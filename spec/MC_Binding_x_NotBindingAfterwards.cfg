SPECIFICATION Spec
CONSTANTS
  Fix = FALSE
  Ratify = FALSE
  DeliveryChoices <- DC_small
  EchoChoices <- EC_one
  ThirdChoices <- TC_none
  Presence <- P_all
  SkewChoices <- SK_none
INVARIANT NotBindingAfterwards
CHECK_DEADLOCK TRUE

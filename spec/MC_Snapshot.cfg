\* as the code is: reads purge expired messages, packets arrive in any order of their timestamps.
\* FixA / IdemB fail here (candidates, replayed on the code by checks/c16.py); the rest must hold.
SPECIFICATION BSpec
CONSTANTS
  Src = {"c1"}
  Zone = {"z0", "z1"}
  Code = {1, 2, 3}
  TimeCode = 3
  SchedCode = 2
  Times = {1, 2}
  PurgeOnRead = TRUE
  Chrono = FALSE
  MaxMsgs = 2
VIEW View
INVARIANT NoGainT
INVARIANT ContentC
INVARIANT UniqueT

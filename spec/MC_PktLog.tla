---------------------------- MODULE MC_PktLog ----------------------------
(* All sequences of up to MaxLen offered packet lines over a small alphabet of frame kinds x annotation *)
(* kinds (RSSI forms, error annotation, comments that contain the separator characters themselves).       *)
EXTENDS Integers, Sequences, FiniteSets, TLC

CONSTANTS MaxLen, Frames, Annots,
          FixCleanup,                    \* PktLog: the repaired clean-up loop (TRUE) or the one before e6ce7db
          MaxSess, HFiles, Consoles      \* histories: number of sessions, log file names ("" = none), cc_console values

INSTANCE PktLog

VARIABLES seq, hist
vars == <<seq, hist>>

Dtm(i) == "2024-02-29T23:59:59.99999" \o SubSeq("0123456789", i, i)
Mk(i, fr, an) == [dtm |-> Dtm(i), rssi |-> an[1], frame |-> fr, err |-> an[2], comment |-> an[3]]

Init == seq = <<>> /\ hist = <<>>
Next == /\ Len(seq) < MaxLen
        /\ \E fr \in Frames, an \in Annots : seq' = Append(seq, Mk(Len(seq) + 1, fr, an))
        /\ UNCHANGED hist
Spec == Init /\ [][Next]_vars

\* ---- histories: up to MaxSess sessions in one process, each = set_pkt_logging(file, console) + what is heard ----
F_OK == " I --- 01:145038 --:------ 01:145038 1F09 003 FF073F"
F_RQ == "RQ 001 18:000730 01:145038 --:------ 0008 001 00"
Heard(k) == {<<>>,                                                                   \* nothing heard
             <<Mk(k, F_OK, <<"045", "", "">>)>>,                                     \* one accepted packet
             <<Mk(k, F_RQ, <<"045", "E1 bad crc", "">>), Mk(k, F_RQ, <<"---", "", "a * b < c # d">>)>>}  \* refused, accepted
NextH == /\ Len(hist) < MaxSess
         /\ \E f \in HFiles, c \in Consoles, ps \in Heard(Len(hist) + 1) :
               hist' = Append(hist, [file |-> f, console |-> c, ps |-> ps])
         /\ UNCHANGED seq
SpecH == Init /\ [][NextH]_vars
\* one run for both: sequences (while no history was begun) and histories (while no sequence was begun)
SpecAll == Init /\ [][(hist = <<>> /\ Next) \/ (seq = <<>> /\ NextH)]_vars
InvHistIdentity == L_HistIdentity(hist)
HFilesC == {"A", "B", ""}
NoConsole == {0}
AnyConsole == {0, 1}

InvLogIdentity == L_LogIdentity(seq)
InvLineShape == \A i \in 1..Len(seq) : Accepted(seq[i]) =>
                  LET ln == Line(seq[i]) IN SubSeq(ln, 1, 26) = seq[i].dtm /\ Ch(ln, 27) = " " /\ SubSeq(ln, 28, 30) = seq[i].rssi

FramesC == {" I --- 01:145038 --:------ 01:145038 1F09 003 FF073F",      \* src -- src
            "RQ 001 18:000730 01:145038 --:------ 0008 001 00",          \* src dst --
            " I 255 --:------ --:------ 10:105624 1FD4 003 00AAD4",      \* -- -- src
            " I --- 01:145038 01:145038 --:------ 1F09 003 FF073F"}      \* illegal address set
AnnotsC == {<<"045", "", "">>, <<"---", "", "">>, <<"...", "", "">>,
            <<"045", "E1 bad crc", "">>, <<"045", "", "note">>, <<"045", "", "a * b < c # d">>,
            <<"000", "overrun * again < x", "and # comment">>}
=============================================================================

---------------------------- MODULE MC_PktLog ----------------------------
(* All sequences of up to MaxLen offered packet lines over a small alphabet of frame kinds x annotation *)
(* kinds (RSSI forms, error annotation, comments that contain the separator characters themselves).       *)
EXTENDS Integers, Sequences, FiniteSets, TLC

CONSTANTS MaxLen, Frames, Annots

INSTANCE PktLog

VARIABLE seq
vars == <<seq>>

Dtm(i) == "2024-02-29T23:59:59.99999" \o SubSeq("0123456789", i, i)
Mk(i, fr, an) == [dtm |-> Dtm(i), rssi |-> an[1], frame |-> fr, err |-> an[2], comment |-> an[3]]

Init == seq = <<>>
Next == /\ Len(seq) < MaxLen
        /\ \E fr \in Frames, an \in Annots : seq' = Append(seq, Mk(Len(seq) + 1, fr, an))
Spec == Init /\ [][Next]_vars

InvLogIdentity == L_LogIdentity(seq)
InvLineShape == \A i \in 1..Len(seq) : Accepted(seq[i]) =>
                  LET ln == Line(seq[i]) IN SubSeq(ln, 1, 26) = seq[i].dtm /\ Ch(ln, 27) = " " /\ SubSeq(ln, 28, 30) = seq[i].rssi

FramesC == {" I --- 01:145038 --:------ 01:145038 1F09 003 FF073F",      \* src -- src
            "RQ 001 18:000730 01:145038 --:------ 0008 001 00",          \* src dst --
            " I 255 --:------ --:------ 10:105624 1FD4 003 00AAD4",      \* -- -- src
            " I --- 01:145038 01:145038 --:------ 1F09 003 FF073F"}      \* illegal address set
AnnotsC == {<<"045", "", "">>, <<"---", "", "">>, <<"...", "", "">>,
            <<"045", "E1 bad crc", "">>, <<"045", "", "note">>, <<"045", "", "a * b < c # d">>,
            <<"000", "overrun * again < x", "and # comment">>}
=============================================================================

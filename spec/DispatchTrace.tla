--------------------------- MODULE DispatchTrace ---------------------------
(* Table validation of ramses_rf.dispatcher.process_msg against Dispatch!Route.
   One item = one gateway configuration; a row = one message handed to Gateway._msg_handler:
     q    the facts process_msg consults, as the harness read them off the live objects (harness/ext_dispatch.py)
     obs  what happened: created   roles ("src"/"dst"/"other") of the devices that came into being,
                          tag, cnt  the extra group of devices whose _handle_msg was scheduled after the source's,
                          srcFirst  the source's _handle_msg was scheduled, before anybody else's, once
                          nobody    no _handle_msg was scheduled at all
                          processed no exception was logged by the dispatcher
   Mode "drift":   first row on which the code departs from Route(q)   (MODEL-DRIFT, never a verdict)
   Mode "clauses": C10 at the dispatcher - a source the filter lists refuse gives rise to no device (neither itself
                   nor its destination) and reaches no entity; a refused destination never comes into being. *)
EXTENDS Dispatch, Json, IOUtils

CONSTANT Mode
Traces == JsonDeserialize(IOEnv.TRACE_FILE)

VARIABLES tid, l, fail
vars == <<tid, l, fail>>

SetOf(s) == {s[i] : i \in 1..Len(s)}

DriftOf(r) ==
  LET q == r.q  o == r.obs  w == Route(q) IN
  IF SetOf(o.created) # w.created THEN "drift:created:" \o w.stage
  ELSE IF w.handled = <<>> /\ ~o.nobody THEN "drift:handled-though:" \o w.stage
  ELSE IF w.handled # <<>> /\ (~o.srcFirst \/ o.tag # w.handled[2][1] \/ o.cnt # w.handled[2][2])
       THEN "drift:group:" \o w.handled[2][1]
  ELSE IF o.processed # w.processed THEN "drift:processed:" \o w.stage
  ELSE ""

ClauseOf(r) ==
  LET q == r.q  o == r.obs IN
  IF q.pairBad \/ q.rp >= 2 THEN ""
  ELSE IF ~q.srcEx /\ ~q.srcOk /\ SetOf(o.created) # {} THEN "src-refused:device"
  ELSE IF ~q.srcEx /\ ~q.srcOk /\ ~o.nobody THEN "src-refused:handled"
  ELSE IF q.dst \notin {"self"} /\ ~q.dstEx /\ ~q.dstOk /\ "dst" \in SetOf(o.created) THEN "dst-refused:device"
  ELSE ""

Judge(r) == IF Mode = "drift" THEN DriftOf(r) ELSE ClauseOf(r)

Init == tid \in 1..Len(Traces) /\ l = 1 /\ fail = <<>>
Step == /\ l <= Len(Traces[tid].rows)
        /\ LET c == Judge(Traces[tid].rows[l]) IN
             fail' = IF fail = <<>> /\ c # "" THEN <<l, c>> ELSE fail
        /\ l' = l + 1 /\ UNCHANGED tid
Spec == Init /\ [][Step]_vars
Verdict == (l > Len(Traces[tid].rows)) => PrintT(<<"VERDICT", tid, fail>>)
=============================================================================

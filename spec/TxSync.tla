------------------------------- MODULE TxSync -------------------------------
(* C11 - the stage of PortTransport.write_frame that sits between the duty-cycle wrapper and the
   leaky semaphore:  @track_system_syncs (receive side) and @avoid_system_syncs (send side) of
   ramses_tx.transport.

     Rx(src, rem)   PortTransport._pkt_read() saw  I|1F09|003 FFxxxx  from controller src:
                      _global_sync_cycles = deque(p for p in old if p.src != src and is_pending(p))
                      append(pkt); if len > 3: popleft()
                    an entry is the instant `at` of the announced next sync (pkt.dtm + remaining)
     Call(w)        the wrapper is entered (no suspension before the first test):
                      while any(is_imminent(p)): await sleep(SHORT)      -> pc "loop"
                      if perf_counter() - start > SHORT: await sleep(LONG) -> pc "long"
                      await fnc()                                         -> pc "done" (= "passed")
                    is_imminent(p)  ==  LOWER < p.at - now < UPPER        (both strict)
     Wake(w)        the 10 ms sleep is over: test again
     WakeLong(w)    the 84 ms sleep is over: pass (the deque is NOT consulted again)

   What "passed" hands over to is TxRegulator's TrySem; the two stages compose sequentially (the
   wrapper holds no shared state of its own but the deque), so they are model-checked separately.

   After n >= 1 short sleeps the code tests  elapsed > SHORT  on perf_counter(): on a real clock that is
   always true; on an exact clock it is a float coincidence when n = 1.  ExactOne = {TRUE, FALSE} keeps both.

   Integer time, 1 tick = 0.1 ms:  LOWER = 80, UPPER = 1088, SHORT = 100, LONG = 840.               *)
EXTENDS Integers, Sequences, FiniteSets, TLC

CONSTANTS Lower, Upper, Short, Long, MaxTracked
CONSTANTS Srcs,          \* controllers that may announce a sync
          Rems,          \* "remaining" values an announcement may carry (ticks)
          Writers,       \* concurrent callers of write_frame
          AdvSteps,      \* delays the environment may let pass between its own events
          MaxRx,         \* announcements per behaviour
          MaxTime

VARIABLES now, syncs, pc, start, wake, sleeps, passed, nrx, h
vars == <<now, syncs, pc, start, wake, sleeps, passed, nrx, h>>

Imminent(q, t) == \E i \in 1..Len(q) : Lower < q[i].at - t /\ q[i].at - t < Upper
Pending(p, t)  == p.at > t

(* track_system_syncs: the new deque *)
Tracked(q, src, at, t) ==
  LET kept == SelectSeq(q, LAMBDA p : p.src # src /\ Pending(p, t))
      q1   == Append(kept, [src |-> src, at |-> at])
  IN IF Len(q1) > MaxTracked THEN Tail(q1) ELSE q1

(* one evaluation of the wrapper's loop head / tail for a writer that has slept n times *)
AfterTest(q, t, st, n, exactone) ==
  IF Imminent(q, t) THEN [pc |-> "loop", wake |-> t + Short]
  ELSE IF n >= 2 \/ (n = 1 /\ ~exactone) \/ (t - st > Short) THEN [pc |-> "long", wake |-> t + Long]
  ELSE [pc |-> "done", wake |-> t]

Init == /\ now = 0 /\ syncs = <<>>
        /\ pc = [w \in Writers |-> "new"] /\ start = [w \in Writers |-> 0]
        /\ wake = [w \in Writers |-> 0] /\ sleeps = [w \in Writers |-> 0]
        /\ passed = [w \in Writers |-> -1] /\ nrx = 0 /\ h = <<>>

Rx(src, rem) ==
  /\ nrx < MaxRx /\ nrx' = nrx + 1
  /\ syncs' = Tracked(syncs, src, now + rem, now)
  /\ h' = Append(h, <<"rx", now, src, rem>>)
  /\ UNCHANGED <<now, pc, start, wake, sleeps, passed>>

Settle(w, r) ==
  /\ pc' = [pc EXCEPT ![w] = r.pc] /\ wake' = [wake EXCEPT ![w] = r.wake]
  /\ passed' = [passed EXCEPT ![w] = IF r.pc = "done" THEN now ELSE @]

Call(w) ==
  /\ pc[w] = "new"
  /\ start' = [start EXCEPT ![w] = now]
  /\ Settle(w, AfterTest(syncs, now, now, 0, TRUE))
  /\ h' = Append(h, <<"call", now, w, 0>>)
  /\ UNCHANGED <<now, syncs, sleeps, nrx>>

Wake(w) ==
  /\ pc[w] = "loop" /\ wake[w] = now
  /\ sleeps' = [sleeps EXCEPT ![w] = @ + 1]
  /\ \E x \in BOOLEAN : Settle(w, AfterTest(syncs, now, start[w], sleeps[w] + 1, x))
  /\ UNCHANGED <<now, syncs, start, nrx, h>>

WakeLong(w) ==
  /\ pc[w] = "long" /\ wake[w] = now
  /\ pc' = [pc EXCEPT ![w] = "done"] /\ passed' = [passed EXCEPT ![w] = now]
  /\ UNCHANGED <<now, syncs, start, wake, sleeps, nrx, h>>

Sleeping == {w \in Writers : pc[w] \in {"loop", "long"}}
NextWake == IF Sleeping = {} THEN MaxTime + 1
            ELSE CHOOSE t \in {wake[w] : w \in Sleeping} : \A w \in Sleeping : t <= wake[w]

(* time passes: to the next wake-up, or by an environment delay that does not jump over one *)
Tick ==
  /\ \A w \in Sleeping : wake[w] > now
  /\ \E t \in {NextWake} \cup {now + d : d \in AdvSteps} :
        /\ t > now /\ t <= NextWake
        /\ t <= MaxTime \/ (t = NextWake /\ Sleeping # {})     \* the environment stops at MaxTime, sleepers still wake
        /\ now' = t
  /\ UNCHANGED <<syncs, pc, start, wake, sleeps, passed, nrx, h>>

Next == \/ \E s \in Srcs, r \in Rems : Rx(s, r)
        \/ \E w \in Writers : Call(w) \/ Wake(w) \/ WakeLong(w)
        \/ Tick

Spec == Init /\ [][Next]_vars
FairSpec == Spec /\ WF_vars(Tick) /\ \A w \in Writers : WF_vars(Wake(w)) /\ WF_vars(WakeLong(w)) /\ WF_vars(Call(w))

(* ------------------------------------------------------------------------------------ *)
TypeOK == /\ now \in Nat /\ Len(syncs) \in 0..MaxTracked
          /\ \A w \in Writers : pc[w] \in {"new", "loop", "long", "done"}

(* the deque: at most MaxTracked entries, one per controller, newest last *)
TrackedBound == /\ Len(syncs) <= MaxTracked
                /\ \A i, j \in 1..Len(syncs) : i # j => syncs[i].src # syncs[j].src

(* a writer leaves the loop only at an instant at which no tracked sync is imminent *)
LeavesOutsideWindow ==
  [][\A w \in Writers : (pc[w] \in {"new", "loop"} /\ pc'[w] \in {"long", "done"}) => ~Imminent(syncs, now)]_vars

(* "regulation only delays": the stage is passed within the windows of the announcements that exist
   (each keeps a writer for less than Upper - Lower + Short) plus one long wait *)
WaitBound == (MaxRx) * (Upper - Lower + Short) + Long
Prompt == \A w \in Writers : pc[w] # "new" => (IF pc[w] = "done" THEN passed[w] ELSE now) - start[w] <= WaitBound

(* every caller passes (FairSpec) *)
AllPass == <>(\A w \in Writers : pc[w] = "done")

(* refuted on purpose - observations about the code as it is:
   X_NoTxAtSync: nobody passes within [at - Lower, at]  (a call 8 ms or less before a sync is not held back) *)
X_NoTxAtSync == [][\A w \in Writers : (pc[w] # "done" /\ pc'[w] = "done") =>
                   ~\E i \in 1..Len(syncs) : 0 <= syncs[i].at - now /\ syncs[i].at - now <= Lower]_vars
(* X_FifoThroughStage: callers pass in call order (they do not: each polls on its own 10 ms grid) *)
X_FifoThroughStage == \A a, b \in Writers :
   (pc[a] = "done" /\ pc[b] = "done" /\ start[a] < start[b]) => passed[a] <= passed[b]
=============================================================================

--------------------------- MODULE SnapshotTrace ---------------------------
(* C16: batch validation of recorded snapshot / restore operations of real Gateways.

   One item = one packet history (derived from a shipped log) with two passes
   (include_expired on, then off; each pass on a gateway loaded afresh from the history):
     [ eav |-> 0/1, chrono |-> 0/1 (timestamps non-decreasing in arrival order),
       uniq |-> 0/1 (no two different frames share a timestamp),
       ops |-> << [op, g, ie, src, ok, pk, exp, rq, wr, und, tc, age, life, sch] ... >> ]
   op = "snap"     get_state(include_expired = ie) of gateway g at quiescence:
                   pk  = ids of the packets (timestamp + line) of the snapshot
                   exp = those whose re-decoded message is expired at the (pinned) clock
                   rq / wr / und = requests / writes other than schedule fragments / lines the
                                   decoder rejects;  tc = date-time (313F) packets
                   sch = id of the canonical (shrunk) schema
                   age / life = parallel to pk: the packet's age by the clock of the snapshot (clock -
                                stamp, ms, capped far beyond any threshold) and the lifetime of its kind
                                (ms; -1 = never; a sync-cycle countdown: the one in its payload) - the
                                inputs of C14's lifetime rule, not the library's own verdict (exp)
        "restore"  _restore_cached_packets(packets of the snapshot taken at op number src) into g
   ok = 0: the operation raised (C13's subject; the rest of the pass is not judged).

   Clauses (Appendix A): on the first snapshot of a fresh gateway after a restore, C16a against
   the snapshot restored; on a snapshot after a further restore, C16b against the gateway's
   previous snapshot; C16c on every snapshot.  The set laws are Snapshot's operators. *)
EXTENDS Snapshot, Json, IOUtils

Traces == JsonDeserialize(IOEnv.TRACE_FILE)
DummyS == {}

VARIABLES tid, l, prevSnap, pending, dead, schemaOkIe1, fail
tvars == <<vars, tid, l, prevSnap, pending, dead, schemaOkIe1, fail>>

Ops    == Traces[tid].ops
NOps   == Len(Ops)
SetOf(q) == {q[i] : i \in 1..Len(q)}
Gs == 1..8

TInit ==
  /\ tid \in 1..Len(Traces)
  /\ l = 1 /\ fail = <<>>
  /\ prevSnap = [g \in Gs |-> 0]       \* op number of g's previous snapshot
  /\ pending = [g \in Gs |-> 0]        \* op number of the snapshot restored into g since then
  /\ dead = [g \in Gs |-> FALSE]
  /\ schemaOkIe1 = TRUE
  /\ g1 = Empty /\ n = 0 /\ phase = "trace" /\ ie = FALSE
  /\ s1 = {} /\ g2 = Empty /\ s2 = {} /\ s3 = {} /\ s4 = {} /\ h = <<>>

(* C16c *)
ContentClass(e) ==
  IF e.und # <<>> THEN "C16c:undecodable-packet-in-snapshot"
  ELSE IF e.rq # <<>> THEN "C16c:request-in-snapshot"
  ELSE IF e.wr # <<>> THEN "C16c:write-other-than-schedule-fragment-in-snapshot"
  ELSE IF e.ie = 0 /\ (SetOf(e.exp) \ SetOf(e.tc)) # {} THEN "C16c:expired-packet-in-snapshot"
  ELSE IF e.ie = 0 /\ (SetOf(e.exp) \cap SetOf(e.tc)) # {} THEN "C16c:expired-packet-in-snapshot:313F"
  ELSE ""

(* C16c "nor (unless asked for) expired packets", judged without the library's verdict: a packet whose age
   is at least twice the lifetime of its kind plus the grace (C14: by then it is always expired) may not
   be in a snapshot taken with include_expired off.  Date-time packets are kept on purpose (same class as
   above).  Below that age C14 leaves "expired" open and nothing is demanded. *)
WindowClass(e) ==
  LET past == IF e.ie = 0 THEN PastLife(e.age, e.life) ELSE {} IN
  IF \E i \in past : e.pk[i] \notin SetOf(e.tc) THEN "C16c:packet-past-twice-its-lifetime-in-snapshot"
  ELSE IF past # {} THEN "C16c:expired-packet-in-snapshot:313F"
  ELSE ""

(* C16a / C16b: e is a snapshot of g, ref the snapshot it must equal *)
FixClass(e, ref, clause, how) ==
  LET R == SetOf(ref.pk)  G == SetOf(e.pk)
      (* input class of the history: the dtm-keyed snapshot cannot hold two packets with one
         timestamp; replay is in timestamp order, the history may not have been.  For these two
         classes the manifestation (lost / gained, which restore) is not part of the class. *)
      hist == IF Traces[tid].uniq = 0 THEN ":history-with-equal-timestamps"
              ELSE IF Traces[tid].chrono = 0 THEN ":non-chronological-history" ELSE "" IN
  IF ~SameSet(R, G) THEN
     IF OnlyExpiredLost(R, G, SetOf(ref.exp)) THEN clause \o ":only-expired-packets-lost"
     ELSE IF hist # "" THEN clause \o ":packets-differ" \o hist
     ELSE IF Gained(R, G) # {} THEN clause \o ":packets-gained" \o how
     ELSE clause \o ":packets-lost" \o how
  ELSE IF Traces[tid].eav = 0 /\ e.sch # ref.sch THEN
     IF e.ie = 0 /\ schemaOkIe1 THEN clause \o ":schema-differs-only-when-expired-packets-are-left-out"
     ELSE IF hist # "" THEN clause \o ":schema-differs" \o hist
     ELSE clause \o ":schema-differs" \o how
  ELSE ""

(* every distinct class is recorded once, with the op where it first occurred *)
Add(f, line, cls) == IF cls = "" \/ \E i \in 1..Len(f) : f[i][2] = cls THEN f ELSE Append(f, <<line, cls>>)

TStep ==
  /\ l <= NOps
  /\ LET e == Ops[l]  g == e.g IN
     IF dead[g] \/ e.ok = 0
     THEN /\ dead' = [dead EXCEPT ![g] = TRUE]
          /\ UNCHANGED <<prevSnap, pending, schemaOkIe1, fail>>
     ELSE IF e.op = "restore"
     THEN /\ pending' = [pending EXCEPT ![g] = e.src]
          /\ UNCHANGED <<prevSnap, dead, schemaOkIe1, fail>>
     ELSE \* snap
       LET fresh == prevSnap[g] = 0
           refno == IF pending[g] = 0 THEN 0 ELSE IF fresh THEN pending[g] ELSE prevSnap[g]
           clause == IF fresh THEN "C16a" ELSE "C16b"
           how == IF fresh THEN "" ELSE IF Ops[pending[g]].g = g THEN ":restore-into-source" ELSE ":second-restore"
           fc == IF refno = 0 THEN "" ELSE FixClass(e, Ops[refno], clause, how)
           cc == ContentClass(e)
           wc == WindowClass(e) IN
       /\ fail' = Add(Add(Add(fail, l, fc), l, cc), l, wc)
       /\ schemaOkIe1' = IF refno # 0 /\ fresh /\ e.ie = 1 THEN e.sch = Ops[refno].sch ELSE schemaOkIe1
       /\ prevSnap' = [prevSnap EXCEPT ![g] = l]
       /\ pending' = [pending EXCEPT ![g] = 0]
       /\ UNCHANGED dead
  /\ l' = l + 1
  /\ UNCHANGED <<tid, vars>>

TSpec == TInit /\ [][TStep]_tvars
Verdict == (l > NOps) => PrintT(<<"VERDICT", tid, fail>>)
=============================================================================

\* as the code is: no try/finally around the body
SPECIFICATION BSpec
CONSTANTS
  TryFinally = FALSE
  CfgSending = FALSE
  CfgDisc = FALSE
  MaxOps = 4
VIEW View
INVARIANT AsBeforeUnlessBodyRaised
INVARIANT RunningAtRest

SPECIFICATION Spec
CONSTANTS
  Zones = {1, 2}
  FixLock = TRUE
  FixAck = TRUE
  FixStale = TRUE
  ZlibDetects = TRUE
  MaxMain = 2
  MaxFaults = 0
  MaxBumps = 0
  MaxHeard = 1
  MaxAge = 0
  AllowSet = TRUE
  HeardStale = FALSE
  HeardAcks = FALSE
  Shared <- SharedHead
  FixHead <- Yes
CONSTRAINT Bound
INVARIANT TypeOK
INVARIANT ResultAsOfRead
INVARIANT NeverMixed
INVARIANT LockFreeWhenIdle
INVARIANT FollowUpNormal
CHECK_DEADLOCK TRUE
VIEW View

\* Generator instance for -simulate: two zones, all four classes, all DHW subsets, all appliance kinds,
\* the full TCS table; behaviours (configuration + loss pattern) are handed to the real Gateway
CONSTANTS
  ZoneIds <- MCZones
  Configs <- MCConfigs
  TcsTable <- TabAll4
  MCZones = {"00", "01"}
  MCClasses = {"08", "0A", "0B", "11"}
  MCMaxActs = 2
  MCSensors = {"none", "thm", "ctl", "own"}
  MCDhw <- DhwAll
  MCApps = {"none", "bdr", "otb"}
  MaxLoss = 3
  MaxRound = 4
  EtherCap = 2
  IterSafe = FALSE
SPECIFICATION Spec
INVARIANT Sound

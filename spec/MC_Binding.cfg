SPECIFICATION Spec
CONSTANTS
  Fix = FALSE
  Ratify = FALSE
  DeliveryChoices <- DC_small
  EchoChoices <- EC_one
  ThirdChoices <- TC_some
  Presence <- P_all
  SkewChoices <- SK_none
INVARIANT TypeOK
INVARIANT SuccessUnderDuplicates
INVARIANT ScenarioOut
CHECK_DEADLOCK TRUE

SPECIFICATION Spec
CONSTANTS
  Fix = FALSE
  Ratify = FALSE
  DeliveryChoices <- DC_small
  EchoChoices <- EC_one
  ThirdChoices <- TC_some
  Presence <- P_all
INVARIANT TypeOK
INVARIANT SuccessUnderDuplicates
INVARIANT ScenarioOut
CHECK_DEADLOCK TRUE

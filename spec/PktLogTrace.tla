---------------------------- MODULE PktLogTrace ----------------------------
(***************************************************************************)
(* C02 clause b - validation of recorded write -> replay sessions.         *)
(*                                                                         *)
(* item = [written, lines, replayed, regen]                                *)
(*   written  what was offered to Packet.from_port/from_file while the     *)
(*            real packet-log file handler was attached:                   *)
(*            [dtm, rssi, frame, err, comment, acc]  (acc = 1: a Packet    *)
(*            was returned, i.e. it was delivered to the protocol)         *)
(*   lines    the text lines of the log file that was written (without the *)
(*            library's own '# ramses_tx <version>' header line)           *)
(*   replayed what the real FileTransport delivered to pkt_received when   *)
(*            reading that file back: [dtm, rssi, frame, comment]          *)
(*   regen    the log file written *during* that replay (second generation)*)
(*   complete 1 = `written` lists everything that was offered (also what   *)
(*            was refused), 0 = only what was delivered (gateway sessions) *)
(*   window   <<t0, t1>> wall-clock interval of the session; every record  *)
(*            carries t = <<day number, second of day, microsecond>> next  *)
(*            to its ISO text (TLC cannot order strings)                   *)
(* clause "b" (property): replayed = accepted written, as (timestamp,      *)
(* frame text), in order.  Everything else is "drift".                     *)
(*                                                                         *)
(* history item = [hist, files, window]: the packet log configured several *)
(* times in ONE process, nothing but the library's own set_pkt_logging in  *)
(* between                                                                 *)
(*   hist   the sessions, in order: [file, console, written] = what        *)
(*          set_pkt_logging was called with (file "" = none, console 0/1)  *)
(*          and what was offered afterwards (records as above)             *)
(*   files  per log file name used: [name, lines, replayed, regen] = its   *)
(*          text at the end of the history and what replaying it delivered *)
(* clause "b" per file: it replays as what was accepted while it was the   *)
(* configured packet log (Judge on OfferedTo); verdict tuples carry the    *)
(* file's index as a 4th component.  Drift: the files differ from what the *)
(* handler-list model of PktLog (RunHist) predicts.                        *)
(***************************************************************************)
EXTENDS Integers, Sequences, FiniteSets, TLC, Json, IOUtils

FixCleanup == TRUE      \* the trace judge describes the repaired clean-up loop (PktLog.tla)
INSTANCE PktLog

Traces == JsonDeserialize(IOEnv.TRACE_FILE)

VARIABLES tid, l, fail
vars == <<tid, l, fail>>

MinOf(S) == CHOOSE x \in S : \A y \in S : x <= y
FirstDiff(a, b, Same(_, _)) ==      \* 0 if the two sequences agree on their common prefix
  LET D == {i \in 1..(IF Len(a) < Len(b) THEN Len(a) ELSE Len(b)) : ~Same(a[i], b[i])}
  IN  IF D = {} THEN 0 ELSE MinOf(D)

SameFrame(x, y) == x.frame = y.frame
SameDtm(x, y) == x.dtm = y.dtm
SameAll(x, y) == x.dtm = y.dtm /\ x.frame = y.frame /\ x.rssi = y.rssi /\ x.comment = y.comment
SameTail(x, y) == Sub(x, 27, Len(x)) = Sub(y, 27, Len(y))      \* a log line without its timestamp

\* t = <<day number, second of day, microsecond>> (integers recorded next to every ISO text)
Before3(a, b) == a[1] < b[1] \/ (a[1] = b[1] /\ (a[2] < b[2] \/ (a[2] = b[2] /\ a[3] <= b[3])))
Within(t, win) == Before3(win[1], t) /\ Before3(t, win[2])

Judge(it) ==
  LET acc  == SelectSeq(it.written, LAMBDA p : p.acc = 1)
      accP == [j \in 1..Len(acc) |-> Proj(acc[j])]
      \* ---- clause b, the sequence of frame texts
      dF   == FirstDiff(it.replayed, accP, SameFrame)
      BF == IF dF # 0 THEN {<<dF, "b", "frame_text_differs">>}
            ELSE IF Len(it.replayed) < Len(acc) THEN {<<Len(it.replayed) + 1, "b", "packet_lost_on_replay">>}
            ELSE IF Len(it.replayed) > Len(acc) THEN {<<Len(acc) + 1, "b", "extra_packet_on_replay">>}
            ELSE {}
      \* ---- clause b, the timestamps (judged separately so that one does not hide the other)
      dT   == FirstDiff(it.replayed, accP, SameDtm)
      BT == IF dT = 0 THEN {}
            ELSE {<<dT, "b", IF Within(it.replayed[dT].t, it.window) /\ ~Within(acc[dT].t, it.window)
                               THEN "timestamp_is_time_of_logging_not_packet_time" ELSE "timestamp_differs">>}
      d2   == FirstDiff(it.replayed, accP, LAMBDA x, y : x.rssi = y.rssi /\ x.comment = y.comment)
      modelAcc == {i \in 1..Len(it.written) : (it.written[i].acc = 1) # Accepted(it.written[i])}
      \* the model's text of the log: for a gateway session only the delivered packets are known (complete = 0)
      mLines == IF it.complete = 1 THEN WriteAll(it.written) ELSE WriteAll(acc)
      rLines == IF it.complete = 1 THEN it.lines ELSE SelectSeq(it.lines, LAMBDA x : ReadLine(x)[1])
      d3   == FirstDiff(rLines, mLines, SameTail)
      mRep == Replay(it.lines)
      d4   == FirstDiff(it.replayed, mRep, SameAll)
      \* second generation: only the lines of delivered packets are compared (the text of a rejected,
      \* error-annotated line is re-partitioned on replay and nothing is promised about it)
      dl1  == SelectSeq(it.lines, LAMBDA x : ReadLine(x)[1])
      dl2  == SelectSeq(it.regen, LAMBDA x : ReadLine(x)[1])
      d5   == FirstDiff(dl2, dl1, SameTail)
      D == (IF BF = {} /\ d2 # 0 THEN {<<d2, "drift", "rssi_or_comment_differs">>} ELSE {})
           \cup (IF modelAcc # {} THEN {<<MinOf(modelAcc), "drift", "acceptance_differs_from_model">>} ELSE {})
           \cup (IF d3 # 0 \/ Len(rLines) # Len(mLines) THEN {<<d3, "drift", "log_text_differs_from_model">>} ELSE {})
           \cup (IF d4 # 0 \/ Len(it.replayed) # Len(mRep) THEN {<<d4, "drift", "replay_differs_from_model">>} ELSE {})
           \cup (IF d5 # 0 \/ Len(dl2) # Len(dl1) THEN {<<d5, "drift", "second_generation_log_differs">>} ELSE {})
  IN  BF \cup BT \cup D

JudgeHist(it) ==
  LET h  == [k \in 1..Len(it.hist) |-> [file |-> it.hist[k].file, console |-> it.hist[k].console, ps |-> it.hist[k].written]]
      mf == HistFiles(h)
      One(i) ==
        LET fr  == it.files[i]
            sub == [written |-> OfferedTo(h, 1, fr.name), lines |-> fr.lines, replayed |-> fr.replayed, regen |-> fr.regen,
                    complete |-> 1, window |-> it.window]
            dm  == FirstDiff(fr.lines, mf[fr.name], SameTail)
        IN  {<<t[1], t[2], t[3], i>> : t \in Judge(sub)}
            \cup (IF dm # 0 \/ Len(fr.lines) # Len(mf[fr.name])
                  THEN {<<dm, "drift", "log_files_differ_from_handler_list_model", i>>} ELSE {})
  IN  UNION {One(i) : i \in 1..Len(it.files)}

Init == tid \in 1..Len(Traces) /\ l = 1 /\ fail = <<>>
Step == /\ l = 1
        /\ fail' = (LET S == IF "hist" \in DOMAIN Traces[tid] THEN JudgeHist(Traces[tid]) ELSE Judge(Traces[tid])
                    IN  IF S = {} THEN <<>> ELSE S)
        /\ l' = 2 /\ UNCHANGED tid
Spec == Init /\ [][Step]_vars
Verdict == (l = 2) => PrintT(<<"VERDICT", tid, fail>>)
=============================================================================

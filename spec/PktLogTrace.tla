---------------------------- MODULE PktLogTrace ----------------------------
(***************************************************************************)
(* C02 clause b - validation of recorded write -> replay sessions.         *)
(*                                                                         *)
(* item = [written, lines, replayed, regen]                                *)
(*   written  what was offered to Packet.from_port/from_file while the     *)
(*            real packet-log file handler was attached:                   *)
(*            [dtm, rssi, frame, err, comment, acc]  (acc = 1: a Packet    *)
(*            was returned, i.e. it was delivered to the protocol)         *)
(*   lines    the text lines of the log file that was written (without the *)
(*            library's own '# ramses_tx <version>' header line)           *)
(*   replayed what the real FileTransport delivered to pkt_received when   *)
(*            reading that file back: [dtm, rssi, frame, comment]          *)
(*   regen    the log file written *during* that replay (second generation)*)
(*   complete 1 = `written` lists everything that was offered (also what   *)
(*            was refused), 0 = only what was delivered (gateway sessions) *)
(*   window   <<t0, t1>> wall-clock interval of the session; every record  *)
(*            carries t = <<day number, second of day, microsecond>> next  *)
(*            to its ISO text (TLC cannot order strings)                   *)
(* clause "b" (property): replayed = accepted written, as (timestamp,      *)
(* frame text), in order.  Everything else is "drift".                     *)
(***************************************************************************)
EXTENDS Integers, Sequences, FiniteSets, TLC, Json, IOUtils

INSTANCE PktLog

Traces == JsonDeserialize(IOEnv.TRACE_FILE)

VARIABLES tid, l, fail
vars == <<tid, l, fail>>

MinOf(S) == CHOOSE x \in S : \A y \in S : x <= y
FirstDiff(a, b, Same(_, _)) ==      \* 0 if the two sequences agree on their common prefix
  LET D == {i \in 1..(IF Len(a) < Len(b) THEN Len(a) ELSE Len(b)) : ~Same(a[i], b[i])}
  IN  IF D = {} THEN 0 ELSE MinOf(D)

SameFrame(x, y) == x.frame = y.frame
SameDtm(x, y) == x.dtm = y.dtm
SameAll(x, y) == x.dtm = y.dtm /\ x.frame = y.frame /\ x.rssi = y.rssi /\ x.comment = y.comment
SameTail(x, y) == Sub(x, 27, Len(x)) = Sub(y, 27, Len(y))      \* a log line without its timestamp

\* t = <<day number, second of day, microsecond>> (integers recorded next to every ISO text)
Before3(a, b) == a[1] < b[1] \/ (a[1] = b[1] /\ (a[2] < b[2] \/ (a[2] = b[2] /\ a[3] <= b[3])))
Within(t, win) == Before3(win[1], t) /\ Before3(t, win[2])

Judge(it) ==
  LET acc  == SelectSeq(it.written, LAMBDA p : p.acc = 1)
      accP == [j \in 1..Len(acc) |-> Proj(acc[j])]
      \* ---- clause b, the sequence of frame texts
      dF   == FirstDiff(it.replayed, accP, SameFrame)
      BF == IF dF # 0 THEN {<<dF, "b", "frame_text_differs">>}
            ELSE IF Len(it.replayed) < Len(acc) THEN {<<Len(it.replayed) + 1, "b", "packet_lost_on_replay">>}
            ELSE IF Len(it.replayed) > Len(acc) THEN {<<Len(acc) + 1, "b", "extra_packet_on_replay">>}
            ELSE {}
      \* ---- clause b, the timestamps (judged separately so that one does not hide the other)
      dT   == FirstDiff(it.replayed, accP, SameDtm)
      BT == IF dT = 0 THEN {}
            ELSE {<<dT, "b", IF Within(it.replayed[dT].t, it.window) /\ ~Within(acc[dT].t, it.window)
                               THEN "timestamp_is_time_of_logging_not_packet_time" ELSE "timestamp_differs">>}
      d2   == FirstDiff(it.replayed, accP, LAMBDA x, y : x.rssi = y.rssi /\ x.comment = y.comment)
      modelAcc == {i \in 1..Len(it.written) : (it.written[i].acc = 1) # Accepted(it.written[i])}
      \* the model's text of the log: for a gateway session only the delivered packets are known (complete = 0)
      mLines == IF it.complete = 1 THEN WriteAll(it.written) ELSE WriteAll(acc)
      rLines == IF it.complete = 1 THEN it.lines ELSE SelectSeq(it.lines, LAMBDA x : ReadLine(x)[1])
      d3   == FirstDiff(rLines, mLines, SameTail)
      mRep == Replay(it.lines)
      d4   == FirstDiff(it.replayed, mRep, SameAll)
      \* second generation: only the lines of delivered packets are compared (the text of a rejected,
      \* error-annotated line is re-partitioned on replay and nothing is promised about it)
      dl1  == SelectSeq(it.lines, LAMBDA x : ReadLine(x)[1])
      dl2  == SelectSeq(it.regen, LAMBDA x : ReadLine(x)[1])
      d5   == FirstDiff(dl2, dl1, SameTail)
      D == (IF BF = {} /\ d2 # 0 THEN {<<d2, "drift", "rssi_or_comment_differs">>} ELSE {})
           \cup (IF modelAcc # {} THEN {<<MinOf(modelAcc), "drift", "acceptance_differs_from_model">>} ELSE {})
           \cup (IF d3 # 0 \/ Len(rLines) # Len(mLines) THEN {<<d3, "drift", "log_text_differs_from_model">>} ELSE {})
           \cup (IF d4 # 0 \/ Len(it.replayed) # Len(mRep) THEN {<<d4, "drift", "replay_differs_from_model">>} ELSE {})
           \cup (IF d5 # 0 \/ Len(dl2) # Len(dl1) THEN {<<d5, "drift", "second_generation_log_differs">>} ELSE {})
  IN  BF \cup BT \cup D

Init == tid \in 1..Len(Traces) /\ l = 1 /\ fail = <<>>
Step == /\ l = 1
        /\ fail' = (LET S == Judge(Traces[tid]) IN IF S = {} THEN <<>> ELSE S)
        /\ l' = 2 /\ UNCHANGED tid
Spec == Init /\ [][Step]_vars
Verdict == (l = 2) => PrintT(<<"VERDICT", tid, fail>>)
=============================================================================

SPECIFICATION Spec
CONSTANTS MaxEv = 5  NoSchedOn = FALSE  OwnDefault = TRUE  FetchOn = FALSE
  Zones <- ZonesC  Vers <- VersT  NF <- NFc  ZoneOf <- ZoneOfC
CONSTRAINT Bound
INVARIANT SameOrNone
INVARIANT DefaultUntouched
CHECK_DEADLOCK FALSE

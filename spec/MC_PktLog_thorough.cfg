SPECIFICATION Spec
CONSTANTS
  MaxLen = 3
  Frames <- FramesC
  Annots <- AnnotsC
INVARIANT InvLogIdentity
INVARIANT InvLineShape

SPECIFICATION SpecAll
CONSTANTS
  MaxLen = 3
  Frames <- FramesC
  Annots <- AnnotsC
  FixCleanup = TRUE
  MaxSess = 4
  HFiles <- HFilesC
  Consoles <- NoConsole
INVARIANT InvLogIdentity
INVARIANT InvLineShape
INVARIANT InvHistIdentity

---------------------------- MODULE MC_Dispatch ----------------------------
(* Every well-formed combination of the facts process_msg consults, one state each.  (Generated text: the union of
   one record set per kind of source x kind of destination, so that TLC only enumerates combinations that can
   occur; the two cheap residual conditions are in Residual.) *)
EXTENDS Dispatch

CONSTANT Quick      \* TRUE: the dead branch and the group sizes are fixed (an eighth of the inputs)
VARIABLES q, done
vars == <<q, done>>

DeadBranch == IF Quick THEN {FALSE} ELSE BOOLEAN
Groups     == IF Quick THEN {1} ELSE 0..1

Inputs ==
  [rp : 0..2, eav : BOOLEAN, srcEx : BOOLEAN, srcOk : BOOLEAN, verb : Verbs, offer : BOOLEAN, srcHasDevs : DeadBranch, nBinding : Groups, nFaked : Groups, srcActive : {TRUE}, srcHgiCls : {TRUE}, srcSlug : {"generic"}, srcCode : {TRUE}, srcVerb : {TRUE}, dst : {"self"}, dstEx : BOOLEAN, dstOk : BOOLEAN, dstFake : BOOLEAN, pairBad : {FALSE}, dstSlug : {"generic"}, dstHack1 : {FALSE}, dstCode : {TRUE}, dstHack2 : {FALSE}, dstVerb : {TRUE}] \cup
  [rp : 0..2, eav : BOOLEAN, srcEx : BOOLEAN, srcOk : BOOLEAN, verb : Verbs, offer : BOOLEAN, srcHasDevs : DeadBranch, nBinding : Groups, nFaked : Groups, srcActive : {TRUE}, srcHgiCls : {TRUE}, srcSlug : {"generic"}, srcCode : {TRUE}, srcVerb : {TRUE}, dst : {"null", "bcast"}, dstEx : BOOLEAN, dstOk : BOOLEAN, dstFake : {FALSE}, pairBad : {FALSE}, dstSlug : {"generic"}, dstHack1 : {FALSE}, dstCode : {TRUE}, dstHack2 : {FALSE}, dstVerb : {TRUE}] \cup
  [rp : 0..2, eav : BOOLEAN, srcEx : BOOLEAN, srcOk : BOOLEAN, verb : Verbs, offer : BOOLEAN, srcHasDevs : DeadBranch, nBinding : Groups, nFaked : Groups, srcActive : {TRUE}, srcHgiCls : {TRUE}, srcSlug : {"generic"}, srcCode : {TRUE}, srcVerb : {TRUE}, dst : {"other"}, dstEx : BOOLEAN, dstOk : BOOLEAN, dstFake : BOOLEAN, pairBad : BOOLEAN, dstSlug : {"generic", "unknown"}, dstHack1 : {FALSE}, dstCode : {TRUE}, dstHack2 : {FALSE}, dstVerb : {TRUE}] \cup
  [rp : 0..2, eav : BOOLEAN, srcEx : BOOLEAN, srcOk : BOOLEAN, verb : Verbs, offer : BOOLEAN, srcHasDevs : DeadBranch, nBinding : Groups, nFaked : Groups, srcActive : {TRUE}, srcHgiCls : {TRUE}, srcSlug : {"generic"}, srcCode : {TRUE}, srcVerb : {TRUE}, dst : {"other"}, dstEx : BOOLEAN, dstOk : BOOLEAN, dstFake : BOOLEAN, pairBad : BOOLEAN, dstSlug : {"known"}, dstHack1 : BOOLEAN, dstCode : BOOLEAN, dstHack2 : BOOLEAN, dstVerb : BOOLEAN] \cup
  [rp : 0..2, eav : BOOLEAN, srcEx : BOOLEAN, srcOk : BOOLEAN, verb : Verbs, offer : BOOLEAN, srcHasDevs : DeadBranch, nBinding : Groups, nFaked : Groups, srcActive : {FALSE}, srcHgiCls : {TRUE}, srcSlug : {"generic"}, srcCode : {TRUE}, srcVerb : {TRUE}, dst : {"self"}, dstEx : BOOLEAN, dstOk : BOOLEAN, dstFake : BOOLEAN, pairBad : {FALSE}, dstSlug : {"generic"}, dstHack1 : {FALSE}, dstCode : {TRUE}, dstHack2 : {FALSE}, dstVerb : {TRUE}] \cup
  [rp : 0..2, eav : BOOLEAN, srcEx : BOOLEAN, srcOk : BOOLEAN, verb : Verbs, offer : BOOLEAN, srcHasDevs : DeadBranch, nBinding : Groups, nFaked : Groups, srcActive : {FALSE}, srcHgiCls : {TRUE}, srcSlug : {"generic"}, srcCode : {TRUE}, srcVerb : {TRUE}, dst : {"null", "bcast"}, dstEx : BOOLEAN, dstOk : BOOLEAN, dstFake : {FALSE}, pairBad : {FALSE}, dstSlug : {"generic"}, dstHack1 : {FALSE}, dstCode : {TRUE}, dstHack2 : {FALSE}, dstVerb : {TRUE}] \cup
  [rp : 0..2, eav : BOOLEAN, srcEx : BOOLEAN, srcOk : BOOLEAN, verb : Verbs, offer : BOOLEAN, srcHasDevs : DeadBranch, nBinding : Groups, nFaked : Groups, srcActive : {FALSE}, srcHgiCls : {TRUE}, srcSlug : {"generic"}, srcCode : {TRUE}, srcVerb : {TRUE}, dst : {"other"}, dstEx : BOOLEAN, dstOk : BOOLEAN, dstFake : BOOLEAN, pairBad : BOOLEAN, dstSlug : {"generic", "unknown"}, dstHack1 : {FALSE}, dstCode : {TRUE}, dstHack2 : {FALSE}, dstVerb : {TRUE}] \cup
  [rp : 0..2, eav : BOOLEAN, srcEx : BOOLEAN, srcOk : BOOLEAN, verb : Verbs, offer : BOOLEAN, srcHasDevs : DeadBranch, nBinding : Groups, nFaked : Groups, srcActive : {FALSE}, srcHgiCls : {TRUE}, srcSlug : {"generic"}, srcCode : {TRUE}, srcVerb : {TRUE}, dst : {"other"}, dstEx : BOOLEAN, dstOk : BOOLEAN, dstFake : BOOLEAN, pairBad : BOOLEAN, dstSlug : {"known"}, dstHack1 : BOOLEAN, dstCode : BOOLEAN, dstHack2 : BOOLEAN, dstVerb : BOOLEAN] \cup
  [rp : 0..2, eav : BOOLEAN, srcEx : BOOLEAN, srcOk : BOOLEAN, verb : Verbs, offer : BOOLEAN, srcHasDevs : DeadBranch, nBinding : Groups, nFaked : Groups, srcActive : {FALSE}, srcHgiCls : {FALSE}, srcSlug : {"generic"}, srcCode : {TRUE}, srcVerb : {TRUE}, dst : {"self"}, dstEx : BOOLEAN, dstOk : BOOLEAN, dstFake : BOOLEAN, pairBad : {FALSE}, dstSlug : {"generic"}, dstHack1 : {FALSE}, dstCode : {TRUE}, dstHack2 : {FALSE}, dstVerb : {TRUE}] \cup
  [rp : 0..2, eav : BOOLEAN, srcEx : BOOLEAN, srcOk : BOOLEAN, verb : Verbs, offer : BOOLEAN, srcHasDevs : DeadBranch, nBinding : Groups, nFaked : Groups, srcActive : {FALSE}, srcHgiCls : {FALSE}, srcSlug : {"generic"}, srcCode : {TRUE}, srcVerb : {TRUE}, dst : {"null", "bcast"}, dstEx : BOOLEAN, dstOk : BOOLEAN, dstFake : {FALSE}, pairBad : {FALSE}, dstSlug : {"generic"}, dstHack1 : {FALSE}, dstCode : {TRUE}, dstHack2 : {FALSE}, dstVerb : {TRUE}] \cup
  [rp : 0..2, eav : BOOLEAN, srcEx : BOOLEAN, srcOk : BOOLEAN, verb : Verbs, offer : BOOLEAN, srcHasDevs : DeadBranch, nBinding : Groups, nFaked : Groups, srcActive : {FALSE}, srcHgiCls : {FALSE}, srcSlug : {"generic"}, srcCode : {TRUE}, srcVerb : {TRUE}, dst : {"other"}, dstEx : BOOLEAN, dstOk : BOOLEAN, dstFake : BOOLEAN, pairBad : BOOLEAN, dstSlug : {"generic", "unknown"}, dstHack1 : {FALSE}, dstCode : {TRUE}, dstHack2 : {FALSE}, dstVerb : {TRUE}] \cup
  [rp : 0..2, eav : BOOLEAN, srcEx : BOOLEAN, srcOk : BOOLEAN, verb : Verbs, offer : BOOLEAN, srcHasDevs : DeadBranch, nBinding : Groups, nFaked : Groups, srcActive : {FALSE}, srcHgiCls : {FALSE}, srcSlug : {"generic"}, srcCode : {TRUE}, srcVerb : {TRUE}, dst : {"other"}, dstEx : BOOLEAN, dstOk : BOOLEAN, dstFake : BOOLEAN, pairBad : BOOLEAN, dstSlug : {"known"}, dstHack1 : BOOLEAN, dstCode : BOOLEAN, dstHack2 : BOOLEAN, dstVerb : BOOLEAN] \cup
  [rp : 0..2, eav : BOOLEAN, srcEx : BOOLEAN, srcOk : BOOLEAN, verb : Verbs, offer : BOOLEAN, srcHasDevs : DeadBranch, nBinding : Groups, nFaked : Groups, srcActive : {FALSE}, srcHgiCls : {FALSE}, srcSlug : {"unknown"}, srcCode : {TRUE}, srcVerb : {TRUE}, dst : {"self"}, dstEx : BOOLEAN, dstOk : BOOLEAN, dstFake : BOOLEAN, pairBad : {FALSE}, dstSlug : {"unknown"}, dstHack1 : {FALSE}, dstCode : {TRUE}, dstHack2 : {FALSE}, dstVerb : {TRUE}] \cup
  [rp : 0..2, eav : BOOLEAN, srcEx : BOOLEAN, srcOk : BOOLEAN, verb : Verbs, offer : BOOLEAN, srcHasDevs : DeadBranch, nBinding : Groups, nFaked : Groups, srcActive : {FALSE}, srcHgiCls : {FALSE}, srcSlug : {"unknown"}, srcCode : {TRUE}, srcVerb : {TRUE}, dst : {"null", "bcast"}, dstEx : BOOLEAN, dstOk : BOOLEAN, dstFake : {FALSE}, pairBad : {FALSE}, dstSlug : {"generic"}, dstHack1 : {FALSE}, dstCode : {TRUE}, dstHack2 : {FALSE}, dstVerb : {TRUE}] \cup
  [rp : 0..2, eav : BOOLEAN, srcEx : BOOLEAN, srcOk : BOOLEAN, verb : Verbs, offer : BOOLEAN, srcHasDevs : DeadBranch, nBinding : Groups, nFaked : Groups, srcActive : {FALSE}, srcHgiCls : {FALSE}, srcSlug : {"unknown"}, srcCode : {TRUE}, srcVerb : {TRUE}, dst : {"other"}, dstEx : BOOLEAN, dstOk : BOOLEAN, dstFake : BOOLEAN, pairBad : BOOLEAN, dstSlug : {"generic", "unknown"}, dstHack1 : {FALSE}, dstCode : {TRUE}, dstHack2 : {FALSE}, dstVerb : {TRUE}] \cup
  [rp : 0..2, eav : BOOLEAN, srcEx : BOOLEAN, srcOk : BOOLEAN, verb : Verbs, offer : BOOLEAN, srcHasDevs : DeadBranch, nBinding : Groups, nFaked : Groups, srcActive : {FALSE}, srcHgiCls : {FALSE}, srcSlug : {"unknown"}, srcCode : {TRUE}, srcVerb : {TRUE}, dst : {"other"}, dstEx : BOOLEAN, dstOk : BOOLEAN, dstFake : BOOLEAN, pairBad : BOOLEAN, dstSlug : {"known"}, dstHack1 : BOOLEAN, dstCode : BOOLEAN, dstHack2 : BOOLEAN, dstVerb : BOOLEAN] \cup
  [rp : 0..2, eav : BOOLEAN, srcEx : BOOLEAN, srcOk : BOOLEAN, verb : Verbs, offer : BOOLEAN, srcHasDevs : DeadBranch, nBinding : Groups, nFaked : Groups, srcActive : {FALSE}, srcHgiCls : {FALSE}, srcSlug : {"known"}, srcCode : BOOLEAN, srcVerb : BOOLEAN, dst : {"self"}, dstEx : BOOLEAN, dstOk : BOOLEAN, dstFake : BOOLEAN, pairBad : {FALSE}, dstSlug : {"known"}, dstHack1 : {FALSE}, dstCode : {TRUE}, dstHack2 : {FALSE}, dstVerb : {TRUE}] \cup
  [rp : 0..2, eav : BOOLEAN, srcEx : BOOLEAN, srcOk : BOOLEAN, verb : Verbs, offer : BOOLEAN, srcHasDevs : DeadBranch, nBinding : Groups, nFaked : Groups, srcActive : {FALSE}, srcHgiCls : {FALSE}, srcSlug : {"known"}, srcCode : BOOLEAN, srcVerb : BOOLEAN, dst : {"null", "bcast"}, dstEx : BOOLEAN, dstOk : BOOLEAN, dstFake : {FALSE}, pairBad : {FALSE}, dstSlug : {"generic"}, dstHack1 : {FALSE}, dstCode : {TRUE}, dstHack2 : {FALSE}, dstVerb : {TRUE}] \cup
  [rp : 0..2, eav : BOOLEAN, srcEx : BOOLEAN, srcOk : BOOLEAN, verb : Verbs, offer : BOOLEAN, srcHasDevs : DeadBranch, nBinding : Groups, nFaked : Groups, srcActive : {FALSE}, srcHgiCls : {FALSE}, srcSlug : {"known"}, srcCode : BOOLEAN, srcVerb : BOOLEAN, dst : {"other"}, dstEx : BOOLEAN, dstOk : BOOLEAN, dstFake : BOOLEAN, pairBad : BOOLEAN, dstSlug : {"generic", "unknown"}, dstHack1 : {FALSE}, dstCode : {TRUE}, dstHack2 : {FALSE}, dstVerb : {TRUE}] \cup
  [rp : 0..2, eav : BOOLEAN, srcEx : BOOLEAN, srcOk : BOOLEAN, verb : Verbs, offer : BOOLEAN, srcHasDevs : DeadBranch, nBinding : Groups, nFaked : Groups, srcActive : {FALSE}, srcHgiCls : {FALSE}, srcSlug : {"known"}, srcCode : BOOLEAN, srcVerb : BOOLEAN, dst : {"other"}, dstEx : BOOLEAN, dstOk : BOOLEAN, dstFake : BOOLEAN, pairBad : BOOLEAN, dstSlug : {"known"}, dstHack1 : BOOLEAN, dstCode : BOOLEAN, dstHack2 : BOOLEAN, dstVerb : BOOLEAN]

Residual(x) == /\ x.offer => x.verb = "I"
               /\ x.dst = "self" => (x.dstEx = x.srcEx /\ x.dstOk = x.srcOk)

Init == q \in {x \in Inputs : Residual(x)} /\ done = FALSE
Next == ~done /\ done' = TRUE /\ UNCHANGED q
Spec == Init /\ [][Next]_vars

I_RefusedReachesNobody == RefusedReachesNobody(q)
I_SourceFirstOnce      == SourceFirstOnce(q)
I_DstOnlyIfFakeable    == DstOnlyIfFakeable(q)
I_Reduced              == Reduced(q)
I_FilteredSource       == FilteredSource(q)
I_FilteredDst          == FilteredDst(q)
I_DstNeedsEavesdrop    == DstNeedsEavesdrop(q)
I_CreatedThoughRefused == CreatedThoughRefused(q)
\* sensitivity: "a refused message leaves no device behind" does NOT hold (devices are created before the class checks)
X_RefusedCreatesNothing == Stage(q) \in {"P4:raise", "P5:raise"} => Created(q) = {}
=============================================================================

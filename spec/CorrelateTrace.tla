---- MODULE CorrelateTrace ----
(* Table validation for C06: every item is one scenario executed against the real code.

   item = [ fam   : label of the case family (for keys only),
            m     : TRUE if the item carries abstract frames (c, ps[k].f) to compare the model with,
            c     : abstract command frame (all "" when m = FALSE),
            csrc  : source id of the real command,      gw : id the fake gateway reports,
            wait  : QoS wait_for_reply,
            txh, rxh : cmd.tx_header / cmd.rx_header split at "|" and padded to 4 (rxh = NoHdr for None),
            ps    : packets injected after the first transmission, in order:
                    [kind, dim, src, dst, null, hdr (pkt._hdr split/padded), f (abstract frame)],
            ret   : 1-based index of the packet PortProtocol.send_cmd() returned, 0 = it raised
                    a protocol error (time-out) ]

   Lines 1..Len(ps) judge the packet's header against the command's headers (clauses a/b/c at
   header level, model drift of Hdr); line Len(ps)+1 judges what send_cmd() returned (clauses
   a/b/c at FSM level, drift of Tx/Rx/Returned).  The judgement is total (never disabled); `fail` accumulates
   <line><letter> entries in one string; the drift letters are model drift, not verdicts. *)
EXTENDS Correlate, Json, IOUtils

Traces == JsonDeserialize(IOEnv.TRACE_FILE)

VARIABLES tid, l, fail
vars == <<tid, l, fail>>

T    == Traces[tid]
N    == Len(T.ps)
Obs  == [k \in 1..N |-> [kind |-> T.ps[k].kind, hdr |-> T.ps[k].hdr, src |-> T.ps[k].src,
                          dst |-> T.ps[k].dst, null |-> T.ps[k].null]]

(* failures are accumulated in ONE short string of <line digit><clause letter> entries, because TLC
   wraps a printed tuple wider than 80 columns over several lines (at most 4 packets => < 50 chars):
     a b c = clause a/b/c at header level      A B C = clause a/b/c on what send_cmd() returned
     h t r f = model drift of Hdr(packet) / Tx / Rx / Returned   (never a verdict)                 *)
Add(f, line, cond, clause) == IF cond THEN f ELSE f \o ToString(line) \o clause

PktFails(k) ==
  LET p  == Obs[k]
      f1 == Add("", k, ClauseA_Hdr(T.txh, p, T.gw), "a")
      f2 == Add(f1,   k, ClauseB_Hdr(T.rxh, p), "b")
      f3 == Add(f2,   k, ClauseC_Hdr(T.txh, T.rxh, p, T.gw), "c")
  IN     Add(f3,   k, T.m => (p.hdr = Hdr(T.ps[k].f)), "h")

EndFails ==
  LET o    == Obs
      mret == Returned(o, T.txh, T.rxh, T.csrc, T.gw, T.wait)
      f1 == Add("", N + 1, ClauseA_Fsm(o, T.rxh, T.wait, T.ret), "A")
      f2 == Add(f1,   N + 1, ClauseB_Fsm(o, T.rxh, T.wait, T.ret), "B")
      f3 == Add(f2,   N + 1, ClauseC_Fsm(o, T.ret), "C")
      f4 == Add(f3,   N + 1, T.m => (T.txh = Hdr(T.c)), "t")
      f5 == Add(f4,   N + 1, T.m => (T.rxh = Rx(T.c)), "r")
  IN     Add(f5,   N + 1, T.ret = mret, "f")

RECURSIVE AllPktFails(_)
AllPktFails(k) == IF k > N THEN "" ELSE PktFails(k) \o AllPktFails(k + 1)

(* one (total) step per item: lines 1..N judge the packets, line N+1 the outcome *)
Init == tid \in 1..Len(Traces) /\ l = 1 /\ fail = <<>>
Step == /\ l = 1
        /\ LET s == AllPktFails(1) \o EndFails IN fail' = IF s = "" THEN <<>> ELSE s
        /\ l' = 2 /\ UNCHANGED tid
Spec == Init /\ [][Step]_vars
Verdict == (l = 2) => PrintT(<<"VERDICT", tid, fail>>)
====

SPECIFICATION Spec
CONSTANTS
  Fix = FALSE
  Ratify = FALSE
  DeliveryChoices <- DC_mid
  EchoChoices <- EC_two
  ThirdChoices <- TC_some
  Presence <- P_all
INVARIANT TypeOK
INVARIANT SuccessUnderDuplicates
INVARIANT ScenarioOut
CHECK_DEADLOCK TRUE

---------------------------- MODULE MC_FaultLog ----------------------------
(* Bounded instances of FaultLog (C19).  One .cfg per instance:
     MC_FaultLog.cfg        repository code, quick      (Depth 4, <= 7 events, base kinds)
     MC_FaultLog_t.cfg      repository code, thorough   (Depth 5, all kinds, start 0/1)
     MC_FaultLog_fix.cfg    Repair (2-line _insert_into_map fix): only clause d may trip
     MC_FaultLog_fix2.cfg   Repair + PushOnNew: no clause may trip
   `trips` is evaluated by TLC in every state; KnownTrips mirrors the clause names of
   known_findings.d/C19.json (checks/c19.py cross-checks that).  h is part of the state on
   purpose: a distinct state is a distinct (pre-state, event, post-state) transition, which
   is what -dump hands to the per-transition conformance run.                            *)
EXTENDS FaultLog
CONSTANTS MaxTs, MaxEv, KnownTrips
Bound      == nev <= MaxEv /\ nts <= MaxTs
Starts0    == {0}
Starts01   == {0, 1}
LimitsAll  == 1..(Depth + 1)
LimitsQ    == {3, Depth + 1}
KindsBase  == {"new", "reply", "rstart"}
KindsAll   == AllKinds
KindsNoClr == AllKinds \ {"clear"}   \* the statement's histories: faults/restores arriving (no cleared log)
TripsOrig  == {"NoDup", "Ordered", "Converged", "AnnounceShift"}
TripsFix   == {"AnnounceShift"}
TripsNone  == {}
TripsKnown == trips \subseteq KnownTrips
=============================================================================

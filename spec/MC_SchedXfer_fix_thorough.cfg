SPECIFICATION Spec
CONSTANTS
  Zones = {1, 2}
  FixLock = TRUE
  FixAck = TRUE
  FixStale = TRUE
  ZlibDetects = TRUE
  MaxMain = 2
  MaxFaults = 2
  MaxBumps = 1
  MaxHeard = 1
  MaxAge = 1
  AllowSet = TRUE
  HeardStale = FALSE
  HeardAcks = TRUE
CONSTRAINT Bound
INVARIANT TypeOK
INVARIANT ResultAsOfRead
INVARIANT NeverMixed
INVARIANT LockFreeWhenIdle
INVARIANT FollowUpNormal
CHECK_DEADLOCK TRUE
VIEW View

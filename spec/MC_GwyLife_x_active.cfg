CONSTANTS MaxTp = 6  Silent <- Silent25  FixActive = FALSE  FixShield = TRUE  Overlap = FALSE
SPECIFICATION Spec
CHECK_DEADLOCK FALSE
INVARIANT NoTrip

SPECIFICATION Spec
INVARIANT Verdict

SPECIFICATION Spec
CONSTANTS
  Zones = {1, 2, 3}
  FixLock = FALSE
  FixAck = FALSE
  FixStale = FALSE
  ZlibDetects = TRUE
  MaxMain = 3
  MaxFaults = 1
  MaxBumps = 0
  MaxHeard = 0
  MaxAge = 0
  AllowSet = TRUE
  HeardStale = FALSE
  HeardAcks = TRUE
CONSTRAINT Bound
INVARIANT TypeOK
INVARIANT ResultAsOfRead
INVARIANT NeverMixed
CHECK_DEADLOCK TRUE
VIEW View

SPECIFICATION Spec
CONSTANTS
  Rate = 384
  Cap = 230400000
  MaxTok = 80
  Win = 60
  Writers = {1, 2, 3}
  InitTok <- InitTokV
  AdvSteps <- AdvV
  CallUntil = 8200
  MaxTime = 100000
INVARIANT WithinAllowance
INVARIANT QueueBounded
INVARIANT WaitBounded
INVARIANT DropOnlyOverBudget
INVARIANT InOrder
INVARIANT NoDup
INVARIANT AllAnswered
INVARIANT CodeBucketBounded

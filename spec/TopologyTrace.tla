---------------------------- MODULE TopologyTrace ----------------------------
(* C15 - batch judge for recorded histories of a real Gateway (harness/ext_c15.py).

   One item = one history:  [maxZones |-> n, steps |-> <<step, ...>>]  and a step is what the harness
   observed at a quiescent point after feeding one claim (or after loading a schema):
     reported  BOOLEAN   an exception reached the loop's handler / a warning+ was logged in this step
     valid     STRING    "" if SCH_GLOBAL_SCHEMAS(shrink(gwy.schema)) accepted, else the error text
     view      <<[ctl, zones |-> <<[z, cls, sen, acts]>>, dhw |-> [sen, hwv, htv], app]>>   of gwy.schema
     reloadErr STRING    "" or the exception raised by a fresh Gateway configured with the schema
     reload    view of the fresh gateway's schema (as above)
     devices   <<[id, ctl, parent]>>                     child -> parent pointers of every device
     systems   <<[ctl, maxZones, zoneObjs, zones |-> <<[z, num, sen, acts, childs, inMap]>>,
                  dhw |-> [sen, hwv, htv], app, others |-> <<ids>>]>>   parent -> member lists
                  (others = the system's own children with child id FF: UFH controllers, outdoor sensor)

   Clauses (DESIGN App. A, C15):
     a_valid      "accepted by the library's own schema validator"
     b_reload     "feeding it back into a fresh gateway reproduces the same controllers, zones (class,
                  sensor, actuators), hot-water subsystem and appliance control"
                  (zones / controllers about which nothing but their existence is known are not
                   compared - see the notes, resolved towards not alarming)
     c_place      "each device belongs to at most one controller and one zone/role" : a device is a
                  member of at most one parent, and that is the parent it points to
     c_zone       "a zone has at most one sensor" / one zone object per index, children = members
     c_range      "zone indexes are within the configured maximum"
     d_move       "no packet sequence can move a device to a different parent without the
                  inconsistency being reported"
   The verdict is total: fail = <<step index, clause>> of the first failure. *)
EXTENDS Naturals, FiniteSets, Sequences, TLC, Json, IOUtils

Traces == JsonDeserialize(IOEnv.TRACE_FILE)
RangeOf(s) == {s[i] : i \in 1..Len(s)}

(* ---- b: views modulo content-free zones / controllers *)
ZoneFacts(c) == {[z |-> r.z, cls |-> r.cls, sen |-> r.sen, acts |-> RangeOf(r.acts)] :
                   r \in {q \in RangeOf(c.zones) : q.cls # "" \/ q.sen # "" \/ q.acts # <<>>}}
CtlFacts(c) == [ctl |-> c.ctl, zones |-> ZoneFacts(c), dhw |-> c.dhw, app |-> c.app]
HasContent(f) == f.zones # {} \/ f.dhw.sen # "" \/ f.dhw.hwv # "" \/ f.dhw.htv # "" \/ f.app # ""
ViewFacts(v) == {f \in {CtlFacts(c) : c \in RangeOf(v)} : HasContent(f)}

(* ---- c: structure *)
ZoneMembers(z) == (IF z.sen = "" THEN {} ELSE {z.sen}) \cup RangeOf(z.acts)
Places(s, d) ==
  {<<sy.ctl, z.z>> : <<sy, z>> \in {p \in RangeOf(s.systems) \X UNION {RangeOf(q.zones) : q \in RangeOf(s.systems)} :
                                     p[2] \in RangeOf(p[1].zones) /\ d \in ZoneMembers(p[2])}}
  \cup {<<sy.ctl, "HW">> : sy \in {q \in RangeOf(s.systems) : d \in {q.dhw.sen, q.dhw.hwv, q.dhw.htv}}}
  \cup {<<sy.ctl, "FF">> : sy \in {q \in RangeOf(s.systems) : d = q.app \/ d \in RangeOf(q.others)}}
PlaceId(p) == p[1] \o "_" \o p[2]

PlaceOK(s) ==
  \A dv \in RangeOf(s.devices) :
    LET ps == Places(s, dv.id) IN
    /\ Cardinality(ps) <= 1
    /\ {PlaceId(p) : p \in ps} = (IF dv.parent = "" THEN {} ELSE {dv.parent})
    /\ (dv.parent # "" => dv.ctl # "")
    /\ \A p \in ps : dv.ctl = p[1]

ZoneOK(s) ==
  \A sy \in RangeOf(s.systems) :
    /\ sy.zoneObjs = Cardinality({z.z : z \in RangeOf(sy.zones)})      \* one object per index
    /\ \A z \in RangeOf(sy.zones) : z.inMap /\ RangeOf(z.childs) = ZoneMembers(z)

RangeOK(s, maxZones) ==
  \A sy \in RangeOf(s.systems) : \A z \in RangeOf(sy.zones) : z.num < sy.maxZones /\ sy.maxZones = maxZones

ParentOf(s, id) == LET m == {dv \in RangeOf(s.devices) : dv.id = id} IN
                   IF m = {} THEN "" ELSE (CHOOSE dv \in m : TRUE).parent
MoveOK(prev, cur) ==
  \A dv \in RangeOf(prev.devices) :
    (dv.parent # "" /\ ParentOf(cur, dv.id) # dv.parent) => cur.reported

VARIABLES tid, i, fail
vars == <<tid, i, fail>>
Init == tid \in 1..Len(Traces) /\ i = 1 /\ fail = <<>>

Step ==
  /\ i <= Len(Traces[tid].steps)
  /\ LET T == Traces[tid]
         s == T.steps[i]
         f == IF s.valid # "" THEN <<i, "a_valid">>
              ELSE IF s.reloadErr # "" \/ ViewFacts(s.reload) # ViewFacts(s.view) THEN <<i, "b_reload">>
              ELSE IF ~PlaceOK(s) THEN <<i, "c_place">>
              ELSE IF ~ZoneOK(s) THEN <<i, "c_zone">>
              ELSE IF ~RangeOK(s, T.maxZones) THEN <<i, "c_range">>
              ELSE IF i > 1 /\ ~MoveOK(T.steps[i - 1], s) THEN <<i, "d_move">>
              ELSE <<>>
     IN fail' = IF fail = <<>> THEN f ELSE fail
  /\ i' = i + 1 /\ UNCHANGED tid

Spec == Init /\ [][Step]_vars
Verdict == (i > Len(Traces[tid].steps)) => PrintT(<<"VERDICT", tid, fail>>)
=============================================================================

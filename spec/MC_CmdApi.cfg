SPECIFICATION Spec
CONSTANT Deep = FALSE
INVARIANT TypeOK
INVARIANT KeyConsistent
INVARIANT ModeTotal
INVARIANT DomainConsistent
INVARIANT WantsKeysUnique
INVARIANT SlotsUnique

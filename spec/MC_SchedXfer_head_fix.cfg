SPECIFICATION Spec
CONSTANTS
  Zones = {1, 2}
  FixLock = TRUE
  FixAck = TRUE
  FixStale = TRUE
  ZlibDetects = TRUE
  MaxMain = 2
  MaxFaults = 1
  MaxBumps = 2
  MaxHeard = 0
  MaxAge = 0
  AllowSet = TRUE
  HeardStale = FALSE
  HeardAcks = FALSE
  Shared <- SharedHead
  FixHead <- Yes
CONSTRAINT Bound
INVARIANT TypeOK
INVARIANT ResultAsOfRead
INVARIANT NeverMixed
INVARIANT LockFreeWhenIdle
INVARIANT FollowUpNormal
CHECK_DEADLOCK TRUE
VIEW View

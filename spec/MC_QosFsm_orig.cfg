SPECIFICATION Spec
CONSTANTS
  Callers = {1, 2}
  HasRx <- HasRxC
  Wfr <- WfrC
  MaxRetries <- MaxRetriesC
  Prio <- PrioC
  MaxEnv = 3
  MaxT = 6
  MaxConn = 0
  MaxFail = 0
  MaxIo = 1
  FixStaleEffect = FALSE
  FixLockRelease = FALSE
  FixClearFut = FALSE
  FixCheckIdleOnly = FALSE
  FixWriteFail = FALSE
VIEW View
INVARIANT NoTrip
INVARIANT NotFrozen
INVARIANT OwnPacket
INVARIANT Budget
INVARIANT EndsIdle
INVARIANT NoTimerLeak
INVARIANT NoOverflow

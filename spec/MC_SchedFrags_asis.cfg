SPECIFICATION Spec
CONSTANTS MaxEv = 5  NoSchedOn = FALSE  OwnDefault = FALSE  FetchOn = FALSE
  Zones <- ZonesC  Vers <- VersC  NF <- NFc  ZoneOf <- ZoneOfC
CONSTRAINT Bound
INVARIANT SameOrNone
CHECK_DEADLOCK FALSE

------------------------------- MODULE RxPaused -------------------------------
(* C01 - the receive path while the engine is paused (ramses_tx.gateway.Engine._pause / _resume around
   get_state() and a cache restore): Engine._pause() parks the protocol's message handler (sets it to None),
   pauses reading and writing; a serial port keeps delivering what the radio hears all the same.

   An item: ev = sequence of
     [e |-> "pause"] / [e |-> "resume"]         the real Engine._pause / Engine._resume were run on the rig
     [e |-> "line", k, good]                   line k was offered in a read of its own (good = a frame the decoder accepts)
     [e |-> "msg", k]                          the application's handler was given line k's message
     [e |-> "exc", what]                       an exception escaped _read_ready or was left in the event loop

   Clauses (statement of C01):  a  no exception escapes, paused or not;
                                b  a good line offered while the engine runs is delivered before the next line is
                                   offered - whatever was offered (and dropped) while it was paused;
                                   nothing is delivered that was not offered, nothing twice.
   What is offered while the engine is paused is dropped by design: not judged for delivery.            *)
EXTENDS Naturals, Sequences, FiniteSets, Json, IOUtils, TLC

Traces == JsonDeserialize(IOEnv.TRACE_FILE)
VARIABLES tid, l, paused, owed, seen, fail
tvars == <<tid, l, paused, owed, seen, fail>>

Init == tid \in 1..Len(Traces) /\ l = 1 /\ paused = FALSE /\ owed = 0 /\ seen = {} /\ fail = <<>>

FailOf(e) ==
  CASE e.e = "exc"    -> "a2:paused-engine:" \o e.what
    [] e.e = "line"   -> IF owed # 0 THEN "b:paused-engine:not_delivered_after_resume" ELSE ""
    [] e.e = "msg"    -> IF e.k \in seen THEN "b:paused-engine:delivered_twice"
                         ELSE IF e.k # owed THEN (IF paused THEN "" ELSE "b:paused-engine:delivered_unoffered") ELSE ""
    [] e.e = "end"    -> IF owed # 0 THEN "b:paused-engine:not_delivered_after_resume" ELSE ""
    [] OTHER          -> ""

Step == /\ l <= Len(Traces[tid].ev)
        /\ LET e == Traces[tid].ev[l]  c == FailOf(e) IN
             /\ fail' = IF fail = <<>> /\ c # "" THEN <<l, c>> ELSE fail
             /\ paused' = CASE e.e = "pause" -> TRUE [] e.e = "resume" -> FALSE [] OTHER -> paused
             /\ owed' = CASE e.e = "line" -> (IF e.good = 1 /\ ~paused THEN e.k ELSE 0)
                          [] e.e = "msg" -> (IF e.k = owed THEN 0 ELSE owed)
                          [] OTHER -> owed
             /\ seen' = IF e.e = "msg" THEN seen \cup {e.k} ELSE seen
        /\ l' = l + 1 /\ UNCHANGED tid
Spec == Init /\ [][Step]_tvars
Verdict == (l > Len(Traces[tid].ev)) => PrintT(<<"VERDICT", tid, fail>>)
=============================================================================

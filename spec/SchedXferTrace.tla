---------------------------- MODULE SchedXferTrace ----------------------------
(* C18 - batch validation of recorded executions of the real Gateway + scripted controller
   (checks/c18.py).  One item = one scenario run:

     [ev |-> << [k, z, a, b, c, s, p], ... >>,      every event has all seven fields
      sh |-> << <<s0, .., s7>> per zone >>]        s_c = << the positions at which the fragment of version c is
                                                   byte-identical with that of version c-1 >>, measured on the real
                                                   fragments (a slot value is the earliest version with these bytes
                                                   there: SchedXferCore, Rep)
       k  kind      z  zone (1..3, 0 if none)      a,b,c  integers      s  string
       p  projection of the real objects when the event was logged:
          [lock |-> 0..3, zs |-> << [gver, sver, full, pset] per zone >>]

   kinds  start  z a=tid b=force c=wr s=op     a transfer is called (get/set; tid >= 100: follow-up); set: b = the number
                                               of fragments the schedule written makes
          xq     z a=frag/put number s=ver|frag|put   the transfer starts an exchange
          xr     z s=ok|fail  ver: a=counter   frag: a=version b=k c=n    the exchange returns
          locked z                             _obtain_lock returned after having waited
          end    z a=tid b=result version s=ok|err|cancel|timeout|locktimeout|hang
          bump   z a=new version               the controller's content of zone z changed
          vread    a=counter                   the controller produced an RP|0006
          hm     z a=version b=k c=n s=frag|ack    Schedule._handle_msg returned from an RP|0404
                                               fragment / an I|0404 write acknowledgement (a = -4)
          heard6   a=counter                   an overheard RP|0006 was dispatched
          age      a=seconds slept (0: measured)  more than 3 minutes have passed since the controller last sent an
                                               RP|0006 (the harness checks that against its own clock before logging)
          wait     a=seconds                   time passed, less than that (not folded)
          mainend / fin                        quiescence after the main phase / at the end

   Two things are folded over the events, both with the operators of SchedXferCore:
     * the property clauses C18a/b/c  (only these produce violations), and
     * two shadow copies of the gateway-side model (AsIs: code as it is, Fixed: both repairs) whose projection is compared with p at the synchronisation points: a mismatch
       is reported as DRIFT_F / DRIFT_T (never a violation).
   The verdict is total: fail is the sequence of <<line, clause, detail...>> tuples. *)
EXTENDS SchedXferCore, Json, IOUtils

Traces == JsonDeserialize(IOEnv.TRACE_FILE)

VARIABLES tid, l, SF, ST, driftF, driftT, cv, acc, armed, since, cfresh, stale0, act, info, leftAtMain, fail
vars == <<tid, l, SF, ST, driftF, driftT, cv, acc, armed, since, cfresh, stale0, act, info, leftAtMain, fail>>

ZS == {1, 2, 3}
Ev(t) == Traces[t].ev
\* codec facts of zone z in this item
ShOf(z) == IF z \in 1..Len(Traces[tid].sh)
           THEN LET q == Traces[tid].sh[z] IN [c \in 0..(Len(q) - 1) |-> {q[c + 1][i] : i \in 1..Len(q[c + 1])}]
           ELSE NoShare
CodOf(z) == [zlib |-> TRUE, sh |-> ShOf(z)]

Init == /\ tid \in 1..Len(Traces) /\ l = 1
        /\ SF = GInit(ZS) /\ ST = GInit(ZS) /\ driftF = FALSE /\ driftT = FALSE
        /\ cv = [z \in ZS |-> 0] /\ acc = [z \in ZS |-> {0}] /\ armed = [z \in ZS |-> FALSE]
        /\ since = [z \in ZS |-> {0}] /\ act = [z \in ZS |-> FALSE]
        \* the contract's freshness window (SchedXfer.tla, ct.fresh / Expired): is the latest change counter the controller
        \* sent young enough to go by?  stale0[z]: it was not when zone z's transfer was called
        /\ cfresh = FALSE /\ stale0 = [z \in ZS |-> FALSE]
        /\ info = [z \in ZS |-> [op |-> "none", exit |-> "none", xq |-> "none", wr |-> NoneV, tid |-> 0, cause |-> ""]]
        /\ leftAtMain = 0
        /\ fail = <<>>

\* ---- shadow -------------------------------------------------------------------------------
Apply(S, e, fix) ==
    LET z == e.z IN
    CASE e.k \in {"start", "fu"} -> IF e.s = "get" THEN StartGet(S, z, e.b = 1, e.a, fix)
                                    ELSE StartSetN(S, z, e.c, IF e.b > 0 THEN e.b ELSE NFrags(e.c), e.a, fix)
      [] e.k = "xr" ->
            IF ~(Z(S, z).pc \in ExchPcs) THEN S
            ELSE IF e.s # "ok" THEN Fail(S, z, "err", fix)
            \* e.q = the kind of exchange the code actually made; when it is not the one the shadow model is
            \* waiting for, the shadow stays where it is (reported as drift by Fits, never a crash of the judge)
            ELSE IF Z(S, z).pc = "w_frag" THEN (IF e.q = "frag" THEN OnFrag(S, z, e.a, e.b, e.c, CodOf(z), fix) ELSE S)
            ELSE IF Z(S, z).pc = "w_put" THEN (IF e.q = "put" THEN OnPutAck(S, z) ELSE S)
            ELSE (IF e.q = "ver" THEN OnVer(S, z, e.a, fix) ELSE S)
      [] e.k = "locked" -> IF Z(S, z).pc = "w_lock" THEN TryLock(S, z, fix) ELSE S
      [] e.k = "end" -> IF Active(S, z) THEN Fail(S, z, e.s, fix) ELSE S
      [] e.k = "hm" -> IF e.s = "ack" THEN HeardAck(S, z, e.b, e.c, CodOf(z), fix)
                       ELSE Heard(S, z, e.a, e.b, e.c, CodOf(z))
      [] e.k = "heard6" -> Heard6(S, e.a)
      [] e.k = "age" -> Age(S)
      [] OTHER -> S

SeqOf(x) == [i \in 1..Len(x) |-> x[i]]
ProjEq(S, p) ==
    /\ S.lock = p.lock
    /\ \A z \in 1..Len(p.zs) :
          /\ S.zs[z].gver = p.zs[z].gver /\ S.zs[z].sver = p.zs[z].sver
          /\ S.zs[z].full = p.zs[z].full /\ S.zs[z].pset = SeqOf(p.zs[z].pset)

\* does event e fit the shadow state S (before) / S2 (after)?
Fits(S, S2, e) ==
    LET z == e.z IN
    CASE e.k = "xq" ->
            /\ Active(S, z)
            /\ CASE e.s = "ver"  -> Z(S, z).pc \in {"w_v1", "w_v2", "w_v3", "w_sv"}
                 [] e.s = "frag" -> Z(S, z).pc = "w_frag" /\ ReqFrag(S, z) = e.a
                 [] e.s = "put"  -> Z(S, z).pc = "w_put" /\ Z(S, z).k = e.a
                 [] OTHER -> FALSE
            /\ ProjEq(S2, e.p)
      [] e.k = "xr" -> Z(S, z).pc \in ExchPcs
      [] e.k = "locked" -> Z(S, z).pc = "w_lock" /\ S2.lock = z
      [] e.k = "end" -> /\ Z(S2, z).pc = "done" /\ Z(S2, z).exit = e.s
                        /\ (Active(S, z) => e.s \in {"cancel", "timeout", "locktimeout", "hang"})
                        /\ (e.s = "ok" => Z(S2, z).res = e.b)
                        /\ ProjEq(S2, e.p)
      [] e.k \in {"hm", "mainend", "fin"} -> ProjEq(S2, e.p)
      [] OTHER -> TRUE

\* ---- clauses ------------------------------------------------------------------------------
Clauses(e) ==
    LET z == e.z IN
    CASE e.k = "end" ->
            (IF e.s = "hang" THEN << <<l, "C18a_hang", info[z].op, info[z].xq, "">> >>
             \* "always ends, with the controller's schedule ... or an error": a CancelledError reaching a caller who
             \* did not cancel (the harness marks its own cancellations q = "own") is neither - another transfer's
             \* abandonment took this one down ("other zones ... proceed normally")
             ELSE IF e.s = "cancel" /\ e.q # "own" THEN << <<l, "C18c_cancelled_by_another_transfer", info[z].op, info[z].xq, "">> >>
             ELSE IF e.s # "ok" THEN <<>>
             ELSE IF info[z].op = "get"
                  THEN IF e.b \in acc[z] THEN <<>>
                       ELSE IF e.b = Mixed THEN << <<l, "C18b_mixed", "get", "", "">> >>
                       ELSE IF e.b = NoneV THEN << <<l, "C18a_none", "get", "", "">> >>
                       \* detail: the transfer read a counter / went by a cached one inside the freshness window / went
                       \* by one older than the window ("expired": no counter was read during the transfer, and the schedule is
                       \* not the one the controller has held since the call)
                       \* "first-fragment-unchanged": what it returned is an earlier version whose first fragment has the
                       \* same bytes as that of the controller's schedule (whichever counter it went by)
                       ELSE << <<l, "C18a_stale", "get",
                                 IF e.b >= 0 /\ e.b < cv[z] /\ Rep(ShOf(z), cv[z], 1) = Rep(ShOf(z), e.b, 1)
                                 THEN "first-fragment-unchanged"
                                 ELSE IF armed[z] THEN "read" ELSE IF stale0[z] THEN "expired" ELSE "cached", "">> >>
                  ELSE IF e.b = info[z].wr THEN <<>>
                       ELSE << <<l, "C18a_set_result", "set", "", "">> >>)
            \o
            (IF e.a >= 100 /\ (e.s # "ok" \/ e.b # cv[z])
             THEN << <<l, "C18c_followup", e.s,
                       IF leftAtMain = 0 THEN "lockfree" ELSE IF leftAtMain = z THEN "holder" ELSE "other",
                       info[z].cause>> >>
             ELSE <<>>)
      [] e.k \in {"mainend", "fin"} ->
            IF e.p.lock # 0 /\ ~(\E y \in ZS : act[y])
            THEN << <<l, "C18c_lock_left", info[e.p.lock].op, info[e.p.lock].exit, info[e.p.lock].xq>> >>
            ELSE <<>>
      [] OTHER -> <<>>

Step ==
    /\ l <= Len(Ev(tid))
    /\ LET e   == Ev(tid)[l]
           z   == e.z
           SF2 == Apply(SF, e, AsIs)
           ST2 == Apply(ST, e, Fixed)
           dF  == ~driftF /\ ~Fits(SF, SF2, e)
           dT  == ~driftT /\ ~Fits(ST, ST2, e)
       IN
       /\ SF' = SF2 /\ ST' = ST2
       /\ driftF' = (driftF \/ dF) /\ driftT' = (driftT \/ dT)
       /\ fail' = fail \o Clauses(e)
                       \o (IF dF THEN << <<l, "DRIFT_F", e.k, "", "">> >> ELSE <<>>)
                       \o (IF dT THEN << <<l, "DRIFT_T", e.k, "", "">> >> ELSE <<>>)
       /\ cv' = IF e.k = "bump" THEN [cv EXCEPT ![z] = e.a] ELSE cv
       /\ act' = CASE e.k \in {"start", "fu"} -> [act EXCEPT ![z] = TRUE]
                   [] e.k = "end" -> [act EXCEPT ![z] = FALSE]
                   [] OTHER -> act
       /\ acc' = CASE e.k \in {"start", "fu"} -> [acc EXCEPT ![z] = IF cfresh THEN since[z] ELSE {cv[z]}]
                   [] e.k = "vread" -> [y \in ZS |-> IF act[y] /\ ~armed[y] THEN {cv[y]} ELSE acc[y]]
                   [] e.k = "bump" -> [acc EXCEPT ![z] = IF act[z] THEN @ \cup {e.a} ELSE @]
                   [] OTHER -> acc
       /\ armed' = CASE e.k \in {"start", "fu"} -> [armed EXCEPT ![z] = FALSE]
                     [] e.k = "vread" -> [y \in ZS |-> armed[y] \/ act[y]]
                     [] OTHER -> armed
       /\ cfresh' = CASE e.k = "vread" -> TRUE
                      [] e.k = "age" -> FALSE
                      [] OTHER -> cfresh
       /\ stale0' = IF e.k \in {"start", "fu"} THEN [stale0 EXCEPT ![z] = ~cfresh] ELSE stale0
       /\ since' = CASE e.k = "vread" -> [y \in ZS |-> {cv[y]}]
                     [] e.k = "bump" -> [since EXCEPT ![z] = @ \cup {e.a}]
                     [] OTHER -> since
       /\ info' = CASE e.k \in {"start", "fu"} ->
                         [info EXCEPT ![z] = [op |-> e.s, exit |-> "none", xq |-> "none", wr |-> e.c, tid |-> e.a,
                              \* what the transfer meets when it is called (only used to name a failure)
                              cause |-> IF e.p.lock \notin {0, z} THEN "lockheld"
                                        ELSE IF \E i \in 1..Len(e.p.zs[z].pset) : e.p.zs[z].pset[i] = Ack THEN "ackinset"
                                        ELSE ""]]
                    [] e.k = "xq" -> [info EXCEPT ![z].xq = e.s]
                    [] e.k = "locked" -> [info EXCEPT ![z].xq = "locked"]
                    [] e.k = "end" -> [info EXCEPT ![z].exit = e.s]
                    [] OTHER -> info
       /\ leftAtMain' = IF e.k = "mainend" THEN e.p.lock ELSE leftAtMain
    /\ l' = l + 1 /\ UNCHANGED tid

Spec == Init /\ [][Step]_vars
Verdict == (l > Len(Ev(tid))) => PrintT(<<"VERDICT", tid, fail>>)
=============================================================================

---------------------------- MODULE MC_SchedXfer ----------------------------
(* Bounded instances of SchedXfer (C18).  Configurations:
     MC_SchedXfer.cfg       code as it is (FixLock = FixAck = FALSE): clauses that must hold + the two C18c
                            clauses, which TLC is expected to refute (the counter-examples are
                            replayed on the real code by checks/c18.py)
     MC_SchedXfer_fix.cfg   repaired action (FixLock = FixAck = TRUE): every clause must hold
     MC_SchedXfer_live.cfg  liveness (every transfer ends) under fairness, FixLock = FixAck = FALSE
     MC_SchedXfer_nozlib.cfg  ZlibDetects = FALSE: shows that NeverMixed rests on the checksum *)
EXTENDS SchedXfer

\* keeps the state space finite and the counter small
Bound == ctr <= 6 /\ Len(h) <= 12

\* the history variable is not part of the state's identity for invariant checking ...
View == <<G, late, ctr, cver, phase, cnt, ct, lastEnded, fuDone, lockAtMainEnd>>

\* scenario enumeration for the harness: every maximal behaviour's environment choices, once per
\* set of choices (the order of independent choices is not part of the identity)
HSet  == {h[i] : i \in DOMAIN h}
ViewH == <<View, HSet>>
ScenarioOut == phase = "end" => PrintT(<<"H", h>>)
=============================================================================

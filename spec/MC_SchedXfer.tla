---------------------------- MODULE MC_SchedXfer ----------------------------
(* Bounded instances of SchedXfer (C18).  Configurations:
     MC_SchedXfer.cfg       code as it is (FixLock = FixAck = FALSE): clauses that must hold + the two C18c
                            clauses, which TLC is expected to refute (the counter-examples are
                            replayed on the real code by checks/c18.py)
     MC_SchedXfer_fix.cfg   repaired action (FixLock = FixAck = TRUE): every clause must hold
     MC_SchedXfer_live.cfg  liveness (every transfer ends) under fairness, FixLock = FixAck = FALSE
     MC_SchedXfer_nozlib.cfg  ZlibDetects = FALSE: shows that NeverMixed rests on the checksum
     MC_SchedXfer_age.cfg   (thorough) as-is, three transfers (reads + writes), one edit, one ageing of the cached
                            counter, one overheard RP|0006: ResultAsOfRead (freshness window in the contract) must hold
     MC_SchedXfer_head.cfg / _head_fix.cfg   edits that leave fragment 1 unchanged (below)
     MC_SchedXfer_ageignored.cfg  SpecAgeIgnored (below): ResultAsOfRead must be refuted
     MC_SchedXfer_scen_age.cfg    two transfers, one edit, one ageing: the clauses must hold, and every maximal behaviour
                            is printed (scenario enumeration; each is executed with a sweep of elapsed times) *)
EXTENDS SchedXfer

\* keeps the state space finite and the counter small
Bound == ctr <= 6 /\ Len(h) <= 12

\* the history variable is not part of the state's identity for invariant checking ...
View == <<G, late, ctr, cver, phase, cnt, ct, lastEnded, fuDone, lockAtMainEnd>>

\* scenario enumeration for the harness: every maximal behaviour's environment choices, once per
\* set of choices (the order of independent choices is not part of the identity)
HSet  == {h[i] : i \in DOMAIN h}
ViewH == <<View, HSet>>
ScenarioOut == phase = "end" => PrintT(<<"H", h>>)

\* An edit that leaves the first fragment as it was (MC_SchedXfer_head.cfg, Shared <- SharedHead): versions 1 and 3 start
\* with the bytes of versions 0 and 2.  The code as it is (the three repairs made so far; FixHead = FALSE) re-validates a
\* cached fragment set by its first fragment alone: ResultAsOfRead must be refuted.  MC_SchedXfer_head_fix.cfg
\* (FixHead <- Yes: the whole cached set is dropped when the counter has gone up): every clause holds.
SharedHead == [c \in 0..7 |-> IF c \in {1, 3} THEN {1} ELSE {}]
Yes == TRUE

\* Teeth of the freshness window (MC_SchedXfer_ageignored.cfg): a gateway whose cached change counter never expires
\* (the window passes for the environment, Expired, but the gateway goes on believing its counter is fresh).
\* ResultAsOfRead must be refuted: get, edit on the controller, ageing, unforced get -> the cached, outdated schedule.
AgeIgnored ==
    /\ phase = "main" /\ cnt.age < MaxAge /\ G.fresh /\ ~AnyActive
    /\ cnt' = [cnt EXCEPT !.age = @ + 1]
    /\ ct' = Expired(ct)
    /\ h' = Append(h, Ev("age", 0, 0, 0, 0))
    /\ UNCHANGED <<G, late, ctr, cver, phase, lastEnded, fuDone, lockAtMainEnd>>
NextAgeIgnored == \/ \E z \in Zones, op \in {"get", "set"}, f \in BOOLEAN : StartXfer(z, op, IF op = "get" THEN f ELSE FALSE)
                  \/ \E z \in Zones, o \in {"ok", "lost", "rlost"} : Exch(z, o)
                  \/ \E z \in Zones, w \in {"cancel", "timeout"} : Abort(z, w)
                  \/ \E m \in late : Late(m)
                  \/ \E z \in Zones : Spin(z) \/ StuckTimeout(z) \/ Bump(z) \/ StartFu(z)
                  \/ HeardVer \/ AgeIgnored \/ ToFollowUp \/ Finish \/ Over
SpecAgeIgnored == Init /\ [][NextAgeIgnored]_vars
=============================================================================

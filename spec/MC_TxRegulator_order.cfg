SPECIFICATION Spec
CONSTANTS
  Rate <- RateV
  Cap <- CapV
  Gap <- GapV
  Writers = {1, 2}
  Sizes <- SizesV
  InitBucket <- InitV
  AdvSteps <- AdvV
  CallUntil = 6000
  MaxTime = 200000
  Serialised = FALSE
INVARIANT TypeOK
INVARIANT ShadowBound
INVARIANT Spacing
INVARIANT NoDup
INVARIANT AllWritten
INVARIANT Prompt
INVARIANT InOrder

\* implementation-shaped instance: range check of hex_from_temp absent -> InvE is expected to fail (candidate, replayed on the code); other grids minimal
SPECIFICATION Spec
CONSTANTS
  Impl <- ImplTempWrap
  TempKs <- TempKsWrap
  DblKs <- One
  Years <- Year1
  Hours <- One
  Mins <- One
  Secs <- One
  YYs <- YY01
  DtsHours <- One
  IdNs <- One
  StrAlphabet <- One
  StrMaxLen = 1
INVARIANT InvA
INVARIANT InvB
INVARIANT InvC
INVARIANT InvD
INVARIANT InvE

SPECIFICATION Spec
CONSTANT Deep = TRUE
INVARIANT TypeOK
INVARIANT EchoRecognised
INVARIANT ReplyRecognised
INVARIANT NearMissRejected
INVARIANT FsmA
INVARIANT FsmB
INVARIANT FsmC
INVARIANT TripIsReal

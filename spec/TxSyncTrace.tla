----------------------------- MODULE TxSyncTrace -----------------------------
(* C11 - executions of the real PortTransport (FakeSerial, virtual clocks) with controller sync
   announcements on the air, compared with TxSync (drift only - the property clauses of these very
   executions are judged by TxTrace: written once, unaltered, in order, by the end).

   An item:  [rx, calls, passes]   (times in ticks of 0.1 ms)
     rx      <<[t, dtm, src, rem]>>  I|1F09|003 delivered by PortTransport._pkt_read at t, stamped dtm (the read's
                             time cut to milliseconds); rem = its "remaining"
     calls   <<[id, t]>>          write_frame(frame) entered with a bucket that needs no wait
     passes  <<[id, t]>>          the body of PortTransport.write_frame (the semaphore stage) was reached

   For every call TLC evaluates TxSync's own operators (Tracked, Imminent, the loop of Call/Wake/WakeLong)
   over the announcements delivered so far and compares the instant the stage is left.  The harness keeps
   announcements and polls 0.3 ms apart, so "delivered before the poll" is never a tie.                     *)
EXTENDS Integers, Sequences, Json, IOUtils, TLC

S == INSTANCE TxSync WITH Lower <- 80, Upper <- 1088, Short <- 100, Long <- 840, MaxTracked <- 3,
                          Srcs <- {}, Rems <- {}, Writers <- {}, AdvSteps <- {}, MaxRx <- 0, MaxTime <- 0,
                          now <- 0, syncs <- <<>>, pc <- <<>>, start <- <<>>, wake <- <<>>, sleeps <- <<>>,
                          passed <- <<>>, nrx <- 0, h <- <<>>

Traces == JsonDeserialize(IOEnv.TRACE_FILE)
VARIABLES tid, l, fail
tvars == <<tid, l, fail>>
TolT == 10

(* the deque as PortTransport has it just before instant t *)
RECURSIVE DequeAt(_, _, _)
DequeAt(rx, i, t) == IF i = 0 THEN <<>>
                     ELSE IF rx[i].t >= t THEN DequeAt(rx, i - 1, t)
                     ELSE S!Tracked(DequeAt(rx, i - 1, t), rx[i].src, rx[i].dtm + rx[i].rem, rx[i].t)

(* the instants at which a caller entering at st may leave the stage: <<as on a real clock, on an exact clock>> *)
RECURSIVE Leave(_, _, _, _)
Leave(rx, st, t, n) ==
  LET r1 == S!AfterTest(DequeAt(rx, Len(rx), t), t, st, n, FALSE)
      r2 == S!AfterTest(DequeAt(rx, Len(rx), t), t, st, n, TRUE)
  IN IF n > 400 THEN <<-1, -1>>
     ELSE IF r1.pc = "loop" THEN Leave(rx, st, t + 100, n + 1)
     ELSE << IF r1.pc = "long" THEN r1.wake ELSE t, IF r2.pc = "long" THEN r2.wake ELSE t >>

PassOf(t, id) == IF \E i \in 1..Len(t.passes) : t.passes[i].id = id
                 THEN t.passes[CHOOSE i \in 1..Len(t.passes) : t.passes[i].id = id].t ELSE -1
Near(a, b) == a - b <= TolT /\ b - a <= TolT

FailOf(t, c) ==
  LET p == PassOf(t, c.id)  lv == Leave(t.rx, c.t, c.t, 0) IN
  IF p = -1 THEN "drift:sync:never_left_the_stage"
  ELSE IF lv[1] = -1 THEN "drift:sync:model_loops"
  ELSE IF Near(p, lv[1]) \/ Near(p, lv[2]) THEN ""
  ELSE IF p < lv[1] /\ p < lv[2] THEN "drift:sync:left_early"
  ELSE "drift:sync:left_late"

Init == tid \in 1..Len(Traces) /\ l = 1 /\ fail = <<>>
Step == /\ l <= Len(Traces[tid].calls)
        /\ LET t == Traces[tid]  c == FailOf(t, t.calls[l]) IN
             fail' = IF fail = <<>> /\ c # "" THEN <<l, c, t.calls[l].id>> ELSE fail
        /\ l' = l + 1 /\ UNCHANGED tid
Spec == Init /\ [][Step]_tvars
Verdict == (l > Len(Traces[tid].calls)) => PrintT(<<"VERDICT", tid, fail>>)
=============================================================================

------------------------------ MODULE GwyLife ------------------------------
(***************************************************************************)
(* The life cycle of an Engine / Gateway and its protocol: start(), stop(), *)
(* start() again, a port that dies, a port that stays silent.               *)
(*                                                                         *)
(* Transcribed from (one operator per statement group of the real code):   *)
(*   ramses_tx/gateway.py   Engine.start / Engine.stop                      *)
(*   ramses_tx/transport.py transport_factory (the wait for the first      *)
(*                          connection_made), _ReadTransport._close         *)
(*   ramses_tx/protocol.py  _BaseProtocol.connection_made / connection_lost *)
(*                          / wait_for_connection_made / _lost,             *)
(*                          _DeviceIdFilterMixin._set_active_hgi,           *)
(*                          PortProtocol.connection_made / connection_lost  *)
(*   ramses_tx/protocol_fsm.py  Inactive <-> IsInIdle on connection events  *)
(*                                                                         *)
(* The send machinery itself is QosFsm's subject; here the context is only  *)
(* Inactive / Idle.  The functional core (operators on a record `g`) is     *)
(* shared with GwyLifeTrace, which folds the events recorded from a real    *)
(* Gateway (harness/qos_gw.py) through the same operators.                  *)
(*                                                                         *)
(* Fix flags describe the two repairs made in /repo:                        *)
(*   active  4ae8653  connection_lost() forgets the active gateway id       *)
(*   shield  c585bb2  a time-out in wait_for_connection_made() does not     *)
(*                    cancel the protocol's future                          *)
(* With either flag off TLC refutes NoTrip / Restartable (the MC_GwyLife_x instances).  *)
(***************************************************************************)
EXTENDS Naturals, Sequences, FiniteSets

CONSTANTS MaxTp,      \* transports that may be created in a behaviour
          Silent,     \* subset of 1..MaxTp: ports that never announce a connection
          FixActive, FixShield,
          Overlap     \* TRUE: the application may call stop() while its start() is still running

Tps == 1..MaxTp

G0 == [ tp     |-> 0,          \* Engine._transport: 0 = None, else the k-th transport made
        ntp    |-> 0,          \* transports made so far
        closed |-> {},         \* transports whose _closing flag is set
        made   |-> "pend",     \* protocol._wait_connection_made: pend | done | cancelled
        ptp    |-> 0,          \* protocol._transport
        lost   |-> "none",     \* protocol._wait_connection_lost: none | pend | done | cancelled
        lostE  |-> FALSE,      \* ... resolved with an exception (the cause of the loss)
        act    |-> FALSE,      \* protocol._active_hgi is set
        ctx    |-> "Inactive", \* the QoS context: Inactive | Idle
        st     |-> "none",     \* start(): none | wait (for connection_made, inside the factory) | wait2 (Engine.start's own wait)
        stTp   |-> 0,          \*   the transport that start() is waiting for
        stW    |-> FALSE,      \*   the future it awaits has been resolved (its wake-up is on its way, whatever happens next)
        sp     |-> "none",     \* stop(): none | cancel (cancelling / gathering the tracked tasks) | wait (for connection_lost)
        q      |-> <<>>,       \* call_soon()ed protocol callbacks, FIFO: <<"made"|"lost", k, err>>
        ann    |-> {},         \* live transports that have not yet announced their connection
        trips  |-> {},         \* assertions of the library that tripped / exceptions of the wrong kind
        rets   |-> <<>> ]      \* what the last start()/stop() to return returned: << <<op, outcome>> >> (history-free)

\* ---- the protocol's callbacks -------------------------------------------------------------------
\* PortProtocol.connection_made(transport k, ramses=True)
ConnMade(g, k) ==
  LET base == IF g.made # "pend"                \* _BaseProtocol: "if self._wait_connection_made.done(): return"
              THEN g
              ELSE [g EXCEPT !.lost = "pend", !.lostE = FALSE, !.made = "done", !.ptp = k,
                             !.stW = (g.st \in {"wait", "wait2"})]
  IN IF base.ptp = 0                            \* self._transport.get_extra_info(...) on None
     THEN [base EXCEPT !.trips = @ \cup {"made:no-transport"}]
     ELSE IF base.act                           \* _set_active_hgi: assert self._active_hgi is None
     THEN [base EXCEPT !.trips = @ \cup {"made:active-assert"}]
     ELSE [base EXCEPT !.act = TRUE,
                       !.ctx = "Idle"]          \* Inactive.connection_made -> IsInIdle (IsInIdle: stays)

\* PortProtocol.connection_lost(err)
ConnLost(g, err) ==
  IF g.lost = "none"                            \* assert self._wait_connection_lost
  THEN [g EXCEPT !.trips = @ \cup {"lost:never-made"}]
  ELSE LET base == IF g.lost \in {"done", "cancelled"} THEN g    \* "if self._wait_connection_lost.done(): return"
                   ELSE [g EXCEPT !.made = "pend", !.lost = "done", !.lostE = err]
       IN [base EXCEPT !.act = IF FixActive THEN FALSE ELSE @,
                       !.ctx = "Inactive"]

\* ---- transports -----------------------------------------------------------------------------------
\* _ReadTransport._close(): once only; tells the protocol via call_soon
Close(g, k, err) ==
  IF k \in g.closed THEN g
  ELSE [g EXCEPT !.closed = @ \cup {k}, !.q = Append(@, <<"lost", k, err>>), !.ann = @ \ {k}]

\* ---- Engine.start() ---------------------------------------------------------------------------------
\* up to the first await inside transport_factory: a new transport exists, the factory waits for its announcement
StartCallS(g, silent) ==
  LET k == g.ntp + 1 IN
  [g EXCEPT !.ntp = k, !.st = "wait", !.stTp = k, !.stW = (g.made = "done"),   \* (a future already resolved answers at once)
            !.ann = IF silent THEN @ ELSE @ \cup {k}]
StartCall(g) == StartCallS(g, (g.ntp + 1) \in Silent)

\* the transport has identified its gateway: call_soon(protocol.connection_made)
Announce(g, k) == [g EXCEPT !.ann = @ \ {k}, !.q = Append(@, <<"made", k, FALSE>>)]

\* wait_for_connection_made() was satisfied: the factory returns the transport; Engine.start() keeps it and asks once more -
\* answered at once if the protocol's future (as it is by now) is resolved, else it waits again (1 s)
StartOk(g)   == [g EXCEPT !.st = "none", !.stW = FALSE, !.rets = <<<<"start", "ok">>>>]
FactoryOk(g) == LET h == [g EXCEPT !.tp = g.stTp] IN
                IF h.made = "done" THEN StartOk(h)
                ELSE IF h.made = "cancelled"
                THEN [h EXCEPT !.st = "none", !.stW = FALSE, !.trips = @ \cup {"start:CancelledError"},
                               !.rets = <<<<"start", "CancelledError">>>>]
                ELSE [h EXCEPT !.st = "wait2", !.stW = FALSE]

\* ... or the time-out of either wait fires first: TransportError (the engine keeps whatever transport it has by then)
StartTimeout(g) ==
  [g EXCEPT !.st = "none", !.stW = FALSE, !.made = IF FixShield THEN @ ELSE "cancelled",
            !.rets = <<<<"start", "TransportError">>>>]

\* ... or the future it awaits had been cancelled by an earlier time-out: CancelledError at once
StartCancelled(g) ==
  [g EXCEPT !.st = "none", !.stW = FALSE, !.trips = @ \cup {"start:CancelledError"}, !.rets = <<<<"start", "CancelledError">>>>]

\* ---- Engine.stop() -----------------------------------------------------------------------------------
\* cancel the tracked tasks and gather them (this may take loop iterations) ...
StopCall(g) == [g EXCEPT !.sp = "cancel"]

\* ... then close the transport the engine holds by now, if any, and wait for connection_lost
\* (wait_for_connection_lost() picks the future up when it is called; one that is already resolved is answered at once)
StopClose(g) ==
  LET c == IF g.tp # 0 THEN Close(g, g.tp, FALSE) ELSE g IN
  IF g.tp = 0 \/ c.lost = "none" THEN [c EXCEPT !.sp = "none", !.rets = <<<<"stop", "ok">>>>]   \* nothing to wait for
  ELSE IF c.lost = "done"
  THEN [c EXCEPT !.sp = "none", !.rets = <<<<"stop", IF c.lostE THEN "TransportError" ELSE "ok">>>>]
  ELSE IF c.lost = "cancelled"               \* awaiting a cancelled future
  THEN [c EXCEPT !.sp = "none", !.trips = @ \cup {"stop:CancelledError"}, !.rets = <<<<"stop", "CancelledError">>>>]
  ELSE [c EXCEPT !.sp = "wait"]

StopDone(g) ==
  [g EXCEPT !.sp = "none", !.rets = <<<<"stop", IF g.lostE THEN "TransportError" ELSE "ok">>>>]

\* wait_for_connection_lost() times out (1 s): asyncio.wait_for cancels the protocol's future - as the code is
StopTimeout(g) ==
  [g EXCEPT !.sp = "none", !.lost = "cancelled", !.rets = <<<<"stop", "TransportError">>>>]

\* =======================================================================================================
VARIABLE g
vars == <<g>>

Init == g = G0

\* the application starts only an engine that is not running: no start or stop in progress, no live transport in its
\* hands, and - if the port died - the protocol has been told (that is how the application learns of it)
CanStart == /\ g.st = "none" /\ g.sp = "none" /\ g.ntp < MaxTp
            /\ (g.tp = 0 \/ (g.tp \in g.closed /\ ~(\E n \in 1..Len(g.q) : g.q[n][1] = "lost")))
CanStop  == g.sp = "none" /\ (Overlap \/ g.st = "none")

AStartCall == CanStart /\ g' = StartCall(g)
AAnnounce  == \E k \in g.ann : g' = Announce(g, k)
ARunCb     == /\ g.q # <<>>
              /\ LET h == Head(g.q)  r == [g EXCEPT !.q = Tail(@)] IN
                 g' = IF h[1] = "made" THEN ConnMade(r, h[2]) ELSE ConnLost(r, h[3])
\* a time-out only beats something that is not going to happen: nothing announced, nothing queued
NoMadeComing == g.stTp \notin g.ann /\ ~(\E n \in 1..Len(g.q) : g.q[n][1] = "made")
NoLostComing == ~(\E n \in 1..Len(g.q) : g.q[n][1] = "lost")
AStartRet  == \/ /\ g.st = "wait"
                 /\ \/ g.stW /\ g' = FactoryOk(g)
                    \/ ~g.stW /\ g.made = "cancelled" /\ g' = StartCancelled(g)
                    \/ ~g.stW /\ g.made = "pend" /\ NoMadeComing /\ g' = StartTimeout(g)
              \/ /\ g.st = "wait2"
                 /\ \/ g.stW /\ g' = StartOk(g)
                    \/ ~g.stW /\ g.made = "pend" /\ NoMadeComing /\ g' = StartTimeout(g)
AStopCall  == CanStop /\ g' = StopCall(g)
AStopClose == g.sp = "cancel" /\ g' = StopClose(g)
AStopRet   == /\ g.sp = "wait"
              /\ \/ g.lost = "done" /\ g' = StopDone(g)
                 \/ g.lost = "pend" /\ NoLostComing /\ g' = StopTimeout(g)
\* the port dies under the engine (serial_asyncio _abort, a failed publish): the transport closes itself, with a cause or not
ADied      == \E k \in Tps : \E err \in BOOLEAN :
                 k <= g.ntp /\ k \notin g.closed /\ k \notin g.ann /\ g.ptp = k /\ g' = Close(g, k, err)

Next == AStartCall \/ AAnnounce \/ ARunCb \/ AStartRet \/ AStopCall \/ AStopClose \/ AStopRet \/ ADied

Spec == Init /\ [][Next]_vars
Fair == Spec /\ WF_vars(AAnnounce) /\ WF_vars(ARunCb) /\ WF_vars(AStartRet) /\ WF_vars(AStopClose) /\ WF_vars(AStopRet)

\* ---- consequences ---------------------------------------------------------------------------------------
Quiet == g.q = <<>> /\ g.st = "none" /\ g.sp = "none" /\ g.ann = {}

\* the library's own assertions never trip, start() only ever fails with its TransportError   (C09c/d)
NoTrip == g.trips = {}

\* once start() has returned ok and nothing has happened to the connection, the gateway serves    (C09b)
LastRet == IF g.rets = <<>> THEN <<"none", "none">> ELSE g.rets[Len(g.rets)]
Serving == g.ctx = "Idle" /\ g.act /\ g.ptp = g.tp /\ g.tp \notin g.closed /\ g.made = "done" /\ g.lost = "pend"
StartOkMeansServing == (Quiet /\ LastRet = <<"start", "ok">> /\ g.tp \notin g.closed) => Serving

\* once stop() has returned, the sender is inactive and the engine's transport is closed           (C09a)
StopMeansInactive ==
  (Quiet /\ LastRet[1] = "stop") => (g.ctx = "Inactive" /\ (g.tp = 0 \/ g.tp \in g.closed) /\ g.made # "done")

\* whatever happened before, the protocol can be connected again: its future is never left cancelled, and at rest
\* without a connection it is pending and the active gateway is forgotten                              (C09b)
Restartable == g.made # "cancelled" /\ ((Quiet /\ g.ctx = "Inactive") => (g.made = "pend" /\ ~g.act))

\* the context is Idle exactly while the protocol holds a connection
CtxTracksConnection == (g.q = <<>>) => ((g.ctx = "Idle") <=> (g.lost = "pend"))

\* liveness: every start() and stop() returns
StartReturns == (g.st = "wait") ~> (g.st = "none")
StopReturns  == (g.sp # "none") ~> (g.sp = "none")
=============================================================================

SPECIFICATION Spec
CONSTANTS
  MaxLen = 2
  Frames <- FramesC
  Annots <- AnnotsC
INVARIANT InvLogIdentity
INVARIANT InvLineShape

\* Transition coverage (quick): 1 controller, zones 00 and 01 in range, a thermostat and a TRV, class 08,
\* eavesdropping on, both devices may be asked to be faked
CONSTANTS
  Ctls <- MCCtls1
  ZoneIds <- MCZones2
  ZNum <- MCZNum
  MaxZones = 2
  Devs <- MCDevsTC
  PairDevs <- MCDevsTC
  TypeOf <- MCTypeOf
  Classes = {"08"}
  Eavesdrop = TRUE
  FakeDevs <- MCFakeTC
  MaxClaims = 40
SPECIFICATION TCSpec
VIEW TCView
INVARIANT OnePlace
INVARIANT ZonesInRange

SPECIFICATION Spec
INVARIANT Verdict

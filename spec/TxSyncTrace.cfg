SPECIFICATION Spec
INVARIANT Verdict

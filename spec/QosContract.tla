---------------------------- MODULE QosContract ----------------------------
(***************************************************************************)
(* The OBSERVABLE contract of the send machinery (properties C07, C08, C09) *)
(* as an automaton over the events a client / the radio / the event loop   *)
(* can see.  It is deliberately independent of how ProtocolContext works:  *)
(* a refactoring that keeps the properties keeps every clause.             *)
(*                                                                         *)
(* Events (records, all fields always present):                            *)
(*   e  kind: Call Write WriteFail Rx Return Raise Hang NoticeStart        *)
(*            NoticeEnd ConnLost ConnMade Pause Resume LoopExc Quiesce     *)
(*            Probe End                                                    *)
(*   t  virtual time, units of 1e-7 s      i  caller id (0 = none/notice)  *)
(*   k,s strings; n,p,a,b integers  (meaning per event, see Step)          *)
(*                                                                         *)
(* Each clause cites the sentence of properties.jsonl it formalises        *)
(* (DESIGN.md Appendix A).  Step is TOTAL: it never disables; the first    *)
(* failing clause is recorded in `fail`.                                   *)
(***************************************************************************)
EXTENDS Naturals, Integers, Sequences, FiniteSets

CONSTANTS MaxId          \* caller ids are 1..MaxId

Ids       == 1..MaxId
Slack     == 10          \* 1 us: "same virtual instant" (one loop iteration, J3)
RoundSl   == 10000       \* 1 ms of float rounding (J3)
Inf       == 2000000000
RetryCap  == 3           \* "1 + min(max_retries, 3)"            (hard-wired, J13)
BackoffCap == 8          \* "doubling (up to 8x)"                (hard-wired, J13)

Min(a, b) == IF a < b THEN a ELSE b
Abs(x)    == IF x < 0 THEN 0 - x ELSE x
Near(a, b) == Abs(a - b) <= RoundSl

S0 == [ callT  |-> [i \in Ids |-> -1],   \* time of Call
        qT     |-> [i \in Ids |-> -1],   \* time the command itself was offered to the queue
        seq    |-> [i \in Ids |-> 0],    \* order of queueing
        mr     |-> [i \in Ids |-> 0],
        rep    |-> [i \in Ids |-> 0],    \* num_repeats the caller asked for (> 1: every attempt is a burst by request;
                                         \* the counting clauses C08a-c are then not judged for that caller)
        prio   |-> [i \in Ids |-> 0],
        to     |-> [i \in Ids |-> 0],    \* min(timeout, 20 s)
        nw     |-> [i \in Ids |-> 0],    \* transmissions so far
        lastW  |-> [i \in Ids |-> -1],
        lastGap|-> [i \in Ids |-> -1],   \* previous gap if it followed an unanswered attempt, else -1
        rxSince|-> [i \in Ids |-> FALSE],\* own echo/reply seen since last transmission
        dist   |-> [i \in Ids |-> FALSE],\* disturbed: connection lost / write failed / paused while live
        ended  |-> [i \in Ids |-> FALSE],
        aband  |-> [i \in Ids |-> FALSE],\* the caller itself abandoned the call (outer cancel)
        endT   |-> [i \in Ids |-> -1],
        nStart |-> [i \in Ids |-> -1],
        nDur   |-> [i \in Ids |-> 0],
        nseq   |-> 0,
        down   |-> FALSE ]

Budget(s, i) == 1 + Min(s.mr[i], RetryCap)

\* look-ahead: when does caller j get its answer (Inf if never within the trace)
EndTime(ev, j) ==
  LET L == {l \in 1..Len(ev) : ev[l].e \in {"Return", "Raise"} /\ ev[l].i = j}
  IN IF L = {} THEN Inf ELSE ev[CHOOSE l \in L : \A m \in L : l <= m].t

Live(s, j) == s.callT[j] >= 0 /\ ~s.ended[j]

PowersOk(gap, base) == \E m \in 0..3 : Near(gap, base * (2 ^ m))

\* ---------------------------------------------------------------------------------------------
\* Clause evaluation: Bad(s, ev, l) = "" if event l is fine in state s, else the clause id.

BadWrite(s, ev, e, echoTo, timed) ==
  LET i == e.i  t == e.t IN
  IF i \notin Ids THEN ""                     \* notice / probe frames are not judged here
  ELSE IF s.callT[i] < 0 THEN "C08d_write_without_call"
  \* a caller that asked for bursts (num_repeats > 1) is outside the statement's quantifier (QoS settings are
  \* wait_for_reply x max_retries x timeout): its own transmissions are not judged - everybody else's are
  ELSE IF s.rep[i] > 1 THEN ""
  \* C08a "sent exactly 1 + min(max_retries, 3) times, no more"
  ELSE IF s.rep[i] <= 1 /\ s.nw[i] + 1 > Budget(s, i) THEN "C08a_over_budget"
  \* C08d "once its caller has been given a result or an error it is never transmitted again"
  ELSE IF s.ended[i] /\ ~s.aband[i] /\ t > s.endT[i] + Slack THEN "C08d_write_after_answer"
  \* C08e "At most one command is awaiting its echo/reply at any moment"
  ELSE IF \E j \in Ids : j # i /\ s.nw[j] > 0 /\ ~s.aband[j] /\ EndTime(ev, j) > t + Slack
       THEN "C08e_two_in_flight"
  \* C08f "queued commands start in priority order, first-come-first-served within a priority"
  ELSE IF s.nw[i] = 0 /\ \E j \in Ids :
            /\ j # i /\ s.qT[j] >= 0 /\ s.nw[j] = 0 /\ s.qT[j] < t - Slack
            /\ EndTime(ev, j) > t + Slack
            /\ (s.prio[j] < s.prio[i] \/ (s.prio[j] = s.prio[i] /\ s.seq[j] < s.seq[i]))
       THEN "C08f_start_order"
  \* C08c "the wait doubling (up to 8x) after each unanswered attempt" (judged on attempts that
  \*      got no echo at all; base = the context's echo time-out, read from the object, J13)
  ELSE IF timed /\ s.rep[i] <= 1 /\ s.nw[i] >= 1 /\ ~s.rxSince[i] /\ ~s.dist[i] /\ ~PowersOk(t - s.lastW[i], echoTo)
       THEN "C08c_gap_not_on_backoff_grid"
  ELSE IF timed /\ s.rep[i] <= 1 /\ s.nw[i] >= 1 /\ ~s.rxSince[i] /\ ~s.dist[i] /\ s.lastGap[i] > 0
          /\ ~Near(t - s.lastW[i], Min(2 * s.lastGap[i], BackoffCap * echoTo))
       THEN "C08c_gap_not_doubled"
  ELSE ""

BadAnswer(s, e, echoTo, timed) ==
  LET i == e.i  t == e.t IN
  IF i \notin Ids \/ s.callT[i] < 0 THEN "C07_answer_without_call"
  ELSE IF s.ended[i] THEN "C07_answered_twice"
  \* C07a/d "returns a packet that belongs to that command (its own echo, or ... the matching
  \*        reply) ... never returns another command's packet"
  ELSE IF e.e = "Return" /\ e.k = "other" THEN "C07d_other_commands_packet"
  ELSE IF e.e = "Return" /\ e.k \notin {"echo", "reply", "echo_like", "reply_like"} THEN "C07a_foreign_packet"
  \* C07b "or it raises an error of the library's protocol-error family"
  ELSE IF e.e = "Raise" /\ e.k \notin {"protocol", "outer_timeout", "cancelled"} THEN "C07b_error_family"
  \* C07e "within the caller's timeout (capped at 20 s) measured from the call, plus only the
  \*       time taken by a mandatory impersonation notice"
  ELSE IF timed /\ e.k \notin {"outer_timeout", "cancelled"} /\ t - s.callT[i] - s.nDur[i] > s.to[i] + RoundSl
       THEN "C07e_late"
  \* C08b "and -- if its timeout allows -- no fewer" (J4: undisturbed, not cut short by the caller's
  \*       own time-out, at least one transmission made)
  ELSE IF timed /\ e.e = "Raise" /\ e.k = "protocol" /\ s.rep[i] <= 1 /\ s.nw[i] >= 1 /\ ~s.dist[i]
          /\ t - s.callT[i] - s.nDur[i] < s.to[i] - RoundSl /\ s.nw[i] < Budget(s, i)
       THEN "C08b_gave_up_early"
  \* C08b, the other way round: the caller's own time-out ended the call with transmissions left in the budget - then the
  \*       machinery must have been retrying up to then: an attempt lasts at most 8x the echo wait plus 8x the reply wait
  ELSE IF timed /\ e.e = "Raise" /\ e.k = "protocol" /\ s.rep[i] <= 1 /\ s.nw[i] >= 1 /\ ~s.dist[i]
          /\ s.nw[i] < Budget(s, i) /\ t - s.lastW[i] > 2 * BackoffCap * echoTo + RoundSl
       THEN "C08b_retry_not_made"
  ELSE ""

\* timed = FALSE for executions driven by the Director (virtual time is not meaningful there)
Bad(s, ev, l, echoTo, timed) ==
  LET e == ev[l] IN
  CASE e.e = "Write"   -> BadWrite(s, ev, e, echoTo, timed)
    [] e.e \in {"Return", "Raise"} -> BadAnswer(s, e, echoTo, timed)
    \* C07c "never hangs"
    [] e.e = "Hang"    -> "C07c_hang"
    \* C09a "the sender ... keeps serving": the event-loop thread itself must never block for ever
    [] e.e = "Deadlock" -> "C09a_event_loop_thread_blocked"
    \* C09c "the sender's own internal consistency checks never trip"
    \* C09d "no exception is left unhandled in the event loop"
    [] e.e = "LoopExc" -> IF e.a = 1 THEN "C09c_consistency_check_tripped" ELSE "C09d_loop_exception"
    \* C09a "once traffic stops the sender is idle (or inactive if disconnected) with nothing in
    \*       flight, every caller has been answered"
    [] e.e = "Quiesce" -> IF e.k # (IF e.s = "up" THEN "IsInIdle" ELSE "Inactive") THEN "C09a_not_idle"
                          ELSE IF e.a # 1 \/ e.n # 0 \/ e.b # 1 THEN "C09a_something_in_flight"
                          ELSE IF \E j \in Ids : Live(s, j) THEN "C09a_caller_unanswered"
                          ELSE ""
    \* C09b "a fresh command sent to a responsive device succeeds"
    [] e.e = "Probe"   -> IF e.k # "ok" THEN "C09b_probe_failed" ELSE ""
    [] OTHER -> ""

\* ---------------------------------------------------------------------------------------------
\* State update (total)

Upd(s, e) ==
  LET i == e.i  t == e.t IN
  CASE e.e = "Call" /\ i \in Ids ->
         [s EXCEPT !.callT[i] = t, !.mr[i] = e.n, !.rep[i] = e.r, !.prio[i] = e.p, !.to[i] = e.a,
                   !.qT[i] = IF e.k = "IMP" THEN -1 ELSE t,
                   !.seq[i] = s.nseq + 1, !.nseq = s.nseq + 1]
    [] e.e = "NoticeStart" /\ i \in Ids -> [s EXCEPT !.nStart[i] = t]
    [] e.e = "NoticeEnd" /\ i \in Ids ->
         [s EXCEPT !.nDur[i] = IF s.nStart[i] >= 0 THEN t - s.nStart[i] ELSE 0,
                   !.qT[i] = t, !.seq[i] = s.nseq + 1, !.nseq = s.nseq + 1]
    [] e.e = "Write" /\ i \in Ids ->
         [s EXCEPT !.nw[i] = @ + 1, !.lastW[i] = t,
                   !.lastGap[i] = IF s.nw[i] >= 1 /\ ~s.rxSince[i] /\ ~s.dist[i] THEN t - s.lastW[i] ELSE -1,
                   !.rxSince[i] = FALSE]
    [] e.e = "Rx" /\ i \in Ids -> [s EXCEPT !.rxSince[i] = TRUE]
    [] e.e \in {"Return", "Raise"} /\ i \in Ids ->
         [s EXCEPT !.ended[i] = TRUE, !.endT[i] = t,
                   !.aband[i] = (e.e = "Raise" /\ e.k \in {"outer_timeout", "cancelled"})]
    [] e.e \in {"ConnLost", "WriteFail", "Pause"} ->
         [s EXCEPT !.dist = [j \in Ids |-> s.dist[j] \/ Live(s, j)],
                   !.down = IF e.e = "ConnLost" THEN TRUE ELSE s.down]
    [] e.e = "ConnMade" -> [s EXCEPT !.down = FALSE]
    [] OTHER -> s
=============================================================================

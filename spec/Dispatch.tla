------------------------------ MODULE Dispatch ------------------------------
(***************************************************************************)
(* ramses_rf.dispatcher.process_msg - what happens to one message that the *)
(* protocol hands to the gateway: which devices come into being, whose     *)
(* _handle_msg is scheduled (and in which order), whether the message is   *)
(* counted as processed.  A transcription, statement by statement:         *)
(*                                                                         *)
(*   P1  _check_msg_addrs(msg)          raises for two different devices   *)
(*                                      of one heat type on a heat-only    *)
(*                                      code                               *)
(*   P2  reduce_processing >= DONT_CREATE_ENTITIES (2): stop               *)
(*   P3  _create_devices_from_addrs:                                       *)
(*         src: existing device, else gwy.get_device(src)  (LookupError    *)
(*              = filtered: stop, nothing else happens)                    *)
(*         if src was created just now and dst has the same id: dst = src, *)
(*              done                                                       *)
(*         if eavesdropping is off: done                                   *)
(*         dst: existing device, else - unless src is the active gateway - *)
(*              gwy.get_device(dst) with LookupError suppressed            *)
(*   P4  _check_src_slug: a device of a known class may only send the      *)
(*         codes / verbs of its class                                      *)
(*   P5  _check_dst_slug - only if src is not an HGI-class device, the     *)
(*         verb is not I and dst is not src; only bites when dst is a      *)
(*         Device object of a known class (three hard-wired exceptions)    *)
(*   P6  reduce_processing >= DONT_UPDATE_ENTITIES (1): stop               *)
(*   P7  call_soon(src._handle_msg)                                        *)
(*   P8  one more group of devices, first match:                           *)
(*         1FC9 offer            -> every other device that is binding     *)
(*         dst is 63:262142      -> every other faked device               *)
(*         dst is not src and is a Fakeable device -> dst                  *)
(*         src has an attribute `devices` -> those  (no device class has   *)
(*                                 one: the branch is dead, kept here so   *)
(*                                 that the conformance check would notice *)
(*                                 it coming alive)                        *)
(*   any RamsesException / AssertionError raised on the way is logged and  *)
(*   swallowed; the else-branch counts the message as processed            *)
(*                                                                         *)
(* The input is the tuple of facts the code consults (q); Route(q) is what *)
(* it does.  TLC enumerates every q (module MC_Dispatch) and checks the    *)
(* consequences below; the conformance check computes q for real packets   *)
(* on a real gateway and compares what happened with Route(q).             *)
(***************************************************************************)
EXTENDS Naturals, Sequences, FiniteSets, TLC

Verbs    == {"I", "RQ", "RP", "W"}
DstRel   == {"self", "null", "bcast", "other"}    \* dst id: = src id / --:------ / 63:262142 / another device
SlugCls  == {"generic", "unknown", "known"}       \* None/HGI/DEV/HEA/HVC ; not in CODES_BY_DEV_SLUG ; in it

(* q, the facts consulted:
     rp        0..2      config.reduce_processing
     eav       BOOLEAN   config.enable_eavesdrop
     pairBad   BOOLEAN   P1 raises
     srcEx     BOOLEAN   src is a device already
     srcOk     BOOLEAN   get_device(src) would not raise LookupError
     srcActive BOOLEAN   src is the active gateway's device (gwy.hgi)
     srcHgiCls BOOLEAN   src is of class HGI (any 18: device)
     srcSlug   SlugCls ; srcCode, srcVerb  BOOLEAN   membership of code / verb in the class's table
     verb      Verbs
     dst       DstRel
     dstEx, dstOk BOOLEAN   as for src (dst = "self": those of src)
     dstSlug   SlugCls ; dstHack1 (CTL/RQ/3EF1), dstCode, dstHack2 (W/0001, BDR/RQ/3EF0), dstVerb  BOOLEAN
     dstFake   BOOLEAN   dst's class is Fakeable
     offer     BOOLEAN   code 1FC9, phase offer
     srcHasDevs BOOLEAN  hasattr(src, "devices")
     nBinding, nFaked  0..2   other devices that are binding / faked (src not counted)                    *)

(* P3 *)
SrcDevice(q)   == q.srcEx \/ q.srcOk                      \* src is a Device afterwards (else: LookupError, stop)
SrcCreated(q)  == ~q.srcEx /\ q.srcOk
DstTried(q)    == /\ q.dst # "self" /\ ~q.dstEx
                  /\ ~(SrcCreated(q) /\ q.dst = "self")  \* (vacuous: kept to mirror the early return)
                  /\ q.eav /\ ~q.srcActive
DstCreated(q)  == DstTried(q) /\ q.dstOk
DstDevice(q)   == IF q.dst = "self" THEN SrcDevice(q) ELSE q.dstEx \/ DstCreated(q)

(* P4 *)
SrcSlugRaises(q) == CASE q.srcSlug = "generic" -> FALSE
                      [] q.srcSlug = "unknown" -> TRUE
                      [] OTHER -> ~q.srcCode \/ ~q.srcVerb
(* P5 *)
DstChecked(q)    == ~q.srcHgiCls /\ q.verb # "I" /\ q.dst # "self"
DstSlugRaises(q) == /\ DstChecked(q) /\ DstDevice(q)
                    /\ CASE q.dstSlug = "generic" -> FALSE
                         [] q.dstSlug = "unknown" -> TRUE
                         [] OTHER -> /\ ~q.dstHack1
                                     /\ \/ ~q.dstCode
                                        \/ ~q.dstHack2 /\ ~q.dstVerb

Stage(q) ==    \* where process_msg stops
  IF q.pairBad THEN "P1:raise"
  ELSE IF q.rp >= 2 THEN "P2:reduced"
  ELSE IF ~SrcDevice(q) THEN "P3:filtered"
  ELSE IF SrcSlugRaises(q) THEN "P4:raise"
  ELSE IF DstSlugRaises(q) THEN "P5:raise"
  ELSE IF q.rp >= 1 THEN "P6:reduced"
  ELSE "routed"

Created(q) ==
  IF Stage(q) \in {"P1:raise", "P2:reduced"} THEN {}
  ELSE IF ~SrcDevice(q) THEN {}
  ELSE (IF SrcCreated(q) THEN {"src"} ELSE {}) \cup (IF DstCreated(q) THEN {"dst"} ELSE {})

(* P7, P8: who is scheduled, in order; groups are written as <<tag, count>> *)
Extra(q) ==
  IF q.offer THEN <<"binding", q.nBinding>>
  ELSE IF q.dst = "bcast" THEN <<"faked", q.nFaked>>
  ELSE IF q.dst # "self" /\ DstDevice(q) /\ q.dstFake THEN <<"dst", 1>>
  ELSE IF q.srcHasDevs THEN <<"srcdevs", 1>>
  ELSE <<"none", 0>>

Handled(q) == IF Stage(q) = "routed" THEN << <<"src", 1>>, Extra(q) >> ELSE <<>>

(* nothing is logged as an error: the message was routed, or set aside by reduce_processing (the else-branch of
   the try - message logged, added to the message store if there is one - is only reached when it was routed) *)
Processed(q) == Stage(q) \in {"routed", "P2:reduced", "P6:reduced"}

Route(q) == [stage |-> Stage(q), created |-> Created(q), handled |-> Handled(q), processed |-> Processed(q)]

-----------------------------------------------------------------------------
(* Consequences, for every q (checked by TLC on MC_Dispatch): *)

\* a message that is refused anywhere reaches no entity
RefusedReachesNobody(q) == Stage(q) # "routed" => Handled(q) = <<>>
\* the source hears it first, and exactly once
SourceFirstOnce(q) == Stage(q) = "routed" =>
    /\ Handled(q)[1] = <<"src", 1>>
    /\ Handled(q)[2][1] # "src"
\* the destination is handed the message at most once, and only if it is a device of a Fakeable class
DstOnlyIfFakeable(q) == (Stage(q) = "routed" /\ Handled(q)[2][1] = "dst") => (q.dstFake /\ q.dst # "self")
\* reduce_processing: level 1 creates devices but tells nobody, level 2 does neither
Reduced(q) == /\ q.rp >= 1 => Handled(q) = <<>>
              /\ q.rp >= 2 => Created(q) = {}
\* a source the filters refuse (C10): nothing comes into being - not even its destination - and nobody is told
FilteredSource(q) == (~q.pairBad /\ q.rp < 2 /\ ~q.srcEx /\ ~q.srcOk) => (Created(q) = {} /\ Handled(q) = <<>>)
\* a destination the filters refuse never comes into being, whatever else happens
FilteredDst(q) == ~q.dstOk => "dst" \notin Created(q)
\* without eavesdropping no device is ever created from a destination address; nor from the gateway's own traffic
DstNeedsEavesdrop(q) == "dst" \in Created(q) => (q.eav /\ ~q.srcActive)
\* (as coded) the class checks P4/P5 come after P3: a message that is then refused has already created its devices
CreatedThoughRefused(q) == (Stage(q) \in {"P4:raise", "P5:raise"} /\ SrcCreated(q)) => "src" \in Created(q)
=============================================================================

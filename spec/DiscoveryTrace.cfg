SPECIFICATION Spec
INVARIANT Verdict

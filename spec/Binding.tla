------------------------------ MODULE Binding ------------------------------
(* C20 - binding handshakes.

   Implementation-shaped, explicit-time model of ramses_rf/binding_fsm.py as driven by
   Fakeable._wait_for_binding_request / _initiate_binding_process (device/base.py):

     * per device (R respondent, S supplicant) the BindContext: state class, the state object's
       future (pend | res | exc | canc), its 5.1 s call_later timer (states derived from
       _DevIsWaitingForMsg), the bind command it has "sent";
     * the coroutine of the attempt: one pc per await (the send of a frame through the gateway,
       the asyncio.wait_for on the state's future with its 5 s / 3 s time-out);
     * the medium: a frame is transmitted 10 + E ms after the send starts (an impersonation alert
       goes first; E = chosen queueing delay), echoed to its sender 10 ms later, and delivered to the other gateway 0..3
       times after chosen delays (loss = no copy; RF repeats = several copies; delay around the
       waits = long delays); optionally a third party's offer is heard by the respondent;
     * the clock that stamps the packets handed to each gateway (Packet.dtm): the gateway's own
       clock for a serial dongle, the remote device's for a transport such as MQTT/ramses_esp
       ('ts').  Its offset from the gateway's clock (h.skew, ms, per gateway, constant during a
       run) is an environment choice like the copies and delays of a frame - and NO action below
       reads it: binding_fsm.py matches packets by verb/code/addresses only, its waits run on the
       event loop's clock.  So the model predicts the same outcome for every skew, and
       the premise of C20a (BindingContract!Undisturbed) does not mention it;
     * time is an integer (ms); a calendar holds deliveries, echoes and armed timers; when several
       entries are due at the same instant any order is explored; a coroutine whose future has
       been resolved is resumed (Wake) before anything later fires - in between, further entries
       of the same instant may still be processed (duplicates "in the same loop iteration").

   Parameter Fix:
     FALSE  _wait_for_fut_result as in the code: asyncio.wait_for(self._fut, timeout) cancels the
            state's future on time-out, so _handle_wait_timer_expired's set_exception raises
            asyncio.InvalidStateError and the context stays in its binding state for ever
     TRUE   the repaired action: the future is shielded, the time-out path fails the binding
            with BindingFlowFailed and moves the context to DevHasFailedBinding

   After the first attempt(s) and once the calendar has drained, both devices make a second,
   undisturbed attempt (retry).  Clauses (Appendix A of DESIGN.md): C20a success under duplicates,
   C20b every attempt ends with the tuple or a binding error within its stated waits, C20c not
   binding afterwards and a new attempt can start. *)
EXTENDS BindingContract, FiniteSets, TLC

CONSTANTS Fix,            \* see above
          Ratify,         \* the flow has a fourth frame (10E0 addenda) and the respondent waits for it
          DeliveryChoices,\* set of tuples of delays (ms): the copies of one frame reaching the peer
          EchoChoices,    \* set of extra transmission delays E (ms)
          ThirdChoices,   \* set of times (ms) at which a third party's offer reaches R; -1 = never
          Presence,       \* set of <<R attempts, S attempts>> for the first round
          SkewChoices     \* set of <<at R's gateway, at S's gateway>>: packet-clock minus gateway-clock (ms)

Devs == {"R", "S"}
STATE_TIMER == 5100
ALERT == 10               \* the frame goes out 10 ms after the send starts (alert + its echo)

NotBinding == {"NotBinding", "Failed", "R_Bound", "S_Bound"}
Timed      == {"R_WaitOffer", "R_SendAccept", "R_WaitAddenda", "S_SendOffer"}   \* _DevIsWaitingForMsg

VARIABLES now, cal, seq,
          ctx,        \* [d |-> [st, fut, val, stid]]
          co,         \* [d |-> [pc, wake, wid, t0, offer, accept, confirm, addenda, out, tend]]
          round,      \* 1 | 2 (retry) | 3 (over)
          first,      \* outcome records of round 1 (kept for the clauses)
          bindingAfter,
          noise,      \* exceptions that reached the loop's handler (J15: recorded, not judged)
          h           \* environment choices

vars == <<now, cal, seq, ctx, co, round, first, bindingAfter, noise, h>>

IsBinding(d) == ctx[d].st \notin NotBinding

CoInit == [pc |-> "idle", wake |-> FALSE, wid |-> 0, t0 |-> 0, offer |-> "", accept |-> "",
           confirm |-> "", addenda |-> "", out |-> "none", tend |-> 0]

Init == /\ now = 0 /\ cal = {} /\ seq = 1
        /\ ctx = [d \in Devs |-> [st |-> "NotBinding", fut |-> "pend", val |-> "", stid |-> 0]]
        /\ co = [d \in Devs |-> CoInit]
        /\ round = 1 /\ first = [d \in Devs |-> CoInit] /\ bindingAfter = [d \in Devs |-> FALSE]
        /\ noise = 0
        /\ h = [present |-> <<>>, third |-> -1, sends |-> <<>>, skew |-> <<0, 0>>]

\* ---- helpers ----------------------------------------------------------------------------------
\* BindContext.set_state(cls): a new state object (new future; new timer for the timed classes)
SetState(c, d, st, cl, id) ==
    <<[c EXCEPT ![d] = [st |-> st, fut |-> "pend", val |-> "", stid |-> id]],
      IF st \in Timed THEN cl \cup {[at |-> now + STATE_TIMER, k |-> "stimer", d |-> d, f |-> "", id |-> id]}
      ELSE cl>>

\* the state object's timer is cancelled (its _set_context_state)
CancelTimer(cl, d) == {e \in cl : ~(e.k = "stimer" /\ e.d = d)}
CancelWait(cl, d)  == {e \in cl : ~(e.k = "wtimer" /\ e.d = d)}

Peer(d) == IF d = "R" THEN "S" ELSE "R"
AcceptFor(offer) == IF offer = "toffer" THEN "accept_t" ELSE "accept"

\* the gateway sends frame f for device d: the frame goes out ALERT + e ms after the send starts
\* (e = extra queueing delay), is echoed ECHO ms later, and reaches the peer as chosen
ECHO == 10
SendEvents(d, f, e, dl, id) ==
    LET tx == now + ALERT + e IN
    {[at |-> tx + ECHO, k |-> "sent", d |-> d, f |-> f, id |-> id]}
    \cup {[at |-> tx + dl[i], k |-> "rx", d |-> Peer(d), f |-> f, id |-> id + i] : i \in 1..Len(dl)}

Finish(c, d, out) == [c EXCEPT ![d].pc = "done", ![d].out = out, ![d].tend = now, ![d].wake = FALSE]

\* does frame f, received by d in its current state, resolve the state's future?
Matches(d, f) ==
    CASE ctx[d].st = "R_WaitOffer"   -> f \in {"offer", "toffer"}
      [] ctx[d].st = "R_SendAccept"  -> f = "confirm"
      [] ctx[d].st = "R_WaitAddenda" -> f = "addenda"
      [] ctx[d].st = "S_SendOffer"   -> f = "accept"
      [] OTHER -> FALSE

\* is d's coroutine awaiting the current state's future?
Awaiting(d) == co[d].pc \in {"r_waitoffer", "r_waitconfirm", "r_waitaddenda", "s_waitaccept"}

SendChoices == IF round = 1 THEN EchoChoices \X DeliveryChoices ELSE {<<0, <<10>>>>}
NoteSend(d, f, e, dl) == h' = IF round = 1 THEN [h EXCEPT !.sends = Append(@, <<d, f, e, dl>>)] ELSE h

\* ---- the callers ----------------------------------------------------------------------------------
\* Fakeable._wait_for_binding_request() is called
StartR ==
    /\ co["R"].pc = "idle" /\ now = (IF round = 1 THEN 0 ELSE now)
    /\ IF IsBinding("R")
       THEN /\ co' = Finish([co EXCEPT !["R"].t0 = now], "R", "FSM")      \* "is already binding"
            /\ UNCHANGED <<cal, seq, ctx>>
       ELSE LET r == SetState(ctx, "R", "R_WaitOffer", cal, seq) IN
            /\ ctx' = r[1]
            /\ cal' = r[2] \cup {[at |-> now + TENDER_WAIT, k |-> "wtimer", d |-> "R", f |-> "", id |-> seq]}
            /\ co' = [co EXCEPT !["R"].pc = "r_waitoffer", !["R"].t0 = now, !["R"].wid = seq]
            /\ seq' = seq + 1
    /\ UNCHANGED <<now, round, first, bindingAfter, noise, h>>

\* Fakeable._initiate_binding_process() is called
StartS ==
    /\ co["S"].pc = "idle"
    /\ IF IsBinding("S")
       THEN /\ co' = Finish([co EXCEPT !["S"].t0 = now], "S", "FSM")
            /\ UNCHANGED <<cal, seq, ctx, h>>
       ELSE \E ch \in SendChoices :
            LET r == SetState(ctx, "S", "S_SendOffer", cal, seq) IN
            /\ ctx' = r[1]
            /\ cal' = r[2] \cup SendEvents("S", "offer", ch[1], ch[2], seq + 1)
            /\ co' = [co EXCEPT !["S"].pc = "s_sendoffer", !["S"].t0 = now]
            /\ seq' = seq + 5
            /\ NoteSend("S", "offer", ch[1], ch[2])
    /\ UNCHANGED <<now, round, first, bindingAfter, noise>>

\* which devices attempt in round 1, the third party's offer, and the packet clocks of the two transports
Choose ==
    /\ round = 1 /\ h.present = <<>> /\ now = 0
    /\ \E p \in Presence, t \in ThirdChoices, sk \in SkewChoices :
          /\ h' = [h EXCEPT !.present = p, !.third = t, !.skew = sk]
          /\ cal' = IF t >= 0 THEN cal \cup {[at |-> t, k |-> "rx", d |-> "R", f |-> "toffer", id |-> 0]} ELSE cal
          /\ co' = [d \in Devs |-> IF (d = "R" /\ p[1]) \/ (d = "S" /\ p[2]) THEN co[d]
                                   ELSE [co[d] EXCEPT !.pc = "absent"]]
    /\ UNCHANGED <<now, seq, ctx, round, first, bindingAfter, noise>>

\* ---- the calendar ----------------------------------------------------------------------------------
NoWake == \A d \in Devs : ~co[d].wake
Due(e) == e \in cal /\ \A x \in cal : e.at <= x.at

\* a frame reaches device d: Fakeable._handle_msg -> BindContext.rcvd_msg -> state.rcvd_msg
Rx(e) ==
    LET d == e.d IN
    /\ cal' = cal \ {e} /\ now' = e.at
    /\ IF IsBinding(d) /\ Matches(d, e.f)
       THEN IF ctx[d].fut = "pend"
            THEN /\ ctx' = [ctx EXCEPT ![d].fut = "res", ![d].val = e.f]
                 /\ co' = IF Awaiting(d) THEN [co EXCEPT ![d].wake = TRUE] ELSE co
                 /\ noise' = noise
            ELSE /\ noise' = noise + 1          \* set_result on a done/cancelled future
                 /\ UNCHANGED <<ctx, co>>
       ELSE UNCHANGED <<ctx, co, noise>>
    /\ UNCHANGED <<seq, round, first, bindingAfter, h>>

\* the echo of d's frame: the send returns; for the echo-waiting states it is also the awaited event
Sent(e) ==
    LET d == e.d IN
    /\ cal' = cal \ {e} /\ now' = e.at
    /\ co' = [co EXCEPT ![d].wake = TRUE]
    /\ ctx' = IF ctx[d].st \in {"S_Confirm", "S_Addenda"} /\ ctx[d].fut = "pend"
              THEN [ctx EXCEPT ![d].fut = "res", ![d].val = e.f] ELSE ctx
    /\ UNCHANGED <<seq, round, first, bindingAfter, noise, h>>

\* the state object's call_later(5.1, _handle_wait_timer_expired) fires
StateTimer(e) ==
    LET d == e.d IN
    /\ cal' = cal \ {e} /\ now' = e.at
    /\ IF ctx[d].fut = "pend"
       THEN /\ ctx' = [ctx EXCEPT ![d].fut = "exc", ![d].st = "Failed"]
            /\ co' = IF Awaiting(d) THEN [co EXCEPT ![d].wake = TRUE] ELSE co
            /\ noise' = noise
       ELSE /\ noise' = noise + 1               \* set_exception on a done/cancelled future
            /\ UNCHANGED <<ctx, co>>
    /\ UNCHANGED <<seq, round, first, bindingAfter, h>>

\* the time-out of asyncio.wait_for(self._fut, timeout) in _wait_for_fut_result
WaitTimer(e) ==
    LET d == e.d IN
    /\ now' = e.at
    /\ IF ~(Awaiting(d) /\ co[d].wid = e.id) THEN cal' = cal \ {e} /\ UNCHANGED <<ctx, co>>
       ELSE IF Fix
       THEN \* shielded: the future is still pending; _handle_wait_timer_expired fails the binding
            /\ ctx' = [ctx EXCEPT ![d].fut = "exc", ![d].st = "Failed"]
            /\ cal' = CancelTimer(cal \ {e}, d)
            /\ co' = Finish(co, d, "BFF")
       ELSE \* the future is cancelled; set_exception raises InvalidStateError out of the attempt
            /\ ctx' = [ctx EXCEPT ![d].fut = "canc"]
            /\ cal' = cal \ {e}
            /\ co' = Finish(co, d, "ISE")
    /\ UNCHANGED <<seq, round, first, bindingAfter, noise, h>>

Fire == /\ NoWake
        /\ \E e \in cal : /\ Due(e)
                          /\ CASE e.k = "rx" -> Rx(e)
                               [] e.k = "sent" -> Sent(e)
                               [] e.k = "stimer" -> StateTimer(e)
                               [] e.k = "wtimer" -> WaitTimer(e)

\* more entries of the same instant before the resumed coroutine runs (same loop iteration)
FireSameInstant ==
    /\ ~NoWake
    /\ \E e \in cal : /\ Due(e) /\ e.at = now /\ e.k \in {"rx", "stimer"}
                      /\ IF e.k = "rx" THEN Rx(e) ELSE StateTimer(e)

\* ---- the coroutines ----------------------------------------------------------------------------------
\* wait on the (new) current state's future with time-out w; an already-resolved future returns at once
\* (handled by the callers below).
ArmWait(cl, d, w, id) == cl \cup {[at |-> now + w, k |-> "wtimer", d |-> d, f |-> "", id |-> id]}

WakeR ==
    /\ co["R"].wake
    /\ LET c == co["R"]  x == ctx["R"] IN
       CASE c.pc = "r_waitoffer" ->
              IF x.fut = "exc"
              THEN /\ co' = Finish(co, "R", "BFF") /\ cal' = CancelWait(cal, "R")
                   /\ UNCHANGED <<ctx, seq, h>>
              ELSE \E ch \in SendChoices :                       \* -> RespSendAcceptWaitForConfirm; send Accept
                   LET r == SetState(ctx, "R", "R_SendAccept", CancelWait(CancelTimer(cal, "R"), "R"), seq) IN
                   /\ ctx' = r[1]
                   \* the Accept goes to whoever made the offer; the supplicant only hears its own
                   /\ cal' = r[2] \cup SendEvents("R", AcceptFor(x.val), ch[1], ch[2], seq + 1)
                   /\ co' = [co EXCEPT !["R"].pc = "r_sendaccept", !["R"].wake = FALSE, !["R"].offer = x.val]
                   /\ seq' = seq + 5
                   /\ NoteSend("R", "accept", ch[1], ch[2])
         [] c.pc = "r_sendaccept" ->
              IF x.st # "R_SendAccept"                           \* the state timer failed the binding meanwhile
              THEN /\ co' = Finish(co, "R", "FSM") /\ UNCHANGED <<ctx, cal, seq, h>>
              ELSE IF x.fut = "res"                              \* the Confirm is already there
              THEN /\ ctx' = [ctx EXCEPT !["R"].st = "R_Bound"] /\ cal' = CancelTimer(cal, "R")
                   /\ co' = [co EXCEPT !["R"].pc = "r_gotconfirm", !["R"].confirm = x.val, !["R"].accept = AcceptFor(c.offer)]
                   /\ UNCHANGED <<seq, h>>
              ELSE /\ cal' = ArmWait(cal, "R", AFFIRM_WAIT, seq)
                   /\ co' = [co EXCEPT !["R"].pc = "r_waitconfirm", !["R"].wake = FALSE, !["R"].wid = seq,
                                       !["R"].accept = AcceptFor(c.offer)]
                   /\ seq' = seq + 1 /\ UNCHANGED <<ctx, h>>
         [] c.pc = "r_waitconfirm" ->
              IF x.fut = "exc"
              THEN /\ co' = Finish(co, "R", "BFF") /\ cal' = CancelWait(cal, "R") /\ UNCHANGED <<ctx, seq, h>>
              ELSE /\ ctx' = [ctx EXCEPT !["R"].st = "R_Bound"]
                   /\ cal' = CancelWait(CancelTimer(cal, "R"), "R")
                   /\ co' = [co EXCEPT !["R"].pc = "r_gotconfirm", !["R"].confirm = x.val]
                   /\ UNCHANGED <<seq, h>>
         [] c.pc = "r_gotconfirm" ->                             \* (same synchronous block in the code)
              IF ~Ratify THEN co' = Finish(co, "R", "ok") /\ UNCHANGED <<ctx, cal, seq, h>>
              ELSE LET r == SetState(ctx, "R", "R_WaitAddenda", cal, seq) IN
                   /\ ctx' = r[1] /\ cal' = ArmWait(r[2], "R", RATIFY_WAIT, seq)
                   /\ co' = [co EXCEPT !["R"].pc = "r_waitaddenda", !["R"].wake = FALSE, !["R"].wid = seq]
                   /\ seq' = seq + 1 /\ UNCHANGED h
         [] c.pc = "r_waitaddenda" ->
              IF x.fut = "exc"
              THEN /\ co' = Finish(co, "R", "BFF") /\ cal' = CancelWait(cal, "R") /\ UNCHANGED <<ctx, seq, h>>
              ELSE /\ ctx' = [ctx EXCEPT !["R"].st = "R_Bound"]
                   /\ cal' = CancelWait(CancelTimer(cal, "R"), "R")
                   /\ co' = Finish([co EXCEPT !["R"].addenda = x.val], "R", "ok")
                   /\ UNCHANGED <<seq, h>>
    /\ UNCHANGED <<now, round, first, bindingAfter, noise>>

WakeS ==
    /\ co["S"].wake
    /\ LET c == co["S"]  x == ctx["S"] IN
       CASE c.pc = "s_sendoffer" ->
              IF x.st # "S_SendOffer"
              THEN /\ co' = Finish(co, "S", "FSM") /\ UNCHANGED <<ctx, cal, seq, h>>
              ELSE IF x.fut = "res"
              THEN /\ co' = [co EXCEPT !["S"].pc = "s_waitaccept", !["S"].offer = "offer"]
                   /\ UNCHANGED <<ctx, cal, seq, h>>
              ELSE /\ cal' = ArmWait(cal, "S", ACCEPT_WAIT, seq)
                   /\ co' = [co EXCEPT !["S"].pc = "s_waitaccept", !["S"].wake = FALSE, !["S"].wid = seq,
                                       !["S"].offer = "offer"]
                   /\ seq' = seq + 1 /\ UNCHANGED <<ctx, h>>
         [] c.pc = "s_waitaccept" ->
              IF x.fut = "exc"
              THEN /\ co' = Finish(co, "S", "BFF") /\ cal' = CancelWait(cal, "S") /\ UNCHANGED <<ctx, seq, h>>
              ELSE \E ch \in SendChoices :                       \* -> SuppIsReadyToSendConfirm; send Confirm
                   LET r == SetState(ctx, "S", "S_Confirm", CancelWait(CancelTimer(cal, "S"), "S"), seq) IN
                   /\ ctx' = r[1]
                   /\ cal' = r[2] \cup SendEvents("S", "confirm", ch[1], ch[2], seq + 1)
                   /\ co' = [co EXCEPT !["S"].pc = "s_sendconfirm", !["S"].wake = FALSE, !["S"].accept = x.val]
                   /\ seq' = seq + 5
                   /\ NoteSend("S", "confirm", ch[1], ch[2])
         [] c.pc = "s_sendconfirm" ->                            \* echo received: SuppHasBoundAsSupplicant
              IF ~Ratify
              THEN /\ ctx' = [ctx EXCEPT !["S"].st = "S_Bound"]
                   /\ co' = Finish([co EXCEPT !["S"].confirm = "confirm"], "S", "ok")
                   /\ UNCHANGED <<cal, seq, h>>
              ELSE \E ch \in SendChoices :                       \* -> SuppIsReadyToSendAddenda; send Addenda
                   LET r == SetState(ctx, "S", "S_Addenda", cal, seq) IN
                   /\ ctx' = r[1]
                   /\ cal' = r[2] \cup SendEvents("S", "addenda", ch[1], ch[2], seq + 1)
                   /\ co' = [co EXCEPT !["S"].pc = "s_sendaddenda", !["S"].wake = FALSE, !["S"].confirm = "confirm"]
                   /\ seq' = seq + 5
                   /\ NoteSend("S", "addenda", ch[1], ch[2])
         [] c.pc = "s_sendaddenda" ->
              /\ ctx' = [ctx EXCEPT !["S"].st = "S_Bound"]
              /\ co' = Finish([co EXCEPT !["S"].addenda = "addenda"], "S", "ok")
              /\ UNCHANGED <<cal, seq, h>>
    /\ UNCHANGED <<now, round, first, bindingAfter, noise>>

\* ---- rounds ---------------------------------------------------------------------------------------------
Idle(d) == co[d].pc \in {"done", "absent"}

\* round 1 is over and the calendar has drained: observe is_binding, then both devices try again
ToRetry ==
    /\ round = 1 /\ h.present # <<>> /\ \A d \in Devs : Idle(d) /\ cal = {}
    /\ round' = 2 /\ first' = co
    /\ bindingAfter' = [d \in Devs |-> IsBinding(d)]
    /\ co' = [d \in Devs |-> CoInit]
    /\ UNCHANGED <<now, cal, seq, ctx, noise, h>>

Over == /\ round = 2 /\ \A d \in Devs : co[d].pc = "done" /\ cal = {}
        /\ round' = 3
        /\ UNCHANGED <<now, cal, seq, ctx, co, first, bindingAfter, noise, h>>

Stutter == round = 3 /\ UNCHANGED vars

Next == \/ Choose
        \/ (h.present # <<>> /\ round \in {1, 2} /\ NoWake /\ (StartR \/ StartS))
        \/ WakeR \/ WakeS \/ FireSameInstant
        \/ (h.present # <<>> /\ \A d \in Devs : co[d].pc # "idle") /\ Fire
        \/ ToRetry \/ Over \/ Stutter

Spec == Init /\ [][Next]_vars

\* ---- clauses --------------------------------------------------------------------------------------------
Attempt(d) == first[d]              \* the record of d's first attempt (valid once round >= 2)
Tuple(d) == IF first[d].out = "ok" THEN <<first[d].offer, first[d].accept, first[d].confirm, first[d].addenda>>
            ELSE <<"", "", "", "">>

\* was every frame of the handshake delivered to the peer promptly at least once, with the sender's
\* echo prompt as well, and nothing of a third party in the way?

\* C20a "both ends report success with the same offer/accept/confirm packets, even if frames are
\* repeated, echoed, or mixed with unrelated binding traffic"
SuccessUnderDuplicates ==
    (round >= 2 /\ Undisturbed(h.present, h.third, h.sends, Ratify)) =>
        SameSuccess(Attempt("R").out, Attempt("S").out, Tuple("R"), Tuple("S"), Ratify)

\* C20b "ends within its stated waits with either the packet tuple or a binding error" (J10)
EndsProperly ==
    \A d \in Devs :
        /\ BindingOutcome(co[d].out) /\ BindingOutcome(first[d].out)
        /\ (co[d].pc = "done" => co[d].tend - co[d].t0 <= Bound(d, Ratify) + Slack)
        /\ (co[d].pc \notin {"idle", "done", "absent"} => now - co[d].t0 <= Bound(d, Ratify) + Slack)

\* C20c "afterwards the device is no longer binding ..."
NotBindingAfterwards == round >= 2 => \A d \in Devs : ~bindingAfter[d]
\* "... and a new attempt can start" (the undisturbed second attempt is not refused and succeeds)
RetryWorks == round = 3 => \A d \in Devs : co[d].out = "ok"

\* the packet clocks are part of the environment only: no action mentions h.skew except Choose, which records it,
\* so whatever the model predicts for a schedule it predicts for that schedule under every skew (checks/c20.py
\* verifies this on the enumerated predictions).  The real code is held to the same: executions that differ only
\* in skew are judged by the same clauses (BindingTrace) against the same prediction.
SkewIsEnvironment == h.skew \in SkewChoices \cup {<<0, 0>>}

TypeOK == /\ \A e \in cal : e.at >= now
          /\ SkewIsEnvironment
          /\ \A d \in Devs : ctx[d].fut \in {"pend", "res", "exc", "canc"}

\* scenario + predicted outcome, for the harness (checks/c20.py)
Outcome == [r1 |-> first["R"].out, s1 |-> first["S"].out, br |-> bindingAfter["R"], bs |-> bindingAfter["S"],
            r2 |-> co["R"].out, s2 |-> co["S"].out,
            rt |-> Tuple("R"), st |-> Tuple("S")]
ScenarioOut == round = 3 => PrintT(<<"H", h, Outcome>>)
=============================================================================

SPECIFICATION Spec
CONSTANTS
  Fix = FALSE
  Ratify = FALSE
  DeliveryChoices <- DC_two
  EchoChoices <- EC_two
  ThirdChoices <- TC_none
  Presence <- P_all
  SkewChoices <- SK_none
INVARIANT TypeOK
INVARIANT SuccessUnderDuplicates
INVARIANT ScenarioOut
CHECK_DEADLOCK TRUE

SPECIFICATION Spec
INVARIANT Verdict

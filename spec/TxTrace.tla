------------------------------- MODULE TxTrace -------------------------------
(* C11 - validation of recorded executions of the real PortTransport.write_frame (on a FakeSerial,
   virtual time.perf_counter) and MqttTransport.write_frame (fake paho client).

   An item:  [mode, gap, init, t0, ev]  with  ev = sequence of  [k, id, t, bits, b, same]
     t     ticks of 0.1 ms (virtual time)            bits  frame size in 1e-4 bit (serial) / 0 (mqtt)
     k = "call"   write_frame(frame) was entered - acceptance, in call order
         "topup"  the wrapper refilled the bucket; b = bits_in_bucket after it      (serial, drift only)
         "write"  serial.write(data) / client.publish(); b = bits_in_bucket before the debit;
                  same = the bytes are the accepted frame (+ CRLF / JSON envelope)
         "ret"    write_frame returned without a write (mqtt: the write was dumped)
         "end"    quiescence: nothing was left running
   init/t0 = level and instant from which the contract's own (shadow) bucket starts - the full
   bucket at transport creation unless the harness set the closure itself.

   Mode = "clauses": the contract (DESIGN App. A, C11 a-d); TLC recomputes the shadow bucket from the
   write events alone - the code's own bucket is not consulted.
   Mode = "drift": the code's bucket arithmetic against TxRegulator's TopUp / SleepTicks (never a
   verdict by itself).

   Hard-wired (J13: spelled out in the statement): 1 % of 38 400 bit/s, 60 s bucket.  Read from the
   running code: the inter-write gap, the MQTT token count.                                          *)
EXTENDS Integers, Sequences, Json, IOUtils, TLC

CONSTANT Mode

TokWindow == 60
R == INSTANCE TxMath WITH Rate <- 384, Cap <- 230400000
Cap == 230400000

Traces == JsonDeserialize(IOEnv.TRACE_FILE)

VARIABLES tid, l, fail, st
tvars == <<tid, l, fail, st>>

TolT   == 10           \* 1 ms of float rounding (J3)
TolB   == 3840         \* what 1 ms refills, in 1e-4 bit
TolTok(t) == 10 * t.maxtok   \* what 1 ms refills, in token units (one token = 600 000 units)
One == R!OneTok(TokWindow)

St0(t) == [shadow |-> t.init, lastW |-> t.t0, nW |-> 0, maxU |-> 0, hasU |-> FALSE,
           pend |-> <<>>,                                  \* accepted, unwritten: [id, bits, slack, t]
           bm |-> t.init, lastm |-> t.t0, btop |-> <<>>,   \* drift: model bucket, last top-up, <<id, b>> of top-ups
           k |-> 0,                                        \* drift: writes seen
           tokm |-> 2 * t.maxtok * One, mxm |-> 2 * t.maxtok * One, tsm |-> t.t0, dropm |-> {},   \* drift (mqtt): model of the code's bucket
           tok |-> 2 * t.maxtok * One, mx |-> 2 * t.maxtok * One, lastP |-> t.t0]

\* "one frame per write already pending": the allowance of a write grows with every frame pending next to it; with
\* hundreds of concurrent callers the sum leaves TLC's 32-bit integers, so it saturates (at ~250 frames' worth, far
\* beyond where the clause could still bite)
SatMax == 2000000000
Sat(a, b) == IF a >= SatMax - b THEN SatMax ELSE a + b
RECURSIVE SumBits(_)
SumBits(q) == IF q = <<>> THEN 0 ELSE Sat(SumBits(Tail(q)), Head(q).bits)
IdxOf(q, id) == IF \E i \in 1..Len(q) : q[i].id = id THEN CHOOSE i \in 1..Len(q) : q[i].id = id ELSE 0
Remove(q, i) == [j \in 1..(Len(q) - 1) |-> IF j < i THEN q[j] ELSE q[j + 1]]

(* ---------------------------------------------------------------------------------- serial, contract *)
SerialCall(t, e, s) ==
  [s EXCEPT !.pend = Append([j \in 1..Len(s.pend) |-> [s.pend[j] EXCEPT !.slack = Sat(@, e.bits)]],
                            [id |-> e.id, bits |-> e.bits, slack |-> SumBits(s.pend), t |-> e.t])]

SerialWriteFail(t, e, s) ==
  LET i  == IdxOf(s.pend, e.id)
      sh == R!ShadowAfter(s.shadow, s.lastW, e.t, e.bits)
      u  == e.t - (s.nW + 1) * t.gap
  IN IF s.shadow < 0 - 1500000000 THEN "harness:debt_beyond_32bit"
     ELSE IF i = 0 THEN "d:dup_or_unknown"                  \* written twice, or never accepted
     ELSE IF ~e.same \/ e.bits # s.pend[i].bits THEN "d:altered"
     ELSE IF sh < 0 - s.pend[i].slack - TolB THEN "a:overdraw"
     ELSE IF s.hasU /\ s.maxU - u > t.gap + TolT THEN "b:spacing"
     ELSE IF i # 1 /\ Mode # "clauses_skip_order"
                   THEN (IF e.bits < s.pend[1].bits THEN "d:order:shorter_overtakes"
                         ELSE IF e.bits = s.pend[1].bits THEN "d:order:equal_overtakes"
                         ELSE "d:order:longer_overtakes")
     ELSE ""

SerialWrite(t, e, s) ==
  LET i  == IdxOf(s.pend, e.id)
      sh == R!ShadowAfter(s.shadow, s.lastW, e.t, e.bits)
      u  == e.t - (s.nW + 1) * t.gap
  IN [s EXCEPT !.shadow = sh, !.lastW = e.t, !.nW = @ + 1,
               !.maxU = IF s.hasU /\ @ > u THEN @ ELSE u, !.hasU = TRUE,
               !.pend = IF i = 0 THEN @ ELSE Remove(@, i)]

(* ---------------------------------------------------------------------------------- serial, drift *)
DriftFail(t, e, s) ==
  IF (e.k = "topup" \/ e.k = "write") /\ (e.b < 0 - 1500000000 \/ s.bm < 0 - 1500000000) THEN "drift:bucket_beyond_32bit" ELSE
  CASE e.k = "topup" -> IF e.b >= 0 - Cap /\ (R!TopUp(s.bm, s.lastm, e.t) - e.b > TolB \/ e.b - R!TopUp(s.bm, s.lastm, e.t) > TolB)
                        THEN "drift:topup" ELSE ""
    [] e.k = "write" -> LET j == IdxOf(s.btop, e.id) IN
                        IF s.bm - e.b > TolB \/ e.b - s.bm > TolB THEN "drift:bucket_before_write"
                        ELSE IF j # 0 /\ e.t + TolT < s.btop[j].t + R!SleepTicks(s.btop[j].b, e.bits) THEN "drift:sleep_not_honoured"
                        ELSE ""
    [] OTHER -> ""

DriftStep(t, e, s) ==
  CASE e.k = "topup" -> [s EXCEPT !.bm = e.b, !.lastm = e.t, !.btop = Append(@, [id |-> e.id, b |-> e.b, t |-> e.t])]
    [] e.k = "write" -> [s EXCEPT !.bm = e.b - e.bits, !.k = @ + 1, !.btop = IF IdxOf(@, e.id) = 0 THEN @ ELSE Remove(@, IdxOf(@, e.id))]
    [] OTHER -> s

(* ---------------------------------------------------------------------------------- mqtt, drift *)
MTop(t, e, s) == R!TokTopUp(s.tokm, s.mxm, t.maxtok, TokWindow, e.t - s.tsm)
(* a top-up that lands within the rounding slack of the dump threshold may go either way: the model
   follows the code there (the level seen at the call is kept in the pending entry's slack field) *)
Ambiguous(t, t1) == LET thr == One - t.maxtok * 10000 IN t1 - thr <= TolTok(t) /\ thr - t1 <= TolTok(t)
MqttDriftFail(t, e, s) ==
  CASE e.k = "write" -> IF e.id \in s.dropm /\ ~Ambiguous(t, s.pend[IdxOf(s.pend, e.id)].slack) THEN "drift:mqtt_model_drops_this_write"
                        ELSE IF e.b # -1 /\ (e.b - s.tokm > TolTok(t) \/ s.tokm - e.b > TolTok(t)) THEN "drift:mqtt_tokens" ELSE ""
    [] e.k = "ret"   -> IF e.id \notin s.dropm /\ IdxOf(s.pend, e.id) # 0 /\ ~Ambiguous(t, s.pend[IdxOf(s.pend, e.id)].slack)
                        THEN "drift:mqtt_model_accepts_this_write" ELSE ""
    [] OTHER -> ""
MqttDriftStep(t, e, s) ==
  CASE e.k = "call"  -> LET t1 == MTop(t, e, s) IN
                        IF R!TokDrops(t1, t.maxtok, TokWindow)
                          THEN [s EXCEPT !.tokm = t1, !.tsm = e.t, !.dropm = @ \cup {e.id}, !.pend = Append(@, [id |-> e.id, bits |-> 0, slack |-> t1, t |-> e.t])]
                          ELSE [s EXCEPT !.tokm = t1 - One, !.tsm = e.t, !.mxm = R!TokNewMax(@, t1 - One, t.maxtok, TokWindow),
                                         !.pend = Append(@, [id |-> e.id, bits |-> 0, slack |-> t1, t |-> e.t])]
    [] e.k = "write" -> LET i == IdxOf(s.pend, e.id) IN
                        IF i = 0 THEN s
                        ELSE IF e.id \in s.dropm      \* ambiguous call that the code accepted: reserve the token now
                             THEN [s EXCEPT !.pend = Remove(@, i), !.tokm = @ - One, !.dropm = @ \ {e.id}]
                             ELSE [s EXCEPT !.pend = Remove(@, i)]
    [] e.k = "ret"   -> LET i == IdxOf(s.pend, e.id) IN
                        IF i = 0 THEN s
                        ELSE IF e.id \notin s.dropm   \* ambiguous call that the code dumped: hand the token back
                             THEN [s EXCEPT !.pend = Remove(@, i), !.tokm = @ + One]
                             ELSE [s EXCEPT !.pend = Remove(@, i)]
    [] OTHER -> s

(* ---------------------------------------------------------------------------------- mqtt, contract *)
Refill(t, dt) == R!TokRefill(t.maxtok, TokWindow, dt)
MqttCall(t, e, s) == [s EXCEPT !.pend = Append(@, [id |-> e.id, bits |-> 0, slack |-> 0, t |-> e.t])]

MqttPubFail(t, e, s) ==
  LET i  == IdxOf(s.pend, e.id)
      tk == R!Min(s.tok + Refill(t, e.t - s.lastP), s.mx) - One
  IN IF i = 0 THEN "d:dup_or_unknown"
     ELSE IF ~e.same THEN "d:altered"
     ELSE IF tk < 0 - TolTok(t) THEN "c:over_allowance"
     ELSE IF e.t - s.pend[i].t > 10000 + One \div t.maxtok + TolT THEN "c:queued_too_long"
     ELSE IF i # 1 THEN "d:order"
     ELSE ""

MqttPub(t, e, s) ==
  LET i  == IdxOf(s.pend, e.id)
      tk == R!Min(s.tok + Refill(t, e.t - s.lastP), s.mx) - One
  IN [s EXCEPT !.tok = tk, !.lastP = e.t,
               !.mx = R!TokNewMax(@, tk, t.maxtok, TokWindow),
               !.pend = IF i = 0 THEN @ ELSE Remove(@, i)]

(* a write may be dumped only when the budget cannot pay for it: what the shadow bucket holds at that
   instant, less one token for every write accepted before it and still waiting                        *)
MqttRetFail(t, e, s) ==
  LET i  == IdxOf(s.pend, e.id)
      bd == R!Min(s.tok + Refill(t, e.t - s.lastP), s.mx) - One * (IF i = 0 THEN 0 ELSE i - 1)
  IN IF i = 0 THEN ""                                      \* returned after its publish: nothing to say
     ELSE IF bd >= One + TolTok(t) THEN "d:dropped_within_budget"
     ELSE ""
MqttRet(t, e, s) == LET i == IdxOf(s.pend, e.id) IN [s EXCEPT !.pend = IF i = 0 THEN @ ELSE Remove(@, i)]

(* ---------------------------------------------------------------------------------- fold *)
FailOf(t, e, s) ==
  IF Mode = "drift" THEN (IF t.mode = "serial" THEN DriftFail(t, e, s) ELSE MqttDriftFail(t, e, s))
  ELSE IF t.mode = "serial" THEN
       CASE e.k = "call"  -> IF IdxOf(s.pend, e.id) # 0 THEN "harness:id_reused" ELSE ""
         [] e.k = "write" -> SerialWriteFail(t, e, s)
         [] e.k = "end"   -> IF s.pend # <<>> THEN "d:lost" ELSE ""
         [] OTHER -> ""
  ELSE CASE e.k = "call"  -> IF Len(s.pend) + 1 > 3 THEN "c:queue_unbounded" ELSE ""
         [] e.k = "write" -> MqttPubFail(t, e, s)
         [] e.k = "ret"   -> MqttRetFail(t, e, s)
         [] e.k = "end"   -> IF s.pend # <<>> THEN "d:lost" ELSE ""
         [] OTHER -> ""

StepOf(t, e, s) ==
  IF Mode = "drift" THEN (IF t.mode = "serial" THEN DriftStep(t, e, s) ELSE MqttDriftStep(t, e, s))
  ELSE IF t.mode = "serial" THEN
       CASE e.k = "call"  -> SerialCall(t, e, s)
         [] e.k = "write" -> SerialWrite(t, e, s)
         [] OTHER -> s
  ELSE CASE e.k = "call"  -> MqttCall(t, e, s)
         [] e.k = "write" -> MqttPub(t, e, s)
         [] e.k = "ret"   -> MqttRet(t, e, s)
         [] OTHER -> s

Init == /\ tid \in 1..Len(Traces) /\ l = 1 /\ fail = <<>>
        /\ st = St0(Traces[tid])
Step == /\ l <= Len(Traces[tid].ev)
        /\ LET t == Traces[tid]  e == t.ev[l]  c == FailOf(t, e, st) IN
             /\ fail' = IF fail = <<>> /\ c # "" THEN <<l, c, e.id>> ELSE fail
             \* once a trace is rejected its numbers are no longer evolved (a grossly overdrawn bucket would
             \* leave the 32-bit range); the verdict is the first failing clause
             /\ st' = IF fail = <<>> /\ c = "" THEN StepOf(t, e, st) ELSE st
        /\ l' = l + 1 /\ UNCHANGED tid
Spec == Init /\ [][Step]_tvars
Verdict == (l > Len(Traces[tid].ev)) => PrintT(<<"VERDICT", tid, fail>>)
=============================================================================

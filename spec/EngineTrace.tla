----------------------------- MODULE EngineTrace -----------------------------
(* C13: batch validation of recorded executions of a real Gateway against the contract.

   One item = one (mutated) packet history fed to a real Gateway; at every observation point
   (quiescent) the harness reads every public view, takes snapshots, restores them, sends a probe
   packet and a probe command, and records
     [ nosend |-> 0/1, nodisc |-> 0/1,        \* the gateway's configured flags
       ev |-> << [k, name, res, before, after, tr] ... >> ]
   tr = 1 if a transport is bound when the event ends (the gateway has been started), 0 in the phase
   'not yet started' (Engine.tla: tr): histories may begin with operations at point zero, before start()
   k = "view"   a public view (schema/params/status/traits/known_list) of the gateway, a device,
                a system or a zone was read: res = "ok" or the exception type
       "op"     name = "get_state" | "restore": res = "ok" or the exception type;
                before / after = <<es, hdl, snd, rd, pw, disc>> projected out of the real objects
       "opx"    as "op", with a failure injected into the operation's body by the harness ("whether or not the
                operation itself succeeded"); the exception is the harness's own, so it is not a C13a finding
       "nested" as "op", but requested while a restore is in flight (the engine is paused by it)
       "start"  Gateway.start() after operations in the phase 'not yet started' (Engine.tla: Bind): before / after
                as for "op"; the gateway must now be running (still receiving, still able to send), as one
                that was started with no operation before is
       "probe"  name = "packet" (a packet of a fresh device), "known" (a packet of a device the
                gateway was tracking), "send" (a command): res = "ok" | "lost" | exception type
   Clauses (Appendix A): C13a every view returns without raising (the snapshot included);
   C13b after every snapshot / restore the projection is as before and "running" (Engine's
   operators), whether or not the operation raised, and probes still get through;
   C13c a known device is still tracked. *)
EXTENDS Engine, Json, IOUtils

Traces == JsonDeserialize(IOEnv.TRACE_FILE)

VARIABLES tid, l, fail
tvars == <<vars, tid, l, fail>>

Ev(i) == Traces[tid].ev[i]
NEv == Len(Traces[tid].ev)
B(x) == x = 1
P(q) == <<q[1], B(q[2]), B(q[3]), B(q[4]), B(q[5]), B(q[6])>>

TInit ==
  /\ tid \in 1..Len(Traces) /\ l = 1 /\ fail = <<>>
  /\ es = "none" /\ hdl = TRUE /\ snd = FALSE /\ rd = TRUE /\ pw = FALSE /\ disc = FALSE /\ tr = TRUE
  /\ saved = <<TRUE, FALSE, FALSE>> /\ calls = <<>> /\ done = NoDone /\ h = <<>>

Add(f, line, cls) == IF cls = "" \/ \E i \in 1..Len(f) : f[i][2] = cls THEN f ELSE Append(f, <<line, cls>>)

(* the class names the failing call site / exception type, so that different failures in one
   history are all reported *)
Class(e) ==
  LET noSend == B(Traces[tid].nosend)  noDisc == B(Traces[tid].nodisc) IN
  IF e.k = "view" THEN (IF e.res = "ok" THEN "" ELSE "C13a:view-raises:" \o e.name \o ":" \o e.res)
  ELSE IF e.k \in {"op", "opx"} THEN    \* opx: the harness made the operation's body raise (injected failure)
     IF ~(SameProj(P(e.after), P(e.before)) /\ RunningIn(P(e.after), B(e.tr), noSend, noDisc))
     THEN "C13b:not-running-as-before-after-" \o e.name \o (IF e.res = "ok" THEN "" ELSE "-raised:" \o e.res)
     ELSE ""
  ELSE IF e.k = "start" THEN    \* start() after operations on the not yet started gateway: it must be running now
     IF ~Running(P(e.after), noSend, P(e.before)[6])   \* (Bind leaves disable_discovery as it finds it)
     THEN "C13b:not-running-once-started-after-operations-before-start"
     ELSE ""
  ELSE IF e.k = "nested" THEN    \* an operation requested while a restore is in flight: exactly as before, no more
     IF ~SameProj(P(e.after), P(e.before))
     THEN "C13b:not-as-before-after-nested-" \o e.name \o (IF e.res = "ok" THEN "" ELSE "-raised:" \o e.res)
     ELSE ""
  ELSE IF e.k = "probe" THEN
     IF e.res = "ok" THEN ""
     ELSE IF e.name = "known" THEN "C13c:known-device-no-longer-tracked"
     ELSE IF e.name = "packet" THEN "C13b:no-longer-receiving"
     ELSE "C13b:no-longer-able-to-send:" \o e.res
  ELSE ""

(* the saved-state snapshot is one of the views of C13a: it must not raise *)
SnapClass(e) == IF e.k = "op" /\ e.name = "get_state" /\ e.res # "ok"
                THEN "C13a:snapshot-raises:" \o e.res ELSE ""

TStep ==
  /\ l <= NEv
  /\ fail' = Add(Add(fail, l, SnapClass(Ev(l))), l, Class(Ev(l)))
  /\ l' = l + 1
  /\ UNCHANGED <<tid, vars>>

TSpec == TInit /\ [][TStep]_tvars
Verdict == (l > NEv) => PrintT(<<"VERDICT", tid, fail>>)
=============================================================================

SPECIFICATION Spec
INVARIANT Verdict

------------------------------ MODULE MC_Decode ------------------------------
EXTENDS Decode
PktsDef == {"A", "B", "C"}
ValsDef == {1, 2, 3}
DecDef  == [p \in PktsDef |-> CASE p = "A" -> 1 [] p = "B" -> 2 [] p = "C" -> 3]
KeyId   == [p \in PktsDef |-> p]
\* a cache keyed on too little: A and B share a key although they decode differently
KeyBad  == [p \in PktsDef |-> IF p = "B" THEN "A" ELSE p]
=============================================================================

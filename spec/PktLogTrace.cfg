SPECIFICATION Spec
INVARIANT Verdict

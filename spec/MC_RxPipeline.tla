--------------------------- MODULE MC_RxPipeline ---------------------------
(* Bounded instances of RxPipeline.  Bounds come from the environment (set by checks/c01.py per tier):
     C01_MAXLEN   symbols per stream for the exhaustive instance        (default 6)
     C01_MAXTOK   tokens per stream for the enumeration instances       (default 3)
     C01_MAXLINES / C01_MAXBAD  lines per log shape / non-valid among them (default 4 / 2)
     C01_MAXZERO  empty reads per behaviour                              (default 1)            *)
EXTENDS RxPipeline, IOUtils

EnvNat(name, dflt) == IF name \in DOMAIN IOEnv THEN atoi(IOEnv[name]) ELSE dflt
MaxLen   == EnvNat("C01_MAXLEN", 6)
MaxTok   == EnvNat("C01_MAXTOK", 3)
MaxLines == EnvNat("C01_MAXLINES", 4)
MaxBad   == EnvNat("C01_MAXBAD", 2)
MaxZeroDef == EnvNat("C01_MAXZERO", 1)

\* every stream of at most MaxLen symbols
AllStreams == UNION {[1..n -> Sym] : n \in 0..MaxLen}

\* streams built from tokens (CRLF is one token, so lines are frequent): used to enumerate behaviours
Tok == {<<"x">>, <<"z">>, <<"B">>, <<"CR">>, <<"LF">>, <<"CR", "LF">>}
RECURSIVE Flat(_)
Flat(ts) == IF ts = <<>> THEN <<>> ELSE Head(ts) \o Flat(Tail(ts))
TokStreams == {Flat(t) : t \in UNION {[1..n -> Tok] : n \in 1..MaxTok}}

\* log/dict shapes: at most MaxLines lines, at most MaxBad of them not "valid"
AllShapes == {f \in UNION {[1..n -> Classes] : n \in 0..MaxLines} :
                 Cardinality({i \in DOMAIN f : f[i] # "valid"}) <= MaxBad}
NoStreams == {<<>>}
NoShapes  == {<<>>}
=============================================================================

---------------------------- MODULE MC_WireCodec ----------------------------
(* Bounded instance of WireCodec: one state per grid point ("case"); the laws are invariants.    *)
(* Grids that are small are complete (65 536 words, all k/100 in a window that covers the whole  *)
(* 16-bit range twice, 256 bytes x 2 resolutions, 256 flag bytes x 2 orders); the calendar and   *)
(* id grids are the cross products of the constant sets below (covering sets).                   *)
EXTENDS Integers, Sequences, FiniteSets, TLC

CONSTANTS Impl, TempKs, DblKs, Years, Hours, Mins, Secs, YYs, DtsHours, IdNs, StrAlphabet, StrMaxLen

INSTANCE WireCodec

VARIABLE c

StrCases == UNION {[1..n -> StrAlphabet] : n \in 0..StrMaxLen}

\* TLC computes initial states on one thread, so the grid is seeded (kind, block) and expanded by Next:
\* all workers share the enumeration.  Seeds satisfy every law trivially (the CASEs fall to OTHER).
Blk == 4096
BlocksOf(S) == {x \div Blk : x \in S}
BlockOf(S, b) == {x \in S : x \div Blk = b}
W16 == 0..65535

Seeds ==
  {<<"seed", k, b>> : k \in {"temp_w", "dbl_w", "sp_w"}, b \in BlocksOf(W16)}
  \cup {<<"seed", "temp_k", b>> : b \in BlocksOf(TempKs)}
  \cup {<<"seed", k, b>> : k \in {"dbl_k", "sp_k"}, b \in BlocksOf(DblKs)}
  \cup {<<"seed", k, n>> : k \in {"pct_w", "pct_k"}, n \in {100, 200}}
  \cup {<<"seed", k, 0>> : k \in {"bool", "flag", "str", "sentinels"}}
  \cup {<<"seed", "dtm", Y * 100 + Mo>> : Y \in Years, Mo \in 1..12}
  \cup {<<"seed", "dts", yy * 100 + mo>> : yy \in YYs, mo \in 1..12}
  \cup {<<"seed", k, tt>> : k \in {"id_t", "id_h"}, tt \in 0..63}

Expand(k, b) ==
  CASE k = "temp_w" -> {<<"temp_w", w>> : w \in BlockOf(W16, b)}
    [] k = "dbl_w"  -> {<<"dbl_w", w>> : w \in BlockOf(W16, b)}
    [] k = "sp_w"   -> {<<"sp_w", w>> : w \in BlockOf(W16, b)}
    [] k = "temp_k" -> {<<"temp_k", x>> : x \in BlockOf(TempKs, b)}
    [] k = "dbl_k"  -> {<<"dbl_k", x>> : x \in BlockOf(DblKs, b)}
    [] k = "sp_k"   -> {<<"sp_k", x>> : x \in BlockOf(DblKs, b)}
    [] k = "pct_w"  -> {<<"pct_w", b, w>> : w \in 0..255}
    [] k = "pct_k"  -> {<<"pct_k", b, x>> : x \in -50..300}
    [] k = "bool"   -> {<<"bool_w", w>> : w \in 0..255} \cup {<<"bool_k", x>> : x \in {0, 1}}
    [] k = "flag"   -> {<<"flag_w", l, w>> : l \in {0, 1}, w \in 0..255}
    [] k = "str"    -> {<<"str", s>> : s \in StrCases}
    [] k = "sentinels" -> {<<"sentinels">>}
    [] k = "dtm"    -> {<<"dtm", b \div 100, b % 100, D, h, mi, s, dst, incl>> :
                          D \in 1..31, h \in Hours, mi \in Mins, s \in Secs, dst \in {0, 1}, incl \in {0, 1}}
    [] k = "dts"    -> {<<"dts", b \div 100, b % 100, d, h, mi, s>> : d \in 1..31, h \in DtsHours, mi \in Mins, s \in Secs}
    [] k = "id_t"   -> {<<"id_t", b, n>> : n \in IdNs}
    [] k = "id_h"   -> {<<"id_h", b * 262144 + n>> : n \in IdNs}

Init == c \in Seeds
Next == c[1] = "seed" /\ c' \in Expand(c[2], c[3])
Spec == Init /\ [][Next]_c

InvA == A_RoundTrip(c)
InvB == B_ReEncode(c)
InvC == C_IdBijection(c)
InvD == D_Sentinels(c)
InvE == E_NoSilentWrap(c)

\* ---- constant definitions for the cfgs ------------------------------------------------
NoImpl == {}
ImplTempWrap == {"temp_wrap"}
ImplDtsY0 == {"dts_y0"}
TempKsAll == -70000..70000
DblKsAll == -300..70000
YearsQ == {1, 1999, 2000, 2023, 2024, 2100, 9999}
YearsT == {1, 4, 100, 400, 1900, 1999, 2000, 2001, 2019, 2020, 2023, 2024, 2025, 2096, 2100, 2400, 9999}
HoursQ == {0, 1, 12, 23}
HoursAll == 0..23
MinsQ == {0, 59}
MinsT == {0, 59}
SecsQ == {0, 59}
SecsT == {0, 1, 59}
YYsQ == {0, 1, 24, 99}
YYsT == 0..99
YYsNoZero == {1, 24, 99}
One == {0}
Year1 == {2024}
YY01 == {0, 1}
TempKsWrap == -66000..66000
DtsHoursT == {0, 1, 12, 22, 23}
IdNsQ == (0..511) \cup (262144 - 512..262143) \cup {1000, 99999, 100000, 131071, 131072, 145038}
IdNsT == (0..8191) \cup (262144 - 8192..262143) \cup {99999, 100000, 131071, 131072, 145038}
Alpha == {0, 31, 32, 65, 126, 127, 255}
=============================================================================

---- MODULE MC_QosFsm ----
EXTENDS QosFsm
\* two callers: 1 = an I-type command (echo only), 2 = an RQ awaiting its reply
HasRxC      == (1 :> FALSE) @@ (2 :> TRUE)
WfrC        == (1 :> FALSE) @@ (2 :> TRUE)
MaxRetriesC == (1 :> 1) @@ (2 :> 1)
PrioC       == (1 :> 2) @@ (2 :> 2)
Depth       == TLCGet("level") <= 60
====

---------------------------- MODULE MC_Binding ----------------------------
(* Bounded instances of Binding (C20).  The delivery/echo/third-party choice sets are defined here
   and selected per configuration:
     MC_Binding.cfg / _fix.cfg              quick: as-is (Fix = FALSE) / repaired (Fix = TRUE)
     MC_Binding_ratify.cfg / _ratify_fix    flows with the fourth frame (10E0 addenda)
     MC_Binding_thorough*.cfg               larger choice sets
     MC_Binding_skew*.cfg                   the transports' packet clocks differ from the gateways' clocks
     MC_Binding_scen*.cfg                   scenario enumeration (ScenarioOut) for the harness *)
EXTENDS Binding

\* copies of one frame reaching the peer: delays in ms after its transmission
DC_two   == {<<>>, <<10>>}
DC_tiny  == {<<>>, <<10>>, <<10, 10, 10>>}
DC_small == {<<>>, <<10>>, <<10, 10, 10>>, <<10, 30, 50>>, <<5040>>}
DC_mid   == DC_small \cup {<<2980>>, <<3030>>, <<4960>>, <<5150>>, <<10, 5040>>}
DC_big   == DC_mid \cup {<<30>>, <<10, 10>>, <<10, 3030>>, <<50, 4960, 5150>>, <<2980, 2980, 2980>>}
EC_one   == {0}
EC_two   == {0, 140}
TC_none  == {-1}
TC_some  == {-1, 5, 45}
\* packet clock minus gateway clock (ms) at <<R's gateway, S's gateway>>: in step (a serial dongle), behind by more
\* than a reply takes / by more than any wait, ahead
SK_none  == {<<0, 0>>}
SK_some  == {<<0, 0>>, <<-250, 0>>, <<0, -250>>, <<250, 250>>, <<-5000, -5000>>}
SK_all   == {-5000, -250, 0, 250} \X {-5000, -250, 0, 250}
P_both   == {<<TRUE, TRUE>>}
P_all    == {<<TRUE, TRUE>>, <<TRUE, FALSE>>, <<FALSE, TRUE>>}
=============================================================================

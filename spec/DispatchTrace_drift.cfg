SPECIFICATION Spec
CONSTANT Mode = "drift"
INVARIANT Verdict

SPECIFICATION Spec
CONSTANTS
  Fix = TRUE
  Ratify = FALSE
  DeliveryChoices <- DC_tiny
  EchoChoices <- EC_one
  ThirdChoices <- TC_none
  Presence <- P_both
  SkewChoices <- SK_some
INVARIANT TypeOK
INVARIANT SuccessUnderDuplicates
INVARIANT EndsProperly
INVARIANT NotBindingAfterwards
INVARIANT RetryWorks
INVARIANT ScenarioOut
CHECK_DEADLOCK TRUE

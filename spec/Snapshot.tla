------------------------------ MODULE Snapshot ------------------------------
(* C16 "Saved state restores": snapshot -> fresh gateway -> snapshot is a fixpoint.

   Transcribed from ramses_rf/gateway.py (get_state, _restore_cached_packets) and
   ramses_rf/entity_base.py (_MessageDB._handle_msg, _msg_value_msg, _delete_msg):
     * a gateway keeps, per source device, _msgz_[code][verb][ctx] (the finest key) and, per
       zone/system entity, _msgs_[code] = the last I/RP routed to it (an array message is routed
       to every zone it lists);
     * get_state(include_expired) collects the messages of all those stores, filters them with
       wanted_msg, and returns a dict keyed by the packet's timestamp -- two messages with the
       same timestamp collide, the one met later in the traversal wins;
     * _restore_cached_packets replays the dict in timestamp order through the same store rule;
     * reading an attribute whose message has expired schedules _delete_msg(msg): expired messages
       are purged as a side effect of reads (schema/params/status, device reprs, handlers).  With
       PurgeOnRead the model lets any expired message disappear at any time.
   Messages arrive in any order of their timestamps (shipped logs are not chronological).
   The clock does not move between the snapshot, the restore and the second snapshot, so whether a
   message is expired is an attribute of the message (exp). *)
EXTENDS Integers, Sequences, FiniteSets, TLC

CONSTANTS
  Src,          \* source devices (controllers)
  Zone,         \* zone indexes
  Code,         \* codes; TimeCode (313F-like) and SchedCode (0404-like) are special in wanted_msg
  TimeCode, SchedCode,
  Times,        \* timestamps
  PurgeOnRead,  \* TRUE = as the code is
  Chrono        \* TRUE = packets arrive in the order of their timestamps

Verb == {"I", "RP", "RQ", "W"}
NoMsg == [src |-> "-", code |-> 0, verb |-> "-", zs |-> {}, arr |-> FALSE, t |-> -1, exp |-> FALSE, long |-> FALSE]

(* a message: zs = the zones it lists (one for a single form), arr = array form *)
Msgs == [src : Src, code : Code, verb : Verb, zs : (SUBSET Zone) \ {{}}, arr : BOOLEAN,
         t : Times, exp : BOOLEAN, long : BOOLEAN]
WellFormed(m) == /\ (~m.arr => Cardinality(m.zs) = 1)
                 /\ (m.arr => m.verb = "I")
                 /\ (m.verb \in {"RQ", "W"} => ~m.exp)      \* RQ/W never expire (lifespan False)

Ctx(m) == IF m.arr THEN "arr" ELSE CHOOSE z \in m.zs : TRUE
Key(m) == <<m.src, m.code, m.verb, Ctx(m)>>
Keys == Src \X Code \X Verb \X (Zone \cup {"arr"})
Slots == Src \X Zone \X Code

(* gateway state: dz = device stores, zs = zone stores *)
Empty == [dz |-> [k \in Keys |-> NoMsg], zs |-> [s \in Slots |-> NoMsg]]

(* _MessageDB._handle_msg + MultiZone routing *)
Store(g, m) ==
  [dz |-> [g.dz EXCEPT ![Key(m)] = m],
   zs |-> [s \in Slots |->
             IF m.verb \in {"I", "RP"} /\ s[1] = m.src /\ s[2] \in m.zs /\ s[3] = m.code
             THEN m ELSE g.zs[s]]]

Held(g) == ({g.dz[k] : k \in Keys} \cup {g.zs[s] : s \in Slots}) \ {NoMsg}

(* wanted_msg, line by line *)
Wanted(m, ie) ==
  IF m.code = TimeCode THEN m.verb \in {"I", "RP"}
  ELSE IF m.exp /\ ~ie THEN FALSE
  ELSE IF m.code = SchedCode THEN m.verb \in {"I", "W"} /\ m.long
  ELSE IF m.verb \in {"W", "RQ"} THEN FALSE
  ELSE ie \/ ~m.exp

(* the dtm-keyed dict: of several messages with the same timestamp the one met last in the
   traversal survives.  The traversal order of the code (devices in creation order, their stores
   in insertion order, then systems, then zones) is abstracted to a fixed total order (Rank). *)
VerbNo(v) == CASE v = "I" -> 1 [] v = "RP" -> 2 [] v = "RQ" -> 3 [] OTHER -> 4
Rank(m) == 1000 * m.code + 100 * VerbNo(m.verb) + 20 * Cardinality(m.zs)
           + (IF "z0" \in m.zs THEN 1 ELSE 0) + (IF m.exp THEN 2 ELSE 0) + (IF m.long THEN 4 ELSE 0)
           + (IF m.arr THEN 8 ELSE 0)
Snap(g, ie) ==
  LET W == {m \in Held(g) : Wanted(m, ie)} IN
  {m \in W : \A o \in W : (o.t = m.t /\ o # m) => Rank(o) < Rank(m)}

(* replay in timestamp order (the dict is sorted by key) *)
RECURSIVE Replay(_, _)
Replay(g, S) ==
  IF S = {} THEN g
  ELSE LET m == CHOOSE x \in S : \A y \in S : x.t <= y.t IN Replay(Store(g, m), S \ {m})

(* side effect of reads: any set of expired messages may be deleted (by value: everywhere) *)
Purged(g, P) ==
  [dz |-> [k \in Keys |-> IF g.dz[k] \in P THEN NoMsg ELSE g.dz[k]],
   zs |-> [s \in Slots |-> IF g.zs[s] \in P THEN NoMsg ELSE g.zs[s]]]
Purges(g) == IF PurgeOnRead THEN {Purged(g, P) : P \in SUBSET {m \in Held(g) : m.exp}} ELSE {g}

-----------------------------------------------------------------------------
(* The laws on packet sets (shared with SnapshotTrace, where the sets are ids of real packets). *)
Lost(ref, got)   == ref \ got
Gained(ref, got) == got \ ref
SameSet(ref, got) == Lost(ref, got) = {} /\ Gained(ref, got) = {}
(* the shape of the known defect: nothing gained, only expired packets missing *)
OnlyExpiredLost(ref, got, expd) == Gained(ref, got) = {} /\ Lost(ref, got) # {} /\ Lost(ref, got) \subseteq expd

-----------------------------------------------------------------------------
(* When is a packet "expired"?  Not by asking the library: by the lifetime rule of C14 ("each message has
   a lifetime fixed by its kind: never treated as expired before that lifetime has passed and always once
   twice that lifetime, plus a few seconds' grace, has passed"; MsgStore.tla: NotYetDue / MustBeExp).  Inputs:
   the age of the packet by the clock of the snapshot (clock - stamp) and its lifetime (Never = -1; for a
   sync-cycle countdown the lifetime is the one carried in its payload, whatever its verb).  Between the
   two thresholds the rule leaves the answer open, and so does C16c.  Shared with SnapshotTrace (ms). *)
Never == -1
Grace == 3000
MustBeExp(age, life) == life # Never /\ age >= 2 * life + Grace
NotYetDue(age, life) == life = Never \/ age < life
(* "nor (unless asked for) expired packets", for a snapshot given as parallel sequences of ages / lifetimes *)
PastLife(ages, lives) == {i \in 1..Len(ages) : MustBeExp(ages[i], lives[i])}
(* a recorded library verdict that the rule allows *)
VerdictAllowed(flag, age, life) == (MustBeExp(age, life) => flag) /\ (NotYetDue(age, life) => ~flag)

-----------------------------------------------------------------------------
VARIABLES g1, n, phase, ie, s1, g2, s2, s3, s4, h
vars == <<g1, n, phase, ie, s1, g2, s2, s3, s4, h>>

Init == /\ g1 = Empty /\ n = 0 /\ phase = "feed" /\ ie \in BOOLEAN
        /\ s1 = {} /\ g2 = Empty /\ s2 = {} /\ s3 = {} /\ s4 = {} /\ h = <<>>

Receive(m) == /\ phase = "feed" /\ WellFormed(m)
              /\ Chrono => \A i \in 1..Len(h) : h[i].t <= m.t
              /\ g1' = Store(g1, m) /\ n' = n + 1 /\ h' = Append(h, m)
              /\ UNCHANGED <<phase, ie, s1, g2, s2, s3, s4>>

(* get_state on the source gateway (its reads may purge), restore into a fresh one, snapshot *)
Snap1 == /\ phase = "feed"
         /\ s1' = Snap(g1, ie)
         /\ \E p \in Purges(g1) : g1' = p
         /\ phase' = "snapped" /\ UNCHANGED <<n, ie, g2, s2, s3, s4, h>>
Restore2 == /\ phase = "snapped"
            /\ \E p \in Purges(Replay(Empty, s1)) : g2' = p
            /\ phase' = "restored" /\ UNCHANGED <<g1, n, ie, s1, s2, s3, s4, h>>
Snap2 == /\ phase = "restored"
         /\ s2' = Snap(g2, ie)
         /\ phase' = "snapped2" /\ UNCHANGED <<g1, n, ie, s1, g2, s3, s4, h>>
(* the same snapshot again into the restored gateway, and into the gateway it came from *)
Again == /\ phase = "snapped2"
         /\ \E p \in Purges(Replay(g2, s1)) : s3' = Snap(p, ie)
         /\ \E p \in Purges(Replay(g1, s1)) : s4' = Snap(p, ie)
         /\ phase' = "done" /\ UNCHANGED <<g1, n, ie, s1, g2, s2, h>>

Next == (\E m \in Msgs : Receive(m)) \/ Snap1 \/ Restore2 \/ Snap2 \/ Again
Spec == Init /\ [][Next]_vars

-----------------------------------------------------------------------------
(* Clauses (Appendix A, C16). *)
Expd(S) == {m \in S : m.exp}

(* a "identical set of packets" *)
FixA      == phase \in {"snapped2", "done"} => SameSet(s1, s2)
(* ... modulo the known defect: only expired packets (purged by reads) may go missing *)
KnownShape(ref, got) == /\ Lost(ref, got) \subseteq Expd(ref)
                        /\ \A m \in Gained(ref, got) : \E o \in ref : o.t = m.t   \* was hidden by o
FixAKnown == phase \in {"snapped2", "done"} => KnownShape(s1, s2)
(* nothing is ever invented by a restore *)
NoGain == s2 \subseteq s1 /\ s3 \subseteq s1 /\ s4 \subseteq s1
(* ... except at a timestamp shared by several messages (the dtm-keyed dict hid one of them) *)
NoGainT == \A S \in {s2, s3, s4} : \A m \in S \ s1 : \E o \in s1 : o.t = m.t
(* b "restoring the same snapshot twice, or into a gateway that already holds that state,
   changes nothing" *)
IdemB      == phase = "done" => (SameSet(s2, s3) /\ SameSet(s1, s4))
IdemBKnown == phase = "done" => (KnownShape(s1, s3) /\ KnownShape(s1, s4))
(* c content *)
ContentOf(S) == \A m \in S : /\ m.verb # "RQ"
                             /\ (m.verb = "W" => m.code = SchedCode)
                             /\ (~ie => (~m.exp \/ m.code = TimeCode))
ContentC == ContentOf(s1) /\ ContentOf(s2) /\ ContentOf(s3) /\ ContentOf(s4)
(* strictly by the statement (no exception for the 313F-like code): fails, by design of the code *)
ContentCStrict == \A m \in s1 \cup s2 : ~ie => ~m.exp
(* one packet per timestamp *)
UniqueT == \A S \in {s1, s2, s3, s4} : \A a, b \in S : a.t = b.t => a = b
=============================================================================

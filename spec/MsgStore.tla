------------------------------ MODULE MsgStore ------------------------------
(* C14 "State is fresh".  The per-entity message store of ramses_rf and the expiry rule.

   What is transcribed (ramses_rf/entity_base.py, ramses_tx/message.py, system/heat.py):
     * every entity (zone, DHW, system, device) keeps  _msgs_[code] = the last I/RP message routed
       to it (`_MessageDB._handle_msg`); an array message is routed to every zone it lists
       (`MultiZone._handle_msg`), so the *same* message object sits in several stores;
     * an attribute is read with `_msg_value(code | (codes), key=, zone_idx=)`: the newest (by dtm)
       of the stored messages of the attribute's codes is taken; if `msg._expired` the call only
       *schedules* `_delete_msg(msg)` with call_soon and still returns the value (StaleFirstRead);
     * `_delete_msg(msg)` removes, in every entity of the controller, the slot of msg.code if the
       message stored there is `==` msg -- Message.__eq__ compares (src, dst, verb, code, payload),
       i.e. *by value*, not identity;
     * `Message._expired`  <=>  (now - dtm - 3 s) / lifespan >= 2.0; a lifespan of False never
       expires.
   A context (Ctx) is one zone / DHW / device; a Code is one stateful code; an attribute is read
   from a set of codes (zone.setpoint <- {2309, 2349}).  Time is integer milliseconds.
   Messages are identified by their (unique) receipt time.

   No bounds in here; MC_MsgStore bounds it.  MsgStoreTrace drives the same actions from recorded
   executions of the real Gateway. *)
EXTENDS Integers, Sequences, FiniteSets, TLC

CONSTANTS
  Ctx,            \* contexts
  Code,           \* stateful codes (naturals)
  Val,            \* abstract payload values (naturals >= 1)
  Attr,           \* attribute names                       (only used by Next / invariants)
  CodesOf,        \* [Attr -> SUBSET Code]                  (only used by Next / invariants)
  LifeS, LifeA,   \* [Code -> Int] lifetime of the single / array form; 0 = no such form; -1 = never
  Grace,          \* the "few seconds' grace" (3 s in the library)
  StaleFirstRead, \* TRUE = as the code is: a read of an expired message still returns its value
  InFlight        \* TRUE = a packet may be handled between a read and the deferred delete

VARIABLES
  now,            \* clock
  slot,           \* [Ctx -> [Code -> message]]   the entity's _msgs_[code]
  last,           \* [Ctx -> [Code -> message]]   ghost: most recently received message per (ctx, code)
  pend,           \* set of messages whose _delete_msg is scheduled (call_soon) but has not run
  seenExp,        \* ghost: receipt times of messages that have been read while expired
  obs,            \* result of the Read that has just happened (or NoObs)
  h               \* history of environment choices (for -dump / -simulate extraction)

vars == <<now, slot, last, pend, seenExp, obs, h>>

Never   == -1
Unknown == 0
NoMsg   == [k |-> 0, f |-> "N", vals |-> <<>>, t |-> -1, life |-> 0]
NoObs   == [c |-> 0, cs |-> {}, v |-> Unknown, m |-> NoMsg, first |-> FALSE]

Msg(k, f, vals, t, life) == [k |-> k, f |-> f, vals |-> vals, t |-> t, life |-> life]

-----------------------------------------------------------------------------
(* The expiry rule -- pure operators, shared with the trace spec. *)

Age(m, t)        == t - m.t
CanExpire(m)     == m.life # Never
NotYetDue(m, t)  == ~CanExpire(m) \/ Age(m, t) < m.life                    \* C14b region
MustBeExp(m, t)  == CanExpire(m) /\ Age(m, t) >= 2 * m.life + Grace         \* C14c region
(* what the code computes:  (age - 3 s) / lifespan >= 2.0   (lifespan > 0) *)
Expired(m, t)    == CanExpire(m) /\ (Age(m, t) - Grace) >= 2 * m.life

SameValue(m1, m2) == m1.k = m2.k /\ m1.f = m2.f /\ m1.vals = m2.vals          \* Message.__eq__

MaxT(S) == CHOOSE m \in S : \A o \in S : o.t <= m.t

(* newest stored message among the attribute's codes: `max(msgs)` by dtm / `_msgs.get(code)` *)
Stored(sl, c, codes) == {sl[c][k] : k \in codes} \ {NoMsg}
Picked(sl, c, codes) == IF Stored(sl, c, codes) = {} THEN NoMsg ELSE MaxT(Stored(sl, c, codes))

ReadVal(sl, t, c, codes) ==
  LET m == Picked(sl, c, codes) IN
  IF m = NoMsg THEN Unknown
  ELSE IF Expired(m, t) /\ ~StaleFirstRead THEN Unknown
  ELSE m.vals[c]

(* _delete_msg for every message of P, over all stores of the controller *)
DeleteEffect(sl, P) ==
  [c \in Ctx |-> [k \in Code |->
      IF sl[c][k] # NoMsg /\ \E p \in P : SameValue(sl[c][k], p) THEN NoMsg ELSE sl[c][k]]]

StoreEffect(sl, m) ==
  [c \in Ctx |-> [k \in Code |-> IF c \in DOMAIN m.vals /\ k = m.k THEN m ELSE sl[c][k]]]

-----------------------------------------------------------------------------
(* The contract (property-level): what a read of (c, codes) may return at time t, given the most
   recently received messages `la`.  Appendix A C14 a/b/c/e, J7; a fall-back to an older message
   of *another* code of the same attribute that is not yet due is left open. *)
Known(la, c, codes)  == {la[c][k] : k \in codes} \ {NoMsg}
Newest(la, c, codes) == IF Known(la, c, codes) = {} THEN NoMsg ELSE MaxT(Known(la, c, codes))

Allowed(la, t, c, codes) ==
  LET n == Newest(la, c, codes) IN
  IF n = NoMsg THEN {Unknown}
  ELSE IF NotYetDue(n, t) THEN {n.vals[c]}
  ELSE (IF MustBeExp(n, t) THEN {} ELSE {n.vals[c]})
       \cup {Unknown}
       \cup {o.vals[c] : o \in {x \in Known(la, c, codes) \ {n} : ~MustBeExp(x, t)}}

-----------------------------------------------------------------------------
Init ==
  /\ now = 0
  /\ slot = [c \in Ctx |-> [k \in Code |-> NoMsg]]
  /\ last = [c \in Ctx |-> [k \in Code |-> NoMsg]]
  /\ pend = {}
  /\ seenExp = {}
  /\ obs = NoObs
  /\ h = <<>>

Quiet == pend = {}

(* a packet of code k, form f, carrying vals (a function  S -> Val, S \subseteq Ctx), received at t *)
ReceiveAt(k, f, vals, life, t) ==
  /\ InFlight \/ Quiet
  /\ t > now
  /\ LET m == Msg(k, f, vals, t, life) IN
       /\ slot' = StoreEffect(slot, m)
       /\ last' = StoreEffect(last, m)
  /\ now' = t
  /\ obs' = NoObs
  /\ h' = Append(h, <<"rx", k, f, {<<c, vals[c]>> : c \in DOMAIN vals}, life, t>>)
  /\ UNCHANGED <<pend, seenExp>>

(* traffic of other devices / controllers / other codes: not routed to any context *)
OtherAt(t) ==
  /\ InFlight \/ Quiet
  /\ t > now
  /\ now' = t
  /\ obs' = NoObs
  /\ h' = Append(h, <<"other", t>>)
  /\ UNCHANGED <<slot, last, pend, seenExp>>

(* tag = <<receipt time of a stored message, threshold number>>: lets the harness re-compute the
   instant with the lifetime of the real message *)
TickTo(t, tag) ==
  /\ Quiet
  /\ t > now
  /\ now' = t
  /\ obs' = NoObs
  /\ h' = Append(h, <<"tick", t, tag>>)
  /\ UNCHANGED <<slot, last, pend, seenExp>>

Read(c, codes) ==
  /\ InFlight \/ Quiet
  /\ LET m == Picked(slot, c, codes)
         ex == m # NoMsg /\ Expired(m, now) IN
       /\ obs' = [c |-> c, cs |-> codes, v |-> ReadVal(slot, now, c, codes), m |-> m,
                  first |-> ex /\ m.t \notin seenExp]
       /\ pend' = IF ex THEN pend \cup {m} ELSE pend
       /\ seenExp' = IF ex THEN seenExp \cup {m.t} ELSE seenExp
  /\ h' = Append(h, <<"read", c, codes>>)
  /\ UNCHANGED <<now, slot, last>>

(* the loop runs the deferred _delete_msg calls *)
Drain ==
  /\ pend # {}
  /\ slot' = DeleteEffect(slot, pend)
  /\ pend' = {}
  /\ obs' = NoObs
  /\ h' = Append(h, <<"drain">>)
  /\ UNCHANGED <<now, last, seenExp>>

-----------------------------------------------------------------------------
(* Environment for model checking: forms, values and clock steps at the thresholds. *)
Subsets1(S) == SUBSET S \ {{}}
Forms(k) == (IF LifeS[k] # 0 THEN {"S"} ELSE {}) \cup (IF LifeA[k] # 0 THEN {"A"} ELSE {})
LifeOf(k, f) == IF f = "S" THEN LifeS[k] ELSE LifeA[k]
AllStored == {slot[c][k] : c \in Ctx, k \in Code} \ {NoMsg}
(* the instants that matter: last instant of "not yet due", the lifetime, the last instant before
   "must be expired", and that instant *)
ThresholdAt(m, j) == CASE j = 1 -> m.t + m.life - 1
                       [] j = 2 -> m.t + m.life
                       [] j = 3 -> m.t + 2 * m.life + Grace - 1
                       [] j = 4 -> m.t + 2 * m.life + Grace

Next ==
  \/ \E k \in Code, c \in Ctx, v \in Val :
        LifeS[k] # 0 /\ ReceiveAt(k, "S", [x \in {c} |-> v], LifeS[k], now + 1)
  \/ \E k \in Code, S \in Subsets1(Ctx) : \E vals \in [S -> Val] :
        LifeA[k] # 0 /\ ReceiveAt(k, "A", vals, LifeA[k], now + 1)
  \/ OtherAt(now + 1)
  \/ \E m \in {x \in AllStored : CanExpire(x)} : \E j \in 1..4 : TickTo(ThresholdAt(m, j), <<m.t, j>>)
  \/ \E c \in Ctx, a \in Attr : Read(c, CodesOf[a])
  \/ Drain

Spec == Init /\ [][Next]_vars

-----------------------------------------------------------------------------
(* Clauses, on the model. *)

(* C14a "the one carried by the most recently received message ... regardless of what traffic for
   other zones, devices or codes is interleaved": while the newest message is not yet due, a read
   (performed in any quiescent state) returns its value. *)
FreshA ==
  Quiet => \A c \in Ctx, a \in Attr :
     LET n == Newest(last, c, CodesOf[a]) IN
       (n # NoMsg /\ NotYetDue(n, now)) => ReadVal(slot, now, c, CodesOf[a]) = n.vals[c]

(* no value without a message *)
NoInvention ==
  \A c \in Ctx, a \in Attr :
     ReadVal(slot, now, c, CodesOf[a]) \in
        {Unknown} \cup {last[c][k].vals[c] : k \in {x \in CodesOf[a] : last[c][x] # NoMsg}}

(* C14b / C14c on the rule itself *)
ThresholdB == \A m \in AllStored : NotYetDue(m, now) => ~Expired(m, now)
ThresholdC == \A m \in AllStored : MustBeExp(m, now) => Expired(m, now)

(* C14d "expiry never un-happens as time advances" *)
MonotoneD == [][\A m \in AllStored : (Expired(m, now) /\ now' >= now) => Expired(m, now')]_vars

(* C14e "once expired its value stops being reported".  The read just performed returned an
   allowed value -- except (StaleFirstRead) the known defect: the first read of a message after
   it expired returns its stale value. *)
ReadE ==
  obs # NoObs =>
     \/ obs.v \in Allowed(last, now, obs.c, obs.cs)
     \/ StaleFirstRead /\ obs.first /\ obs.v = obs.m.vals[obs.c]

(* strict form (no allowance): holds only for the repaired rule *)
ReadEStrict == obs # NoObs => obs.v \in Allowed(last, now, obs.c, obs.cs)

(* the stores never hold anything but the most recently received message (or nothing) *)
StoreIsLast == \A c \in Ctx, k \in Code : slot[c][k] \in {NoMsg, last[c][k]}
=============================================================================

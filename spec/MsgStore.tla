------------------------------ MODULE MsgStore ------------------------------
(* C14 "State is fresh".  The per-entity message store of ramses_rf and the expiry rule.

   What is transcribed (ramses_rf/entity_base.py, ramses_tx/message.py, system/heat.py):
     * every entity (zone, DHW, system, device) keeps  _msgs_[code] = the last I/RP message routed
       to it (`_MessageDB._handle_msg`); an array message is routed to every zone it lists
       (`MultiZone._handle_msg`), so the *same* message object sits in several stores;
     * an attribute is read with `_msg_value(code | (codes), key=, zone_idx=)`: the newest (by dtm)
       of the stored messages of the attribute's codes is taken; if `msg._expired` the call only
       *schedules* `_delete_msg(msg)` with call_soon and still returns the value (StaleFirstRead);
     * `_delete_msg(msg)` removes, in every entity of the controller, the slot of msg.code if the
       message stored there is `==` msg -- Message.__eq__ compares (src, dst, verb, code, payload),
       i.e. *by value*, not identity;
     * `Message._expired`  <=>  (now - dtm - 3 s) / lifespan >= 2.0; a lifespan of False never
       expires.
   A context (Ctx) is one zone / DHW / device; a Code is one stateful code; an attribute is read
   from a set of codes (zone.setpoint <- {2309, 2349}).  Time is integer milliseconds.

   Stamp and arrival order are two things.  A message's stamp (m.t, the library's dtm) is the reading of the
   wall clock when its frame was taken out of the serial buffer; two frames of one read carry the same
   millisecond, and a clock that is put back (NTP step, end of DST - the library uses naive local time - or a
   remote gateway's corrected 'ts') gives a later message an earlier stamp.  "Most recently received" is
   decided by arrival (m.n = 1, 2, 3 ... in order of receipt; messages are identified by it), never by the
   stamp; ages - the library's and the contract's - are measured from the stamp.  `skew` is the total amount
   the clock has been put back so far, so now + skew is the time that really elapsed and m.r = the real
   instant of receipt: "before the lifetime has passed" is judged on the real age (>= the age by the clock),
   "once twice the lifetime has passed" on the age by the clock - a verdict only where both readings agree.
   With StampSteps = {1} (skew = 0, stamps strictly increasing) all of this collapses to receipt time.

   No bounds in here; MC_MsgStore bounds it.  MsgStoreTrace drives the same actions from recorded
   executions of the real Gateway. *)
EXTENDS Integers, Sequences, FiniteSets, TLC

CONSTANTS
  Ctx,            \* contexts
  Code,           \* stateful codes (naturals)
  Val,            \* abstract payload values (naturals >= 1)
  Attr,           \* attribute names                       (only used by Next / invariants)
  CodesOf,        \* [Attr -> SUBSET Code]                  (only used by Next / invariants)
  LifeS, LifeA,   \* [Code -> Int] lifetime of the single / array form; 0 = no such form; -1 = never
  Grace,          \* the "few seconds' grace" (3 s in the library)
  StaleFirstRead, \* TRUE = as the code is: a read of an expired message still returns its value
  InFlight,       \* TRUE = a packet may be handled between a read and the deferred delete
  StampSteps,     \* by how much the clock reading of a packet may differ from the clock before it:
                  \* {1} = strictly increasing stamps; 0 = same millisecond; < 0 = the clock was put back
  CrossCodeOpen   \* TRUE = left open: which of two *codes* of one attribute is "the most recent" when the
                  \* one that arrived earlier carries a stamp that is not older (the library takes the
                  \* greatest stamp: `max(msgs)`); FALSE = arrival order decides there, too

VARIABLES
  now,            \* clock (what the library's _dt_now() returns)
  skew,           \* ghost: by how much the clock has been put back in total (now + skew = real time)
  nrx,            \* number of messages received so far (arrival counter)
  slot,           \* [Ctx -> [Code -> message]]   the entity's _msgs_[code]
  last,           \* [Ctx -> [Code -> message]]   ghost: most recently received message per (ctx, code)
  pend,           \* set of messages whose _delete_msg is scheduled (call_soon) but has not run
  seenExp,        \* ghost: arrival numbers of messages that have been read while expired
  obs,            \* result of the Read that has just happened (or NoObs)
  h               \* history of environment choices (for -dump / -simulate extraction)

vars == <<now, skew, nrx, slot, last, pend, seenExp, obs, h>>

Never   == -1
Unknown == 0
NoMsg   == [k |-> 0, f |-> "N", vals |-> <<>>, t |-> -1, life |-> 0, n |-> 0, r |-> -1]
NoObs   == [c |-> 0, cs |-> {}, v |-> Unknown, m |-> NoMsg, first |-> FALSE]

(* t = stamp (clock at receipt), n = arrival number, r = real instant of receipt (t + skew then) *)
Msg(k, f, vals, t, life, n, r) == [k |-> k, f |-> f, vals |-> vals, t |-> t, life |-> life, n |-> n, r |-> r]

-----------------------------------------------------------------------------
(* The expiry rule -- pure operators, shared with the trace spec. *)

Age(m, t)        == t - m.t                        \* by the clock, from the stamp (what the library computes)
RealAge(m, t, sk) == (t + sk) - m.r                \* time really elapsed since receipt (>= Age: the clock only
                                                   \* ever loses against real time, by being put back)
CanExpire(m)     == m.life # Never
NotYetDue(m, t, sk) == ~CanExpire(m) \/ RealAge(m, t, sk) < m.life          \* C14b region
MustBeExp(m, t)  == CanExpire(m) /\ Age(m, t) >= 2 * m.life + Grace         \* C14c region
(* what the code computes:  (age - 3 s) / lifespan >= 2.0   (lifespan > 0) *)
Expired(m, t)    == CanExpire(m) /\ (Age(m, t) - Grace) >= 2 * m.life

SameValue(m1, m2) == m1.k = m2.k /\ m1.f = m2.f /\ m1.vals = m2.vals          \* Message.__eq__

(* `max(msgs)`: Message.__lt__ compares the stamps.  Among equal stamps (only possible between two codes of
   one attribute - a store has one slot per code) the library takes the first in the order of its dict; the
   model leaves that choice open (a set of candidates) *)
TopStamp(S) == {m \in S : \A o \in S : o.t <= m.t}
MaxN(S)     == CHOOSE m \in S : \A o \in S : o.n <= m.n

(* newest stored message among the attribute's codes: `max(msgs)` by dtm / `_msgs.get(code)` *)
Stored(sl, c, codes) == {sl[c][k] : k \in codes} \ {NoMsg}
Picks(sl, c, codes)  == IF Stored(sl, c, codes) = {} THEN {NoMsg} ELSE TopStamp(Stored(sl, c, codes))

ValOf(m, t, c) ==
  IF m = NoMsg THEN Unknown
  ELSE IF Expired(m, t) /\ ~StaleFirstRead THEN Unknown
  ELSE m.vals[c]
ReadVals(sl, t, c, codes) == {ValOf(m, t, c) : m \in Picks(sl, c, codes)}

(* _delete_msg for every message of P, over all stores of the controller *)
DeleteEffect(sl, P) ==
  [c \in Ctx |-> [k \in Code |->
      IF sl[c][k] # NoMsg /\ \E p \in P : SameValue(sl[c][k], p) THEN NoMsg ELSE sl[c][k]]]

(* `self._msgs_[msg.code] = msg`: whatever the stamps say, the message that arrives replaces the stored one *)
StoreEffect(sl, m) ==
  [c \in Ctx |-> [k \in Code |-> IF c \in DOMAIN m.vals /\ k = m.k THEN m ELSE sl[c][k]]]

(* the ghost: the message that arrived last, per (ctx, code) - by definition, not by what the library does *)
LastEffect(la, m) ==
  [c \in Ctx |-> [k \in Code |-> IF c \in DOMAIN m.vals /\ k = m.k THEN m ELSE la[c][k]]]

-----------------------------------------------------------------------------
(* The contract (property-level): what a read of (c, codes) may return at clock t (clock put back by sk in
   total), given the most recently received messages `la`.  Appendix A C14 a/b/c/e, J7; a fall-back to an
   older message of *another* code of the same attribute that is not yet due is left open.
   "Most recently received" = greatest arrival number. *)
Known(la, c, codes)  == {la[c][k] : k \in codes} \ {NoMsg}
Newest(la, c, codes) == IF Known(la, c, codes) = {} THEN NoMsg ELSE MaxN(Known(la, c, codes))

(* what may be reported if x is taken for the most recent message of the attribute *)
AllowedAs(x, la, t, sk, c, codes) ==
  IF NotYetDue(x, t, sk) THEN {x.vals[c]}
  ELSE (IF MustBeExp(x, t) THEN {} ELSE {x.vals[c]})
       \cup {Unknown}
       \cup {o.vals[c] : o \in {y \in Known(la, c, codes) \ {x} : ~MustBeExp(y, t)}}

(* the messages that may be taken for the most recent one: the one that arrived last and, if that is left
   open, a message of another code of the attribute that arrived before it with a stamp that is not older *)
Recent(la, c, codes) ==
  LET n == Newest(la, c, codes) IN
  {n} \cup (IF CrossCodeOpen THEN {o \in Known(la, c, codes) : o.k # n.k /\ o.t >= n.t} ELSE {})

Allowed(la, t, sk, c, codes) ==
  IF Known(la, c, codes) = {} THEN {Unknown}
  ELSE UNION {AllowedAs(x, la, t, sk, c, codes) : x \in Recent(la, c, codes)}

-----------------------------------------------------------------------------
Init ==
  /\ now = 0
  /\ skew = 0
  /\ nrx = 0
  /\ slot = [c \in Ctx |-> [k \in Code |-> NoMsg]]
  /\ last = [c \in Ctx |-> [k \in Code |-> NoMsg]]
  /\ pend = {}
  /\ seenExp = {}
  /\ obs = NoObs
  /\ h = <<>>

Quiet == pend = {}

(* the clock reads t when the next packet is taken in: t > now = time went by; t = now = the same
   millisecond (a second frame of one serial read); t < now = the clock was put back meanwhile *)
SkewAt(t) == skew + (IF t < now THEN now - t ELSE 0)

(* a packet of code k, form f, carrying vals (a function  S -> Val, S \subseteq Ctx), stamped t *)
ReceiveAt(k, f, vals, life, t) ==
  /\ InFlight \/ Quiet
  /\ t >= 0
  /\ LET m == Msg(k, f, vals, t, life, nrx + 1, t + SkewAt(t)) IN
       /\ slot' = StoreEffect(slot, m)
       /\ last' = LastEffect(last, m)
  /\ now' = t
  /\ skew' = SkewAt(t)
  /\ nrx' = nrx + 1
  /\ obs' = NoObs
  /\ h' = Append(h, <<"rx", k, f, {<<c, vals[c]>> : c \in DOMAIN vals}, life, t, nrx + 1, t - now>>)
  /\ UNCHANGED <<pend, seenExp>>

(* traffic of other devices / controllers / other codes: not routed to any context *)
OtherAt(t) ==
  /\ InFlight \/ Quiet
  /\ t >= 0
  /\ now' = t
  /\ skew' = SkewAt(t)
  /\ obs' = NoObs
  /\ h' = Append(h, <<"other", t, t - now>>)
  /\ UNCHANGED <<nrx, slot, last, pend, seenExp>>

(* tag = <<arrival number of a stored message, threshold number>>: lets the harness re-compute the
   instant with the lifetime of the real message *)
TickTo(t, tag) ==
  /\ Quiet
  /\ t > now
  /\ now' = t
  /\ obs' = NoObs
  /\ h' = Append(h, <<"tick", t, tag>>)
  /\ UNCHANGED <<skew, nrx, slot, last, pend, seenExp>>

(* which of several messages with the greatest stamp is taken is left open (see TopStamp) *)
Read(c, codes) ==
  /\ InFlight \/ Quiet
  /\ \E m \in Picks(slot, c, codes) :
       LET ex == m # NoMsg /\ Expired(m, now) IN
       /\ obs' = [c |-> c, cs |-> codes, v |-> ValOf(m, now, c), m |-> m,
                  first |-> ex /\ m.n \notin seenExp]
       /\ pend' = IF ex THEN pend \cup {m} ELSE pend
       /\ seenExp' = IF ex THEN seenExp \cup {m.n} ELSE seenExp
  /\ h' = Append(h, <<"read", c, codes>>)
  /\ UNCHANGED <<now, skew, nrx, slot, last>>

(* the loop runs the deferred _delete_msg calls *)
Drain ==
  /\ pend # {}
  /\ slot' = DeleteEffect(slot, pend)
  /\ pend' = {}
  /\ obs' = NoObs
  /\ h' = Append(h, <<"drain">>)
  /\ UNCHANGED <<now, skew, nrx, last, seenExp>>

-----------------------------------------------------------------------------
(* Environment for model checking: forms, values and clock steps at the thresholds. *)
Subsets1(S) == SUBSET S \ {{}}
Forms(k) == (IF LifeS[k] # 0 THEN {"S"} ELSE {}) \cup (IF LifeA[k] # 0 THEN {"A"} ELSE {})
LifeOf(k, f) == IF f = "S" THEN LifeS[k] ELSE LifeA[k]
AllStored == {slot[c][k] : c \in Ctx, k \in Code} \ {NoMsg}
(* the instants that matter: last instant of "not yet due", the lifetime, the last instant before
   "must be expired", and that instant *)
ThresholdAt(m, j) == CASE j = 1 -> m.t + m.life - 1
                       [] j = 2 -> m.t + m.life
                       [] j = 3 -> m.t + 2 * m.life + Grace - 1
                       [] j = 4 -> m.t + 2 * m.life + Grace

Next ==
  \/ \E k \in Code, c \in Ctx, v \in Val, d \in StampSteps :
        LifeS[k] # 0 /\ ReceiveAt(k, "S", [x \in {c} |-> v], LifeS[k], now + d)
  \/ \E k \in Code, S \in Subsets1(Ctx), d \in StampSteps : \E vals \in [S -> Val] :
        LifeA[k] # 0 /\ ReceiveAt(k, "A", vals, LifeA[k], now + d)
  \/ \E d \in StampSteps : OtherAt(now + d)
  \/ \E m \in {x \in AllStored : CanExpire(x)} : \E j \in 1..4 : TickTo(ThresholdAt(m, j), <<m.n, j>>)
  \/ \E c \in Ctx, a \in Attr : Read(c, CodesOf[a])
  \/ Drain

Spec == Init /\ [][Next]_vars

-----------------------------------------------------------------------------
(* Clauses, on the model. *)

(* C14a "the one carried by the most recently received message ... regardless of what traffic for
   other zones, devices or codes is interleaved": while the newest message - the one that arrived last,
   whatever its stamp - is not yet due, a read (performed in any quiescent state) returns its value. *)
FreshA ==
  Quiet => \A c \in Ctx, a \in Attr :
     LET n == Newest(last, c, CodesOf[a]) IN
       (n # NoMsg /\ NotYetDue(n, now, skew)) =>
          ReadVals(slot, now, c, CodesOf[a]) \subseteq Allowed(last, now, skew, c, CodesOf[a])

(* no value without a message *)
NoInvention ==
  \A c \in Ctx, a \in Attr :
     ReadVals(slot, now, c, CodesOf[a]) \subseteq
        {Unknown} \cup {last[c][k].vals[c] : k \in {x \in CodesOf[a] : last[c][x] # NoMsg}}

(* C14b / C14c on the rule itself *)
ThresholdB == \A m \in AllStored : NotYetDue(m, now, skew) => ~Expired(m, now)
ThresholdC == \A m \in AllStored : MustBeExp(m, now) => Expired(m, now)

(* C14d "expiry never un-happens as time advances" *)
MonotoneD == [][\A m \in AllStored : (Expired(m, now) /\ now' >= now) => Expired(m, now')]_vars

(* C14e "once expired its value stops being reported".  The read just performed returned an
   allowed value -- except (StaleFirstRead) the known defect: the first read of a message after
   it expired returns its stale value. *)
ReadE ==
  obs # NoObs =>
     \/ obs.v \in Allowed(last, now, skew, obs.c, obs.cs)
     \/ StaleFirstRead /\ obs.first /\ obs.v = obs.m.vals[obs.c]

(* strict form (no allowance): holds only for the repaired rule *)
ReadEStrict == obs # NoObs => obs.v \in Allowed(last, now, skew, obs.c, obs.cs)

(* the stores never hold anything but the most recently received message (or nothing) *)
StoreIsLast == \A c \in Ctx, k \in Code : slot[c][k] \in {NoMsg, last[c][k]}
=============================================================================

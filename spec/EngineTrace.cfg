SPECIFICATION TSpec
CONSTANTS
  TryFinally = FALSE
  CfgSending = FALSE
  CfgDisc = FALSE
INVARIANT Verdict

CONSTANTS MaxTp = 6  Silent <- Silent25  FixActive = TRUE  FixShield = TRUE  Overlap = FALSE
SPECIFICATION Spec
CHECK_DEADLOCK FALSE
INVARIANT NoTrip
INVARIANT StartOkMeansServing
INVARIANT StopMeansInactive
INVARIANT Restartable
INVARIANT CtxTracksConnection

-------------------------- MODULE MC_DevFilterLife --------------------------
(* Bounded instance for C10, life cycle of one protocol object: the connection is lost and
   made again (Engine.stop() + start(), a re-connecting transport, a dongle that is re-plugged
   or replaced), the new transport reporting the same, another or no active gateway id.
   One state per (configuration, history, filter state of the code after that history).
   TLC checks that after every history the code's filter answers every (src, dst, shape,
   direction) as the statement demands under the configuration in force - i.e. that the
   filter is stateless over connection_made / connection_lost (J24) - and that its state
   is the one a fresh protocol object gets from a single connection.
   AppendActive = TRUE is the variant the code asks about in a comment of _set_active_hgi
   ("# self._include.append(dev_id)  # a good idea?"): MC_DevFilterLife_x.cfg expects
   Stateless to FAIL for it (a former gateway stays allowed).                             *)
EXTENDS DevFilter

CONSTANTS HgiOpts, PhOpts, FgnOpts, MaxHist, AppendActive

CfgSet == [kl : BOOLEAN, hgi : HgiOpts, bl : BOOLEAN, gwb : BOOLEAN, enf : BOOLEAN,
           act : Acts, ph : PhOpts, fgn : FgnOpts]

Pairs == {p \in [src : Roles, dst : Roles, shape : Shapes, dir : Dirs] :
            Expressible(p.src, p.dst, p.shape)}

VARIABLES c, h, s
vars == <<c, h, s>>

Init == /\ c \in CfgSet
        /\ h = <<>>
        /\ s = CodeConnMadeP(CodeInit(c), c.act, AppendActive)

Lost    == /\ Up(h) /\ Len(h) < MaxHist
           /\ h' = Append(h, "lost") /\ s' = CodeConnLost(s) /\ UNCHANGED c
Made(a) == /\ ~Up(h)
           /\ h' = Append(h, a) /\ s' = CodeConnMadeP(s, a, AppendActive) /\ UNCHANGED c
Next == Lost \/ \E a \in Acts : Made(a)
Spec == Init /\ [][Next]_vars

RowNow(p) == [cfg |-> InForce(c, h), src |-> p.src, dst |-> p.dst, shape |-> p.shape, dir |-> p.dir]

LegalHistory == LegalHist(h)
(* the code's answer after the history = the statement under the configuration in force *)
Stateless    == \A p \in Pairs : CodeWantedIn(s, RowNow(p)) = MustPass(RowNow(p))
(* ... because nothing of an earlier connection is left in the filter's state *)
EqualsFresh  == s = CodeState(InForce(c, h))
FoldAgrees   == s = CodeAfter(c, h)           \* the fold DevFilterTrace uses = this state machine
(* named interaction: an id that was the active gateway of an earlier connection and is
   neither listed nor the active gateway now is like any other unlisted id               *)
FormerGatewayNotExempt ==
    \A i \in 1..Len(h) : \A p \in Pairs :
        LET old == IF i = 1 THEN ActiveId(c) ELSE ActId(h[i - 1]) IN
        (/\ h[i] = "lost" /\ old # "NoId" /\ old \in {p.src, p.dst}
         /\ Enforced(c) /\ old \notin Known(c) /\ old # ActiveId(InForce(c, h)))
        => MustDrop(RowNow(p)) /\ ~CodeWantedIn(s, RowNow(p))
=============================================================================

SPECIFICATION Spec
CONSTANTS MaxEv = 40  NoSchedOn = FALSE  OwnDefault = TRUE  FetchOn = TRUE
  Zones <- ZonesC  Vers <- VersT  NF <- NFc  ZoneOf <- ZoneOfC
CONSTRAINT Bound
INVARIANT SameOrNone
INVARIANT DefaultUntouched
CHECK_DEADLOCK FALSE

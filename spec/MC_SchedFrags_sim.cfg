SPECIFICATION Spec
CONSTANTS MaxEv = 40  NoSchedOn = FALSE
  Zones <- ZonesC  Vers <- VersT  NF <- NFc  ZoneOf <- ZoneOfC
CONSTRAINT Bound
INVARIANT SameOrNone
CHECK_DEADLOCK FALSE

SPECIFICATION Spec
CONSTANTS MaxEv = 40  NoSchedOn = FALSE  OwnDefault = TRUE
  Zones <- ZonesC  Vers <- VersT  NF <- NFc  ZoneOf <- ZoneOfC
CONSTRAINT Bound
INVARIANT SameOrNone
INVARIANT DefaultUntouched
CHECK_DEADLOCK FALSE

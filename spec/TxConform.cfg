SPECIFICATION CSpec
CONSTANTS
  Rate <- RateV
  Cap <- CapV
  Gap <- GapV
  Writers = {1, 2, 3, 4, 5, 6, 7, 8}
  Sizes <- SizesV
  InitBucket <- InitC
  AdvSteps = {}
  CallUntil = 2000000000
  MaxTime = 2000000000
  Serialised = FALSE
CONSTRAINT Matches
INVARIANT Report

SPECIFICATION Spec
CONSTANTS
  Zones = {1, 2}
  FixLock = TRUE
  FixAck = TRUE
  FixStale = TRUE
  ZlibDetects = TRUE
  MaxMain = 2
  MaxFaults = 0
  MaxBumps = 1
  MaxHeard = 0
  MaxAge = 0
  AllowSet = TRUE
  HeardStale = FALSE
  HeardAcks = FALSE
  Shared <- SharedHead
CONSTRAINT Bound
INVARIANT TypeOK
INVARIANT ResultAsOfRead
INVARIANT NeverMixed
CHECK_DEADLOCK TRUE
VIEW View

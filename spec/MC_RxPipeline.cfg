\* port part, the code with every constructor exception mapped to the invalid-packet error:
\* all streams of <= C01_MAXLEN symbols x all partitions (cuts hidden by the VIEW)
SPECIFICATION Spec
CONSTANTS
  Mode = "port"
  Escaping = FALSE
  Streams <- AllStreams
  MaxZero <- MaxZeroDef
  FileShapes <- NoShapes
VIEW PortView
INVARIANT SplitInv
INVARIANT PartitionIndependent
INVARIANT NoLoopException

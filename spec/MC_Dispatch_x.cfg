SPECIFICATION Spec
CONSTANT Quick = TRUE
INVARIANT X_RefusedCreatesNothing
CHECK_DEADLOCK FALSE

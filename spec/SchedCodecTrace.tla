---------------------------- MODULE SchedCodecTrace ----------------------------
(* Table validation for the codec half of C17: one item = one row recorded from the real code
   (harness/ext_c17.py codec_row):
     [kind "zon"|"dhw", zone, inp, out, zout, exc, lens, cmds]
   fail = <<>> or <<1, clause>> or <<1, clause, "clause2,clause3">> with every failing clause of the row:
     "harness"        the row is outside the statement's domain or the validator refused it
     "Identity"   a   "FitsFrame"  b   "WriteAccepted"  c                                   *)
EXTENDS SchedCodec, TLC, Json, IOUtils

Rows == JsonDeserialize(IOEnv.TRACE_FILE)
VARIABLES tid, l, fail
vars == <<tid, l, fail>>

Judge(r) ==
  LET dhw == r.kind = "dhw"
      bad == IF r.exc \in {"validator:MultipleInvalid", "validator:Invalid"} \/ ~InDomain(r.inp, dhw)
             THEN <<"harness">>
             ELSE SelectSeq(<<"Identity", "FitsFrame", "WriteAccepted">>,
                    LAMBDA c : CASE c = "Identity"  -> ~(r.exc = "" /\ Identity(r.inp, r.zone, r.out, r.zout))
                                 [] c = "FitsFrame" -> r.lens # <<>> /\ ~FitsFrame(r.lens)
                                 [] c = "WriteAccepted" -> r.lens # <<>> /\ ~WriteAccepted(r.cmds, Len(r.lens)))
      Join[n \in 1..3] == IF n > Len(bad) THEN "" ELSE bad[n] \o (IF n < Len(bad) THEN "," ELSE "") \o
                                                       (IF n < 3 THEN Join[n + 1] ELSE "")
  IN IF bad = <<>> THEN <<>>
     ELSE IF Len(bad) = 1 THEN <<1, bad[1]>> ELSE <<1, bad[1], Join[2]>>   \* a string: cannot be line-wrapped

Init == tid \in 1..Len(Rows) /\ l = 1 /\ fail = <<>>
Step == l = 1 /\ fail' = Judge(Rows[tid]) /\ l' = 2 /\ UNCHANGED tid
Spec == Init /\ [][Step]_vars
Verdict == (l = 2) => PrintT(<<"VERDICT", tid, fail>>)
=============================================================================

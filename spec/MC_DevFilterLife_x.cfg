SPECIFICATION Spec
CONSTANTS
  HgiOpts = {"no", "explicit", "implicit"}
  PhOpts = {"none"}
  FgnOpts = {"none"}
  MaxHist = 2
  AppendActive = TRUE
INVARIANT LegalHistory
INVARIANT Stateless

SPECIFICATION TSpec
CONSTANTS MaxIdx = 62
  Depth <- DepthC  Starts <- StartsC  Limits <- LimitsC  Kinds <- KindsC  Repair <- RepairC  PushOnNew <- PushC
INVARIANT Verdict
CHECK_DEADLOCK FALSE

SPECIFICATION Spec
INVARIANT Verdict

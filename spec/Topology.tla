------------------------------ MODULE Topology ------------------------------
(* C15 - the parent/child graph a Gateway builds from topology claims.

   Implementation-shaped transcription of
     entity_base.Child.set_parent/_get_parent, Parent._add_child          (accept / refuse rules)
     system/heat.MultiZone._handle_msg (0005, 000C), get_htg_zone, StoredHw (000C 0D/0E),
     SystemBase (000C 0F), system/zones.Zone._handle_msg/_update_schema.set_zone_type, DhwZone
   Claims (what traffic can say):
     Mask(c, k, S)        RP 0005 from controller c: the zones S have class k   (k = "04": have a sensor)
     ZoneDevs(c, z, r, D) RP 000C: zone z has the devices D (a sequence) in role r
                          (r = "04" sensor, "00" any actuator, a class code = actuators of that class)
     DhwDev(c, r, d)      RP 000C 000D / 000E / 010E: DHW sensor / hot-water valve / heating valve
     App(c, d)            RP 000C 000F: appliance control
     Eav(c, z, d)         (eavesdropping) thermostat d writes a setpoint for zone z to controller c
     ZoneDevs / DhwDev / App with NO device (the reply's only element is 7FFFFFFF): "this role is empty".
                          The code tells an existing zone / DHW zone (which returns at once), creates nothing,
                          releases nothing and raises nothing: the graph stays as it is.
     Fake(d)              not traffic - the application calls gwy.fake_device(d) (impersonation).  Faking is
                          no part of the graph: whether it succeeds (thermostats, DHW sensors that exist) or
                          raises to its caller (LookupError, TypeError), the graph stays as it is.
   A refused claim raises (SystemSchemaInconsistent, TypeError, ValueError, ...) out of the message
   handler: `rep` records that; effects made before the raise persist (zones created, devices added).

   Structural clauses (C15c, C15d) are invariants / an action property of this graph. *)
EXTENDS Naturals, FiniteSets, Sequences, TLC

CONSTANTS
  Ctls,       \* controller ids
  ZoneIds,    \* zone indexes claims may name (strings)
  ZNum,       \* ZNum[z] : the index as a number
  MaxZones,   \* configured max_zones
  Devs,       \* device ids that claims may name (the controllers may be among them)
  PairDevs,   \* subset of Devs from which two-device replies are formed (keeps the alphabet small)
  TypeOf,     \* TypeOf[d] \in {"CTL","THM","TRV","BDR","DHW","OTB"}
  Classes,    \* zone class codes, e.g. {"08","11"}
  Eavesdrop,  \* BOOLEAN
  FakeDevs,   \* subset of Devs the application may ask to fake
  MaxClaims   \* bound on the length of a history

None == ""
Z(c, z) == c \o "_" \o z        \* parent ids, as the harness projects them
HW(c) == c \o "_HW"
FF(c) == c \o "_FF"

VARIABLES
  zones,   \* zones[c] : set of existing zone indexes
  cls,     \* cls[c][z], sen[c][z], acts[c][z] : class / sensor / actuators of a zone (if it exists)
  sen,
  acts,
  dhw,     \* dhw[c] : [ex, sen, hwv, htv]
  app,     \* app[c]
  par,     \* par[d] : parent id of device d ("" = none)
  ctl,     \* ctl[d] : controller of device d ("" = none)
  rep,     \* the last claim raised
  hist     \* the claims so far (for the harness)

vars == <<zones, cls, sen, acts, dhw, app, par, ctl, rep, hist>>

G == [zones |-> zones, cls |-> cls, sen |-> sen, acts |-> acts, dhw |-> dhw, app |-> app,
      par |-> par, ctl |-> ctl, rep |-> FALSE]

(* ---------------------------------------------------------------- set_parent *)
SensorTypes(kind) == IF kind = "zone" THEN {"CTL", "THM", "TRV"} ELSE IF kind = "dhw" THEN {"DHW"} ELSE {}
ActuatorTypes(kind) == IF kind = "zone" THEN {"BDR", "TRV"} ELSE IF kind = "dhw" THEN {"BDR"} ELSE {"BDR", "OTB"}

Raise(g) == [g EXCEPT !.rep = TRUE]

\* Child.set_parent(parent, child_id, is_sensor) for parent = zone z / DHW zone / system of c.
\* slot \in {"sen", "act", "dsen", "hwv", "htv", "app"}
SetParent(g, d, c, kind, z, slot) ==
  LET P == IF kind = "zone" THEN Z(c, z) ELSE IF kind = "dhw" THEN HW(c) ELSE FF(c)
      isSen == slot \in {"sen", "dsen"}
  IN
  IF g.rep THEN g
  ELSE IF g.par[d] # None /\ g.par[d] # P THEN Raise(g)                 \* cant change parent
  ELSE IF isSen /\ TypeOf[d] \notin SensorTypes(kind) THEN Raise(g)     \* TypeError
  ELSE IF ~isSen /\ TypeOf[d] \notin ActuatorTypes(kind) THEN Raise(g)  \* TypeError
  ELSE IF g.ctl[d] # None /\ g.ctl[d] # c THEN Raise(g)                 \* cant change controller
  ELSE IF slot = "sen" /\ g.sen[c][z] # None /\ g.sen[c][z] # d THEN Raise(g)
  ELSE IF slot = "dsen" /\ g.dhw[c].sen # None /\ g.dhw[c].sen # d THEN Raise(g)
  ELSE IF slot = "hwv" /\ g.dhw[c].hwv # None /\ g.dhw[c].hwv # d THEN Raise(g)
  ELSE IF slot = "htv" /\ g.dhw[c].htv # None /\ g.dhw[c].htv # d THEN Raise(g)
  ELSE IF slot = "app" /\ g.app[c] # None /\ g.app[c] # d THEN Raise(g)
  ELSE LET g1 == [g EXCEPT !.par[d] = P, !.ctl[d] = c] IN
       IF slot = "sen" THEN [g1 EXCEPT !.sen[c][z] = d]
       ELSE IF slot = "act" THEN [g1 EXCEPT !.acts[c][z] = @ \cup {d}]
       ELSE IF slot = "dsen" THEN [g1 EXCEPT !.dhw[c].sen = d]
       ELSE IF slot = "hwv" THEN [g1 EXCEPT !.dhw[c].hwv = d]
       ELSE IF slot = "htv" THEN [g1 EXCEPT !.dhw[c].htv = d]
       ELSE [g1 EXCEPT !.app[c] = d]

(* ---------------------------------------------------------------- zones *)
\* get_htg_zone(z): Zone.__init__ raises ValueError beyond max_zones
EnsureZone(g, c, z) ==
  IF g.rep \/ z \in g.zones[c] THEN g
  ELSE IF ZNum[z] >= MaxZones THEN Raise(g)
  ELSE [g EXCEPT !.zones[c] = @ \cup {z}]

\* Zone._update_schema(class=k): promotion, or SystemSchemaInconsistent on a different class
SetClass(g, c, z, k) ==
  IF g.rep THEN g
  ELSE IF g.cls[c][z] = k THEN g
  ELSE IF g.cls[c][z] # None THEN Raise(g)
  ELSE [g EXCEPT !.cls[c][z] = k]

\* the lowest-numbered zone of a set first (the code walks the mask by index)
MinZ(S) == CHOOSE z \in S : \A y \in S : ZNum[z] <= ZNum[y]

RECURSIVE MaskFold(_, _, _, _)
MaskFold(g, c, k, S) ==
  IF S = {} \/ g.rep THEN g
  ELSE LET z == MinZ(S)
           g1 == EnsureZone(g, c, z)
           g2 == IF k = "04" THEN g1 ELSE SetClass(g1, c, z, k)
       IN MaskFold(g2, c, k, S \ {z})

RECURSIVE DevFold(_, _, _, _, _)
DevFold(g, c, z, slot, D) ==     \* for dev_id in devices: get_device(dev_id, parent=zone)
  IF D = <<>> \/ g.rep THEN g
  ELSE DevFold(SetParent(g, Head(D), c, "zone", z, slot), c, z, slot, Tail(D))

ZoneDevsResult(g, c, z, r, D) ==
  LET g1 == EnsureZone(g, c, z) IN
  IF r = "04" THEN SetParent(g1, D[1], c, "zone", z, "sen")
  ELSE IF r = "00" THEN DevFold(g1, c, z, "act", D)
  ELSE SetClass(DevFold(g1, c, z, "act", D), c, z, r)

DhwResult(g, c, r, d) ==
  LET g1 == [g EXCEPT !.dhw[c].ex = TRUE] IN      \* get_dhw_zone() comes first
  SetParent(g1, d, c, "dhw", "", IF r = "0D" THEN "dsen" ELSE IF r = "0E0" THEN "hwv" ELSE "htv")

\* Child._handle_msg.eavesdrop_parent_zone: only while the device has no parent
EavResult(g, c, z, d) ==
  IF g.par[d] # None THEN g
  ELSE IF ZNum[z] >= MaxZones THEN Raise(g)   \* parent stays the system: TypeError
  ELSE SetParent(EnsureZone(g, c, z), d, c, "zone", z, "sen")

(* ---------------------------------------------------------------- actions *)
Init ==
  /\ zones = [c \in Ctls |-> {}]
  /\ cls = [c \in Ctls |-> [z \in ZoneIds |-> None]]
  /\ sen = [c \in Ctls |-> [z \in ZoneIds |-> None]]
  /\ acts = [c \in Ctls |-> [z \in ZoneIds |-> {}]]
  /\ dhw = [c \in Ctls |-> [ex |-> FALSE, sen |-> None, hwv |-> None, htv |-> None]]
  /\ app = [c \in Ctls |-> None]
  /\ par = [d \in Devs |-> None]
  /\ ctl = [d \in Devs |-> None]
  /\ rep = FALSE
  /\ hist = <<>>

Apply(g, claim) ==
  /\ zones' = g.zones /\ cls' = g.cls /\ sen' = g.sen /\ acts' = g.acts /\ dhw' = g.dhw
  /\ app' = g.app /\ par' = g.par /\ ctl' = g.ctl /\ rep' = g.rep
  /\ hist' = Append(hist, claim)

DevSeqs == {<<d>> : d \in Devs} \cup {s \in {<<d, e>> : d \in PairDevs, e \in PairDevs} : s[1] # s[2]}
NonEmptyZoneSets == (SUBSET ZoneIds) \ {{}}

\* claims are records of strings/sequences of strings only (uniform for JSON)
Claim(k, c, z, r, D) == [k |-> k, ctl |-> c, idx |-> z, role |-> r, devs |-> D]
SetToSeq(S) == CHOOSE s \in [1..Cardinality(S) -> S] : \A i, j \in 1..Cardinality(S) :
                 i < j => ZNum[s[i]] < ZNum[s[j]]

Next ==
  /\ Len(hist) < MaxClaims
  /\ \/ \E c \in Ctls, k \in Classes \cup {"04"}, S \in NonEmptyZoneSets :
          Apply(MaskFold(G, c, k, S), Claim("mask", c, "", k, SetToSeq(S)))
     \/ \E c \in Ctls, z \in ZoneIds, r \in {"04", "00"} \cup Classes, D \in DevSeqs :
          /\ r # "00" => Len(D) = 1          \* (two-device replies only in the generic role: smaller alphabet)
          /\ \A i \in 1..Len(D) : TypeOf[D[i]] = "CTL" => D[i] = c    \* foreign controllers: not modelled
          /\ Apply(ZoneDevsResult(G, c, z, r, D), Claim("devs", c, z, r, D))
     \/ \E c \in Ctls, r \in {"0D", "0E0", "0E1"}, d \in {x \in Devs : TypeOf[x] # "CTL"} :
          Apply(DhwResult(G, c, r, d), Claim("dhw", c, "", r, <<d>>))
     \/ \E c \in Ctls, d \in {x \in Devs : TypeOf[x] # "CTL"} :
          Apply(SetParent(G, d, c, "sys", "", "app"), Claim("app", c, "", "0F", <<d>>))
     \/ /\ Eavesdrop
        /\ \E c \in Ctls, z \in ZoneIds, d \in {x \in Devs : TypeOf[x] = "THM"} :
             Apply(EavResult(G, c, z, d), Claim("eav", c, z, "", <<d>>))
     \* a role reported with no device: no effect (Zone._handle_msg / DhwZone._handle_msg return, nothing is created)
     \/ \E c \in Ctls, z \in ZoneIds, r \in {"04", "00"} \cup Classes : Apply(G, Claim("devs", c, z, r, <<>>))
     \/ \E c \in Ctls, r \in {"0D", "0E0", "0E1"} : Apply(G, Claim("dhw", c, "", r, <<>>))
     \/ \E c \in Ctls : Apply(G, Claim("app", c, "", "0F", <<>>))
     \* the application fakes a device: no effect on the graph
     \/ \E d \in FakeDevs : Apply(G, Claim("fake", "", "", "", <<d>>))

Spec == Init /\ [][Next]_vars

(* ---------------------------------------------------------------- clauses *)
\* members of a parent, read from the parent's side
ZoneMembers(c, z) == (IF sen[c][z] = None THEN {} ELSE {sen[c][z]}) \cup acts[c][z]
DhwMembers(c) == {dhw[c].sen, dhw[c].hwv, dhw[c].htv} \ {None}
AppMembers(c) == {app[c]} \ {None}
PlacesOf(d) ==
  {Z(x[1], x[2]) : x \in {y \in Ctls \X ZoneIds : d \in ZoneMembers(y[1], y[2])}}
  \cup {HW(c) : c \in {x \in Ctls : d \in DhwMembers(x)}}
  \cup {FF(c) : c \in {x \in Ctls : d \in AppMembers(x)}}

\* C15c "each device belongs to at most one controller and one zone/role"
OnePlace == \A d \in Devs : Cardinality(PlacesOf(d)) <= 1 /\ PlacesOf(d) = ({par[d]} \ {None})
OneController == \A d \in Devs : par[d] # None => ctl[d] # None
\* C15c "zone indexes are within the configured maximum"
ZonesInRange == \A c \in Ctls : \A z \in zones[c] : ZNum[z] < MaxZones
\* only existing zones have content
ZoneContent == \A c \in Ctls, z \in ZoneIds :
                 (cls[c][z] # None \/ ZoneMembers(c, z) # {}) => z \in zones[c]
\* C15d "no packet sequence can move a device to a different parent without ... being reported"
NoSilentMove == [][\A d \in Devs : par[d] # None => (par'[d] = par[d] \/ rep')]_vars
\* stronger (what the code does): a parent, once set, never changes
NeverMoves == [][\A d \in Devs : par[d] # None => par'[d] = par[d]]_vars
=============================================================================

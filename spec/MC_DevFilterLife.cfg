SPECIFICATION Spec
CONSTANTS
  HgiOpts = {"no", "explicit", "implicit"}
  PhOpts = {"none"}
  FgnOpts = {"none"}
  MaxHist = 4
  AppendActive = FALSE
INVARIANT LegalHistory
INVARIANT Stateless
INVARIANT EqualsFresh
INVARIANT FoldAgrees
INVARIANT FormerGatewayNotExempt

---------------------------- MODULE BindingTrace ----------------------------
(* C20 - batch validation of recorded executions: two real gateways with faked devices joined by
   harness.fakes.Ether in virtual time (checks/c20.py).  One item = one scenario run:

     [ratify  |-> 0|1,
      present |-> <<0|1, 0|1>>, third |-> ms or -1,
      sends   |-> << <<dev, frame, echo, <<copy delays>>>>, ... >>      the scripted medium (round 1)
      skew    |-> <<ms, ms>>   packet clock minus gateway clock at R's / S's gateway during the run (Binding!h.skew):
                               recorded with the schedule; NO clause below reads it - the property does not let the
                               outcome depend on whose clock stamps the packets,
      obs     |-> [r1, s1, r2, s2  outcome kinds of the first / second attempt ("none" = absent),
                   br, bs          is_binding after the first round (0|1),
                   rt, st          the packets of the returned tuples, as frame kinds,
                   dr1, ds1, dr2, ds2   duration of each attempt in ms,
                   hang            1 if an attempt had not ended at the horizon],
                   e_r1, e_s1, e_r2, e_s2   the BindContext state class when each attempt ended,
                   a_r, a_s        the state class after the first round,
                   br2, bs2, a_r2, a_s2   is_binding / the state class after the second round],
      pred    |-> << outcome records that TLC computed on the as-is model for this scenario >>,
      predfix |-> << the same on the repaired model >>]

   The clauses (BindingContract) are evaluated on obs; obs \notin pred / predfix is reported as
   DRIFT_F / DRIFT_T (model and code disagree; never a violation).
   fail = sequence of <<1, clause, detail, detail, detail>>. *)
EXTENDS BindingContract, TLC, Json, IOUtils

Traces == JsonDeserialize(IOEnv.TRACE_FILE)

VARIABLES tid, l, fail
vars == <<tid, l, fail>>

T(t) == Traces[t]
B(x) == x = 1
Seq4(x) == <<x[1], x[2], x[3], x[4]>>
Send(s) == <<s[1], s[2], s[3], [i \in 1..Len(s[4]) |-> s[4][i]]>>

Clauses(t) ==
    LET it == T(t)  o == it.obs  rat == B(it.ratify)
        pres == <<B(it.present[1]), B(it.present[2])>>
        sends == [i \in 1..Len(it.sends) |-> Send(it.sends[i])]
        Out(role, att) == IF role = "R" THEN (IF att = 1 THEN o.r1 ELSE o.r2) ELSE (IF att = 1 THEN o.s1 ELSE o.s2)
        Dur(role, att) == IF role = "R" THEN (IF att = 1 THEN o.dr1 ELSE o.dr2) ELSE (IF att = 1 THEN o.ds1 ELSE o.ds2)
        EndSt(role, att) == IF role = "R" THEN (IF att = 1 THEN o.e_r1 ELSE o.e_r2) ELSE (IF att = 1 THEN o.e_s1 ELSE o.e_s2)
        ErrType == {<<1, "C20b_error_type", Out(x[1], x[2]), x[1], EndSt(x[1], x[2])>> :
                        x \in {y \in {"R", "S"} \X {1, 2} : ~BindingOutcome(Out(y[1], y[2]))}}
        Late    == {<<1, "C20b_late", x[1], EndSt(x[1], x[2]), "">> :
                        x \in {y \in {"R", "S"} \X {1, 2} : Dur(y[1], y[2]) > Bound(y[1], rat) + Slack}}
        Hang    == IF o.hang = 1 THEN {<<1, "C20b_hang", "", "", "">>} ELSE {}
        Succ    == IF Undisturbed(pres, it.third, sends, rat) /\ ~SameSuccess(o.r1, o.s1, Seq4(o.rt), Seq4(o.st), rat)
                   THEN {<<1, "C20a_success", o.r1, o.s1, "">>} ELSE {}
        Still   == (IF o.br = 1 THEN {<<1, "C20c_still_binding", "R", o.a_r, "">>} ELSE {})
                   \cup (IF o.bs = 1 THEN {<<1, "C20c_still_binding", "S", o.a_s, "">>} ELSE {})
        \* ... and after the second round too (every state timer has fired by then)
        Still2  == (IF o.br2 = 1 THEN {<<1, "C20c_still_binding", "R", o.a_r2, "after-2nd">>} ELSE {})
                   \cup (IF o.bs2 = 1 THEN {<<1, "C20c_still_binding", "S", o.a_s2, "after-2nd">>} ELSE {})
        Why(role) == IF (role = "R" /\ o.br = 1) \/ (role = "S" /\ o.bs = 1) THEN "stuck"
                     ELSE IF o.br = 1 \/ o.bs = 1 THEN "peerstuck" ELSE "clean"
        Retry   == (IF o.r2 # "ok" THEN {<<1, "C20c_retry", "R", o.r2, Why("R")>>} ELSE {})
                   \cup (IF o.s2 # "ok" THEN {<<1, "C20c_retry", "S", o.s2, Why("S")>>} ELSE {})
        Same(p) == /\ p.r1 = o.r1 /\ p.s1 = o.s1 /\ p.r2 = o.r2 /\ p.s2 = o.s2
                   /\ p.br = o.br /\ p.bs = o.bs /\ Seq4(p.rt) = Seq4(o.rt) /\ Seq4(p.st) = Seq4(o.st)
        Drift   == (IF Len(it.pred) > 0 /\ ~(\E i \in 1..Len(it.pred) : Same(it.pred[i]))
                    THEN {<<1, "DRIFT_F", "", "", "">>} ELSE {})
                   \cup (IF Len(it.predfix) > 0 /\ ~(\E i \in 1..Len(it.predfix) : Same(it.predfix[i]))
                    THEN {<<1, "DRIFT_T", "", "", "">>} ELSE {})
    IN  ErrType \cup Late \cup Hang \cup Succ \cup Still \cup Still2 \cup Retry \cup Drift

SetToSeq(S) == IF S = {} THEN <<>> ELSE
    LET RECURSIVE F(_) 
        F(X) == IF X = {} THEN <<>> ELSE LET x == CHOOSE x \in X : TRUE IN <<x>> \o F(X \ {x})
    IN F(S)

Init == tid \in 1..Len(Traces) /\ l = 1 /\ fail = <<>>
Step == /\ l = 1 /\ l' = 2 /\ fail' = SetToSeq(Clauses(tid)) /\ UNCHANGED tid
Spec == Init /\ [][Step]_vars
Verdict == (l = 2) => PrintT(<<"VERDICT", tid, fail>>)
=============================================================================

--------------------------- MODULE BindingContract ---------------------------
(* C20 - the property-level contract (Appendix A of DESIGN.md, J10, J15), as operators over an
   attempt's observable outcome.  Shared by Binding.tla (model invariants) and BindingTrace.tla
   (judging recorded executions of the real code).

   outcome kinds:  ok   the attempt returned its packet tuple
                   BFF  exceptions.BindingFlowFailed       FSM  exceptions.BindingFsmError
                   anything else is not a binding error (e.g. ISE = asyncio.InvalidStateError) *)
EXTENDS Integers, Sequences

TENDER_WAIT == 5000  ACCEPT_WAIT == 5000  AFFIRM_WAIT == 3000  RATIFY_WAIT == 3000
SEND_BUDGET == 10000      \* BINDING_QOS.timeout (J10)
Short == 60               \* a copy delivered within Short ms counts as "not lost, not delayed"
Slack == 1                \* J3: float rounding

\* C20b "either the packet tuple or a binding error"
BindingOutcome(o) == o \in {"ok", "BFF", "FSM", "none"}

\* C20b "within its stated waits" (J10): the waits of the role plus the send budget per frame it sends
Bound(d, ratify) ==
    IF d = "R" THEN TENDER_WAIT + SEND_BUDGET + AFFIRM_WAIT + (IF ratify THEN RATIFY_WAIT ELSE 0)
    ELSE SEND_BUDGET + ACCEPT_WAIT + SEND_BUDGET + ACCEPT_WAIT + (IF ratify THEN SEND_BUDGET + ACCEPT_WAIT ELSE 0)

\* the premise of C20a: both ends attempt, every frame of the handshake reaches the peer promptly at
\* least once (however many extra copies, however late those), its echo is prompt, no third party
\* send = <<device, frame, extra transmission delay, <<copy delays>>>>
Prompt(s) == s[3] <= Short /\ \E i \in 1..Len(s[4]) : s[4][i] <= Short
\* "mixed with unrelated binding traffic": a third party's offer is unrelated once the respondent has heard the
\* supplicant's own offer (one that arrives before it is, for the respondent, simply the first offer - nothing can
\* tell the two apart); the earliest copy of the first frame (the offer) reaches R at its tx delay + copy delay
MinOf(q) == LET S == {q[i] : i \in 1..Len(q)} IN CHOOSE m \in S : \A x \in S : m <= x
OfferHeardAt(sends) == sends[1][3] + MinOf(sends[1][4])
Undisturbed(present, third, sends, ratify) ==
    /\ present = <<TRUE, TRUE>>
    /\ Len(sends) = (IF ratify THEN 4 ELSE 3) /\ \A i \in 1..Len(sends) : Prompt(sends[i])
    /\ (third = -1 \/ third > OfferHeardAt(sends) + Slack)

\* C20a "both ends report success with the same offer/accept/confirm packets"
SameSuccess(ro, so, rt, st, ratify) ==
    /\ ro = "ok" /\ so = "ok"
    /\ rt[1] = st[1] /\ rt[2] = st[2] /\ rt[3] = st[3] /\ (ratify => rt[4] = st[4])
=============================================================================

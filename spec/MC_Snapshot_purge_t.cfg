\* chronological arrival, reads purge: only expired packets may go missing
SPECIFICATION BSpec
CONSTANTS
  Src = {"c1"}
  Zone = {"z0", "z1"}
  Code = {1, 2, 3}
  TimeCode = 3
  SchedCode = 2
  Times = {1, 2}
  PurgeOnRead = TRUE
  Chrono = TRUE
  MaxMsgs = 3
VIEW View
INVARIANT FixAKnown
INVARIANT IdemBKnown
INVARIANT NoGainT
INVARIANT ContentC
INVARIANT UniqueT

\* 2 controllers, 2 zone indexes (both in range), 2 devices, eavesdropping on
CONSTANTS
  Ctls <- MCCtls2
  ZoneIds <- MCZones2
  ZNum <- MCZNum
  MaxZones = 2
  Devs <- MCDevs2
  PairDevs <- MCDevs2
  TypeOf <- MCTypeOf
  Classes = {"08", "11"}
  Eavesdrop = TRUE
  FakeDevs <- MCFake1
  MaxClaims = 40
SPECIFICATION Spec
VIEW GraphView
INVARIANT OnePlace
INVARIANT OneController
INVARIANT ZonesInRange
INVARIANT ZoneContent
PROPERTY NoSilentMove
PROPERTY NeverMoves

------------------------------- MODULE Decode -------------------------------
(* C05 "Decoded payloads".  The decoder  Packet text -> Message.payload  must behave as a pure
   function Dec although it runs behind memory:
     * lru caches: id_to_address(256), pkt_addrs(256)  [address.py:129,190], re_compile_re_match(256)
       [message.py:345], is_valid_dev_id(128);
     * memo fields of every frame object (_ctx_, _hdr_, _idx_, _has_array_ ...)  [frame.py:97-105].
   Model: a keyed LRU cache of capacity Cap in front of Dec.  KeyOf abstracts what the real caches are
   keyed on.  With an injective KeyOf every observation equals Dec (the design is right); with two
   packets sharing a key but not a value TLC shows the stale read (MC_Decode_collide.cfg) - that is what
   a cache keyed on too little would look like, and what DecodeTrace's clause b detects on the code.
   The histories (orders, repeats, eviction bursts) of this model are the ones executed on the code.

   The second half are the pure laws evaluated by DecodeTrace on recorded outcomes:
     IdxAllowed  c  "any zone/domain/circuit index it reports is the one carried in the frame"
     Concat      d  "an array decodes to exactly the list of what each element decodes to on its own"
     InRange     e  "ratios within 0..1 and temperatures within the physical wire range"            *)
EXTENDS Naturals, Integers, Sequences, FiniteSets, TLC

CONSTANTS Pkts,      \* packet identities
          Vals,      \* payload values
          Dec,       \* [Pkts -> Vals]  the function the decoder is supposed to be
          KeyOf,     \* [Pkts -> Keys]  what the caches are keyed on
          Cap,       \* cache capacity
          MaxDec, MaxEvict

VARIABLES h,        \* history: sequence of <<"dec", p>> / <<"evict">>  (environment choices only)
          lru,      \* cached keys, most recent last
          memo,     \* key -> cached value
          obs       \* sequence of <<p, observed value>>
vars == <<h, lru, memo, obs>>

Init == h = <<>> /\ lru = <<>> /\ memo = [k \in {} |-> 0] /\ obs = <<>>

NDec   == Cardinality({i \in 1..Len(h) : h[i][1] = "dec"})
NEvict == Cardinality({i \in 1..Len(h) : h[i][1] = "evict"})
Without(s, k) == SelectSeq(s, LAMBDA x : x # k)

Decode(p) ==
  /\ NDec < MaxDec
  /\ LET k == KeyOf[p] IN
     IF k \in DOMAIN memo
     THEN /\ obs' = Append(obs, <<p, memo[k]>>)                    \* cache hit
          /\ lru' = Append(Without(lru, k), k)
          /\ memo' = memo
     ELSE LET l1 == Append(lru, k)                                  \* miss: compute, store, evict LRU
              ev == IF Len(l1) > Cap THEN {l1[1]} ELSE {}
          IN /\ obs' = Append(obs, <<p, Dec[p]>>)
             /\ lru' = IF ev = {} THEN l1 ELSE Tail(l1)
             /\ memo' = [x \in (DOMAIN memo \cup {k}) \ ev |-> IF x = k THEN Dec[p] ELSE memo[x]]
  /\ h' = Append(h, <<"dec", p>>)

\* a burst of unrelated traffic: everything cached is pushed out
Evict ==
  /\ NEvict < MaxEvict /\ h # <<>> /\ h[Len(h)][1] # "evict"
  /\ lru' = <<>> /\ memo' = [k \in {} |-> 0]
  /\ h' = Append(h, <<"evict", "">>) /\ UNCHANGED obs

Next == (\E p \in Pkts : Decode(p)) \/ Evict
Spec == Init /\ [][Next]_vars

\* b: the same every time, whatever was decoded before
Deterministic == \A i \in 1..Len(obs) : obs[i][2] = Dec[obs[i][1]]
CacheSound    == \A k \in DOMAIN memo : \E p \in Pkts : KeyOf[p] = k /\ memo[k] = Dec[p]

(* ------------------------------------------------------------------------------------ *)
(* Laws on recorded outcomes (strings are the hex bytes of the frame's payload)           *)

\* c: where the frame carries the index, per code family (b0,b1,b2 = payload bytes 0..2; eb = first byte
\*    of the element for arrays).  0404 reports "HW" for the DHW schedule (type byte 23); 000C reports the
\*    zone of a UFC circuit from byte 2 and role-derived domain ids (FA/F9/FC) - those are left open.
IdxAllowed(code, b0, b1, b2, eb, isArr) ==
  IF isArr THEN {eb}
  ELSE CASE code = "0404" -> IF b1 = "23" THEN {"HW", b0} ELSE {b0}
         [] code = "000C" -> {b0, b2, "FA", "F9", "FC"}
         [] OTHER         -> {b0}

RECURSIVE Concat(_)
Concat(ss) == IF ss = <<>> THEN <<>> ELSE Head(ss) \o Concat(Tail(ss))

\* e: milli-units.  ratio in 0..1 ; temperature within the int16/100 wire range
InRange(cls, v) ==
  CASE cls = "ratio" -> 0 <= v /\ v <= 1000
    [] cls = "temp"  -> -327680 <= v /\ v <= 327670
    [] OTHER         -> TRUE
=============================================================================

CONSTANTS MaxTp = 6  Silent <- Silent25  FixActive = TRUE  FixShield = TRUE  Overlap = FALSE
SPECIFICATION Fair
CHECK_DEADLOCK FALSE
PROPERTY StartReturns
PROPERTY StopReturns

\* as the code is, strict clause: expected to fail (the known defect)
SPECIFICATION BSpec
CONSTANTS
  TryFinally = FALSE
  CfgSending = FALSE
  CfgDisc = FALSE
  MaxOps = 4
VIEW View
INVARIANT AsBefore
INVARIANT RunningAtRest

----------------------------- MODULE MC_TxSync -----------------------------
(* Bounded instances of TxSync with the real constants of ramses_tx.transport.avoid_system_syncs
   (1 tick = 0.1 ms).  An announcement carries its "remaining" in units of 0.1 s = 1000 ticks. *)
EXTENDS TxSync

LowerV == 80        \* SYNC_WINDOW_LOWER = 0.010 * 0.8 s
UpperV == 1088      \* LOWER + (0.020 + 0.022) * 2 * 1.2 s
ShortV == 100       \* SYNC_WAIT_SHORT  = 0.010 s
LongV  == 840       \* SYNC_WAIT_LONG   = 0.084 s
RemsV  == {0, 1000, 2000}
AdvV   == {37, 100, 463, 1000}
RemsQ  == {0, 1000}
AdvQ   == {81, 463}
AdvW2  == {463}
AdvFine == {79, 919}
(* history hidden from the state graph *)
View == <<now, syncs, pc, start, wake, sleeps, passed, nrx>>
=============================================================================

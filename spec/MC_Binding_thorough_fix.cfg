SPECIFICATION Spec
CONSTANTS
  Fix = TRUE
  Ratify = FALSE
  DeliveryChoices <- DC_mid
  EchoChoices <- EC_two
  ThirdChoices <- TC_some
  Presence <- P_all
  SkewChoices <- SK_none
INVARIANT TypeOK
INVARIANT SuccessUnderDuplicates
INVARIANT EndsProperly
INVARIANT NotBindingAfterwards
INVARIANT RetryWorks
INVARIANT ScenarioOut
CHECK_DEADLOCK TRUE

SPECIFICATION Spec
CONSTANTS
  Zones = {1, 2, 3}
  FixLock = FALSE
  FixAck = FALSE
  FixStale = FALSE
  ZlibDetects = TRUE
  MaxMain = 3
  MaxFaults = 2
  MaxBumps = 2
  MaxHeard = 1
  MaxAge = 1
  AllowSet = TRUE
  HeardStale = FALSE
  HeardAcks = TRUE
CONSTRAINT Bound
INVARIANT ScenarioOut
CHECK_DEADLOCK TRUE

---------------------------- MODULE MC_DevFilter ----------------------------
(* Bounded instance for C10: one state per (configuration, src, dst, shape, direction).
   TLC checks that the property-level rule is a total, disjoint partition, the named
   interactions (block beats allow, gateway exemption, placeholder when sending, empty
   known list), and that the clause-by-clause transcription of the code equals it.
   With ROWS_FILE set in the environment the complete row table is written as JSON -
   it is the input the check executes against the real objects (spec -> code).       *)
EXTENDS DevFilter, Sequences, SequencesExt, Json, IOUtils

CONSTANTS HgiOpts, PhOpts, FgnOpts

CfgSet == [kl : BOOLEAN, hgi : HgiOpts, bl : BOOLEAN, gwb : BOOLEAN, enf : BOOLEAN,
           act : {"gwy", "none", "foreign"}, ph : PhOpts, fgn : FgnOpts]

Rows == {r \in [cfg : CfgSet, src : Roles, dst : Roles, shape : Shapes, dir : Dirs] :
            Expressible(r.src, r.dst, r.shape)}

VARIABLE row
Init == row \in Rows
Next == UNCHANGED row
Spec == Init /\ [][Next]_row

(* --- what TLC decides on the rule itself ------------------------------------------ *)
Partition        == MustDrop(row) # MustPass(row)                 \* total and disjoint
CodeEqualsRule   == CodeWanted(row) = MustPass(row)               \* the 7 ordered clauses = the statement
BlockBeatsAllow  == (\E id \in Addrs(row) : id \in Block(row.cfg)) => MustDrop(row) /\ ~CodeWanted(row)
GatewayExempt    == (/\ Addrs(row) \subseteq {ActiveId(row.cfg), "Broadcast", "Null"}
                     /\ ActiveId(row.cfg) \notin Block(row.cfg)) => MustPass(row)
GatewayBlocked   == (row.cfg.gwb /\ "Gwy" \in Addrs(row)) => MustDrop(row)      \* no exemption then
PlaceholderTx    == (/\ row.dir = "tx" /\ row.cfg.ph = "none"
                     /\ row.src = "Placeholder"
                     /\ row.dst \in (Known(row.cfg) \cup {"Broadcast", "Null"}) \ Block(row.cfg))
                    => MustPass(row)
PlaceholderRx    == (/\ row.dir = "rx" /\ Enforced(row.cfg) /\ row.cfg.ph = "none"
                     /\ "Placeholder" \in Addrs(row)) => MustDrop(row)
EmptyKnownOff    == (Known(row.cfg) = {}) => (MustDrop(row) <=> \E id \in Addrs(row) : id \in Block(row.cfg))
NotEnforcedOnlyBlock == (~row.cfg.enf) => (MustDrop(row) <=> \E id \in Addrs(row) : id \in Block(row.cfg))
BroadcastNullFree == (\A id \in Addrs(row) : id \in {"Broadcast", "Null"}) => MustPass(row)
TxNoStricter     == (row.dir = "rx" /\ MustPass(row)) => MustPass([row EXCEPT !.dir = "tx"])

(* --- export --------------------------------------------------------------------------- *)
CfgSeq == SetToSeq(CfgSet)
RowOf(x) == [cfg |-> CfgSeq[x[1]], src |-> x[2], dst |-> x[3], shape |-> x[4], dir |-> x[5]]
RowSeq == SetToSeq({<<x[1], x[2], x[3], x[4], x[5], MustDrop(RowOf(x))>> :
                      x \in {y \in (1..Len(CfgSeq)) \X Roles \X Roles \X Shapes \X Dirs :
                                Expressible(y[2], y[3], y[4])}})
Export == IF IOEnv.ROWS_FILE = "" THEN TRUE
          ELSE JsonSerialize(IOEnv.ROWS_FILE, [cfgs |-> CfgSeq, rows |-> RowSeq])
ASSUME Export
=============================================================================

\* file/dict replay, the code as it is: counter-examples expected
SPECIFICATION Spec
CONSTANTS
  Mode = "file"
  Escaping = TRUE
  Streams <- NoStreams
  MaxZero <- MaxZeroDef
  FileShapes <- AllShapes
INVARIANT ReplayEndsClean
INVARIANT ReplayDeliversAll
INVARIANT ReplayProgress

------------------------------ MODULE TxConform ------------------------------
(* C11 - is a recorded execution of the real PortTransport a behaviour of TxRegulator?

   Item = [init, h, rw]:  the bucket level the run started from, the calls that were made
   <<model time, size>> (in call order) and the writes the real transport made <<id, model time>>.
   The calls are imposed, the timers (sleep wake-ups, leak ticks, semaphore hand-offs) are left to
   the model, and TLC searches for an interleaving whose writes are the recorded ones (ids exact,
   times within Tol ticks - the real sleeps are real-valued, the model's are rounded up to a tick).
   A trace for which no such behaviour exists gets no ACCEPT line: that is model drift (never a
   verdict).  Serialised selects the model of the code as it is / with the proposed repair.       *)
EXTENDS MC_TxRegulator, Json, IOUtils

Traces == JsonDeserialize(IOEnv.TRACE_FILE)
VARIABLE tid
cvars == <<vars, tid>>
Tol == 2
Far == 2000000000
InitC == {Traces[i].init : i \in 1..Len(Traces)}

H  == Traces[tid].h
RW == Traces[tid].rw

CInit == /\ tid \in 1..Len(Traces)
         /\ Init /\ bucket = Traces[tid].init

NextCallAt == IF Len(callSeq) < Len(H) THEN H[Len(callSeq) + 1][1] ELSE Far

CCall == /\ Len(callSeq) < Len(H) /\ now = NextCallAt
         /\ Call(Len(callSeq) + 1, H[Len(callSeq) + 1][2])

CAdvance ==
    /\ ~Urgent /\ now < NextCallAt
    /\ (\E w \in Writers : IsPending(w)) \/ Len(callSeq) < Len(H) \/ sem = 0
    /\ LET t == Min(NextDeadline, NextCallAt) IN
         /\ t > now /\ t < Far
         /\ now' = t
         /\ leakAt' = IF leakAt > t THEN leakAt ELSE LeakAlign(t)
    /\ UNCHANGED <<bucket, last, sem, semq, pc, size, wake, lockq, lockHolder,
                   callSeq, callT, written, shadow, lastW, slack, h>>

CNext == /\ \/ CCall
            \/ \E w \in Writers : WakeSleep(w) \/ SemWake(w) \/ LockWake(w)
            \/ LeakTick
            \/ CAdvance
         /\ UNCHANGED tid
CSpec == CInit /\ [][CNext]_cvars

(* prune every state whose writes are not a prefix of the recorded ones *)
Matches == /\ Len(written) <= Len(RW)
           /\ \A i \in 1..Len(written) :
                 /\ written[i].id = RW[i][1]
                 /\ written[i].t - RW[i][2] <= Tol /\ RW[i][2] - written[i].t <= Tol

Accepted == Len(written) = Len(RW) /\ Len(callSeq) = Len(H) /\ \A w \in Writers : ~IsPending(w)
Report == (Matches /\ Accepted) => PrintT(<<"ACCEPT", tid>>)
=============================================================================

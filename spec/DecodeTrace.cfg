SPECIFICATION Spec
INVARIANT Verdict

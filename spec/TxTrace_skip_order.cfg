SPECIFICATION Spec
CONSTANT Mode = "clauses_skip_order"
INVARIANT Verdict

\* thorough: three contexts
SPECIFICATION BSpec
CONSTANTS
  Ctx = {c1, c2, c3}
  Code = {1, 2, 3}
  Val = {v1, v2}
  Attr = {"sp", "md", "tp"}
  CodesOf <- CodesOfDef
  LifeS <- LifeSDef
  LifeA <- LifeADef
  Grace = 2
  StaleFirstRead = TRUE
  InFlight = FALSE
  StampSteps = {1}
  CrossCodeOpen = TRUE
  MaxEvents = 4
  MaxMsgs = 3
CONSTRAINT Bound
VIEW View
SYMMETRY Sym
INVARIANT FreshA
INVARIANT NoInvention
INVARIANT ThresholdB
INVARIANT ThresholdC
INVARIANT ReadE
INVARIANT StoreIsLast
PROPERTY MonotoneD

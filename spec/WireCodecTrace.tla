---------------------------- MODULE WireCodecTrace ----------------------------
(***************************************************************************)
(* C04 - table validation.  Python only *records* what the real helpers    *)
(* returned (classes + integers); every clause below is evaluated by TLC   *)
(* with the operators of WireCodec (contract instance, Impl = {}).         *)
(*                                                                         *)
(* item  = [fam |-> "temp", dir |-> "enc", p |-> <<..>>, rows |-> <<row>>]  *)
(* EVERY row of an item is judged; `fail` lists each distinct <<clause,     *)
(* pattern>> with its first row and count (a known finding cannot mask a   *)
(* new one: a different failure has a different pattern).  clause "a".."e" = the property clauses of DESIGN App. A;         *)
(* clause "drift" = the code differs from the model on something the       *)
(* property does not promise (never a verdict).                            *)
(*                                                                         *)
(* recorded classes                                                        *)
(*   ecls  0 = encoder returned a well-formed wire word (value in ew)      *)
(*         1 = encoder raised        2 = returned text that is no word     *)
(*   dcls  0 = number/value on the grid (dk)   1 = None   2 = False        *)
(*         3 = decoder raised  4 = a number off the grid  5 = not run      *)
(*         6 = something else                                              *)
(***************************************************************************)
EXTENDS Integers, Sequences, FiniteSets, TLC, Json, IOUtils

Impl == {}
INSTANCE WireCodec

Traces == JsonDeserialize(IOEnv.TRACE_FILE)

VARIABLES tid, l, fail
vars == <<tid, l, fail>>

\* ---- the scalar families: temp, pct (p[1] = 200|100), dbl (p[1] = factor), sp, bool -----
Dec(fam, p, w) ==
  CASE fam = "temp" -> TempDec(w)
    [] fam = "pct"  -> PctDec(w, p[1])
    [] fam = "dbl"  -> DblDec(w)
    [] fam = "sp"   -> SpDec(w)
    [] fam = "bool" -> BoolDec(w)
EncNum(fam, p, k) ==
  CASE fam = "temp" -> TempEncNum(k)
    [] fam = "pct"  -> PctEncNum(k, p[1])
    [] fam = "dbl"  -> DblEncNum(k)
    [] fam = "sp"   -> SpEncNum(k)
    [] fam = "bool" -> BoolEncNum(k)
Representable(fam, p, k) ==
  CASE fam = "temp" -> TempRepresentable(k)
    [] fam = "pct"  -> PctRepresentable(k, p[1])
    [] fam = "dbl"  -> DblRepresentable(k)
    [] fam = "sp"   -> SpRepresentable(k)
    [] fam = "bool" -> k \in {0, 1}
InRange(fam, p, k) ==     \* the encoder's own integer range (beyond it a result would be a wrap)
  CASE fam = "temp" -> TempInRange(k)
    [] fam = "pct"  -> k \in 0..p[1]
    [] fam = "dbl"  -> k \in 0..65535
    [] fam = "sp"   -> k \in 0..65535
    [] fam = "bool" -> k \in {0, 1}
EncSentinel(fam, vcls) ==
  CASE fam = "temp" -> IF vcls = 1 THEN TempEncNone ELSE TempEncFalse
    [] fam = "pct"  -> PctEncNone
    [] fam = "dbl"  -> DblEncNone
    [] fam = "bool" -> BoolEncNone

TowardZero(k) == IF k > 0 THEN k - 1 ELSE IF k < 0 THEN k + 1 ELSE 0
DecAsRow(r) ==     \* spec result -> <<dcls, dk>>
  CASE r[1] = "num"    -> <<0, r[2]>>
    [] r[1] = "none"   -> <<1, 0>>
    [] r[1] = "false"  -> <<2, 0>>
    [] r[1] = "refuse" -> <<3, 0>>
    [] OTHER           -> <<6, 0>>

\* row = <<k, ecls, ew, dcls, dk>> : grid value k -> real encoder -> real decoder
JudgeScalarEnc(fam, p, r) ==
  LET k == r[1]  ecls == r[2]  ew == r[3]  dcls == r[4]  dk == r[5]
      spec == EncNum(fam, p, k)
  IN
  IF Representable(fam, p, k) THEN                                   \* ---- clause a
    IF ecls = 1 THEN <<<<"a", "enc_refused">>>>
    ELSE IF ecls = 2 THEN <<<<"a", "enc_malformed">>>>
    ELSE IF dcls = 0 /\ dk = k THEN
           (IF Word(ew) # spec THEN <<<<"drift", "enc_word_differs_from_model">>>> ELSE <<>>)
    ELSE IF Word(ew) = spec THEN                                      \* encoder fine, decoder not
           <<<<"a", CASE dcls = 3 -> "dec_refused" [] dcls = 4 -> "dec_offgrid"
                       [] dcls = 0 -> "dec_mismatch" [] OTHER -> "dec_not_a_number">>>>
    ELSE IF Word(ew) = EncNum(fam, p, TowardZero(k)) /\ dcls = 0 /\ dk = TowardZero(k)
           THEN <<<<"a", "enc_lsb_toward_zero">>>>
    ELSE <<<<"a", "enc_mismatch">>>>
  ELSE IF ~InRange(fam, p, k) THEN                                    \* ---- clause e
    IF ecls = 0 /\ dcls = 0 THEN <<<<"e", IF k > 0 THEN "wrap_high" ELSE "wrap_low">>>> ELSE <<>>
  ELSE <<>>     \* in range but colliding with a sentinel / below the decoder's floor: left open

\* row = <<w, dcls, dk, ecls, ew>> : wire word w -> real decoder -> (if a number) real encoder
JudgeScalarDec(fam, p, r) ==
  LET w == r[1]  dcls == r[2]  dk == r[3]  ecls == r[4]  ew == r[5]
      spec == DecAsRow(Dec(fam, p, w))
      drift == IF (dcls = 0 /\ spec # <<0, dk>>) \/ (dcls # 0 /\ spec[1] # dcls)
               THEN <<<<"drift", "decoded_value_differs_from_model">>>> ELSE <<>>
  IN
  IF dcls = 0 THEN                                                     \* ---- clause b
    IF ecls = 0 /\ ew = w THEN drift
    ELSE IF ecls = 1 THEN <<<<"b", "reenc_refused">>>>
    ELSE IF ecls = 2 THEN <<<<"b", "reenc_malformed">>>>
    ELSE IF Word(ew) = EncNum(fam, p, TowardZero(dk)) THEN <<<<"b", "enc_lsb_toward_zero">>>>
    ELSE <<<<"b", "reenc_mismatch">>>>
  ELSE IF dcls = 4 THEN <<<<"b", "dec_offgrid">>>>
  ELSE drift

\* row = <<vcls, ecls, ew, dcls>> : None (1) / False (2) -> encoder -> decoder   ---- clause d
JudgeScalarSent(fam, p, r) ==
  LET vcls == r[1]  ecls == r[2]  ew == r[3]  dcls == r[4] IN
  IF ecls # 0 THEN <<<<"d", "sentinel_enc_refused">>>>
  ELSE IF dcls # vcls THEN <<<<"d", "sentinel_lost">>>>
  ELSE IF Word(ew) # EncSentinel(fam, vcls) THEN <<<<"drift", "sentinel_word_differs_from_model">>>>
  ELSE <<>>

\* ---- flag bytes ---------------------------------------------------------------------------
\* dec row = <<w, lsb, bits, ecls, ew>>
JudgeFlagDec(r) ==
  LET w == r[1]  lsb == r[2]  bits == r[3]  ecls == r[4]  ew == r[5] IN
  IF ecls # 0 THEN <<<<"b", "reenc_refused">>>>
  ELSE IF ew # w THEN <<<<"b", "reenc_mismatch">>>>
  ELSE IF bits # Flag8Dec(w, lsb) THEN <<<<"drift", "bit_order_differs_from_model">>>> ELSE <<>>
\* enc row = <<bits, lsb, ecls, ew, dcls, bits2>>
JudgeFlagEnc(r) ==
  LET bits == r[1]  lsb == r[2]  ecls == r[3]  ew == r[4]  dcls == r[5]  bits2 == r[6] IN
  IF ecls # 0 THEN <<<<"a", "enc_refused">>>>
  ELSE IF dcls # 0 THEN <<<<"a", "dec_refused">>>>
  ELSE IF bits2 # bits THEN <<<<"a", "dec_mismatch">>>>
  ELSE IF ew # Flag8Enc(bits, lsb) THEN <<<<"drift", "enc_word_differs_from_model">>>> ELSE <<>>

\* ---- date-times ---------------------------------------------------------------------------
\* enc row = <<f, dst, incl, ecls, bytes, dcls, f2>>
JudgeDtmEnc(r) ==
  LET f == r[1]  dst == r[2]  incl == r[3]  ecls == r[4]  b == r[5]  dcls == r[6]  f2 == r[7] IN
  IF ~DtmOnGrid(f, incl) THEN <<>>                    \* e.g. seconds given to the minute form
  ELSE IF ecls # 0 THEN <<<<"a", "enc_refused">>>>
  ELSE IF dcls = 3 THEN <<<<"a", "dec_refused">>>>
  ELSE IF dcls # 0 THEN <<<<"a", "dec_not_a_datetime">>>>
  ELSE IF f2 # f THEN <<<<"a", IF b = DtmEnc(f, dst, incl) THEN "dec_mismatch" ELSE "enc_mismatch">>>>
  ELSE IF b # DtmEnc(f, dst, incl) THEN <<<<"drift", "enc_bytes_differ_from_model">>>> ELSE <<>>
\* dec row = <<bytes, dcls, f, ecls, bytes2>>, bytes2 = encoder(decoded, is_dst = the word's DST bit)
JudgeDtmDec(r) ==
  LET b == r[1]  dcls == r[2]  f == r[3]  ecls == r[4]  b2 == r[5]
      spec == DtmDec(b)
      drift == IF (dcls = 0 /\ spec # <<"dt", f>>) \/ (dcls = 1 /\ spec # None)
                  \/ (dcls = 3 /\ spec # Refuse) \/ dcls \notin {0, 1, 3}
               THEN <<<<"drift", "decoded_value_differs_from_model">>>> ELSE <<>>
  IN
  IF dcls = 0 /\ DtmCanonical(b) THEN                                  \* ---- clause b
    IF ecls # 0 THEN <<<<"b", "reenc_refused">>>>
    ELSE IF b2 # b THEN <<<<"b", "reenc_mismatch">>>>
    ELSE drift
  ELSE drift
\* sentinel row = <<incl, ecls, bytes, dcls>>                            ---- clause d
JudgeDtmSent(r) ==
  IF r[2] # 0 THEN <<<<"d", "sentinel_enc_refused">>>>
  ELSE IF r[4] # 1 THEN <<<<"d", "sentinel_lost">>>>
  ELSE IF r[3] # DtmEncNone(r[1]) THEN <<<<"drift", "sentinel_word_differs_from_model">>>> ELSE <<>>
\* date row = <<bytes4, dcls, <<Y,Mo,D>>>> : decoder only, no encoder exists -> drift only
JudgeDateDec(r) ==
  LET spec == DateDec(r[1]) IN
  IF (r[2] = 0 /\ spec # <<"date", r[3]>>) \/ (r[2] = 1 /\ spec # None) \/ (r[2] = 3 /\ spec # Refuse)
     \/ r[2] \notin {0, 1, 3}
  THEN <<<<"drift", "decoded_value_differs_from_model">>>> ELSE <<>>

\* ---- packed stamps ------------------------------------------------------------------------
\* enc row = <<f, ecls, <<hi,lo>>, dcls, f2>>
JudgeDtsEnc(r) ==
  LET f == r[1]  ecls == r[2]  w == r[3]  dcls == r[4]  f2 == r[5] IN
  IF ~DtsOnGrid(f) THEN <<>>
  ELSE IF ecls # 0 THEN <<<<"a", "enc_refused">>>>
  ELSE IF dcls = 3 THEN <<<<"a", IF f[1] = 0 THEN "dec_refused_yy00" ELSE "dec_refused">>>>
  ELSE IF dcls # 0 THEN <<<<"a", "dec_not_a_datetime">>>>
  ELSE IF f2 # f THEN <<<<"a", IF w = DtsEnc(f) THEN "dec_mismatch" ELSE "enc_mismatch">>>>
  ELSE IF w # DtsEnc(f) THEN <<<<"drift", "enc_bits_differ_from_model">>>> ELSE <<>>
\* dec row = <<<<hi,lo>>, dcls, f, ecls, <<hi2,lo2>>>>
DtsCanonical(w) == w[1] < 65536 /\ w[2] % 128 = 0 /\ w[1] % 128 <= 99   \* unused bits clear, yy on the grid
JudgeDtsDec(r) ==
  LET w == r[1]  dcls == r[2]  f == r[3]  ecls == r[4]  w2 == r[5]
      spec == DtsDec(w)
      \* year 00: the model promises a value, the current code refuses; judged by clause a (enc table)
      drift == IF w[1] % 128 <= 99 /\      \* yy 100..127 is outside the model (two-digit years)
                  ( (dcls = 0 /\ spec # <<"dt", f>>) \/ (dcls = 1 /\ spec # None)
                    \/ (dcls = 3 /\ spec # Refuse /\ w[1] % 128 # 0) \/ dcls \notin {0, 1, 3} )
               THEN <<<<"drift", "decoded_value_differs_from_model">>>> ELSE <<>>
  IN
  IF dcls = 0 /\ DtsCanonical(w) /\ f[1] \in 0..99 THEN                 \* ---- clause b
    IF ecls # 0 THEN <<<<"b", "reenc_refused">>>>
    ELSE IF w2 # w THEN <<<<"b", "reenc_mismatch">>>>
    ELSE drift
  ELSE drift
JudgeDtsSent(r) ==    \* <<ecls, <<hi,lo>>, dcls>>
  IF r[1] # 0 THEN <<<<"d", "sentinel_enc_refused">>>>
  ELSE IF r[3] # 1 THEN <<<<"d", "sentinel_lost">>>>
  ELSE IF r[2] # DtsEncNone THEN <<<<"drift", "sentinel_word_differs_from_model">>>> ELSE <<>>

\* ---- device ids: run-length rows ----------------------------------------------------------
\* id_h run = <<lo, hi, icls, dform, bcls, dback, tt0, n0>>  for every h in lo..hi:
\*    id = hex->id(h);  icls 0 = 'tt:nnnnnn' inside the id space, 1 = well-formed but outside, 2 = not an id
\*    dform = h - (tt*2^18 + n);  back = id->hex(id): bcls 0 = 6 hex, 1 = raised, 2 = malformed;
\*    dback = int(back) - h;  <<tt0, n0>> = the id of lo
JudgeIdH(r) ==
  LET lo == r[1]  hi == r[2]  icls == r[3]  dform == r[4]  bcls == r[5]  dback == r[6] IN
  IF icls = 2 THEN <<<<"c", "hex_to_id_not_an_id">>>>
  ELSE IF icls = 1 THEN <<<<"c", "hex_to_id_outside_id_space">>>>
  ELSE IF bcls # 0 THEN <<<<"c", "id_to_hex_refused_or_malformed">>>>
  ELSE IF dback # 0 THEN <<<<"c", "hex_id_hex_not_identity">>>>
  ELSE IF dform # 0 \/ IdDec(lo) # <<r[7], r[8]>> THEN <<<<"drift", "id_numbering_differs_from_model">>>>
  ELSE <<>>
\* id_t run = <<lo, hi, ecls, dhex, bcls, same>> over i = tt*2^18 + n (tt <= 63, n < 2^18):
\*    hex = id->hex('tt:nnnnnn'): ecls 0 = 6 hex, 1 = raised, 2 = malformed; dhex = int(hex) - i
\*    back = hex->id(hex): bcls 0 = returned, 1 = raised; same = 1 iff back = the id
JudgeIdT(r) ==
  LET lo == r[1]  hi == r[2]  ecls == r[3]  dhex == r[4]  bcls == r[5]  same == r[6] IN
  IF ecls = 1 THEN <<<<"c", "id_to_hex_refused">>>>
  ELSE IF ecls = 2 THEN <<<<"c", "id_to_hex_malformed">>>>
  ELSE IF bcls # 0 THEN <<<<"c", "hex_to_id_refused">>>>
  ELSE IF same # 1 THEN <<<<"c", "id_hex_id_not_identity">>>>
  ELSE IF dhex # 0 \/ IdEnc(lo \div 262144, lo % 262144) # Word(lo) THEN <<<<"drift", "id_numbering_differs_from_model">>>>
  ELSE <<>>

\* ---- text -----------------------------------------------------------------------------------
\* enc row = <<s, ecls, bytes, dcls, s2>>   (s, s2: character codes)
JudgeStrEnc(r) ==
  LET s == r[1]  ecls == r[2]  b == r[3]  dcls == r[4]  s2 == r[5] IN
  IF ~StrOnGrid(s) THEN
     (IF ecls = 0 /\ dcls = 0 /\ (\A i \in 1..Len(s) : s[i] < 256) /\ s2 # StrDec(StrEnc(s))
      THEN <<<<"drift", "text_differs_from_model">>>> ELSE <<>>)
  ELSE IF ecls # 0 THEN <<<<"a", "enc_refused">>>>
  ELSE IF dcls # 0 THEN <<<<"a", "dec_refused">>>>
  ELSE IF s2 # s THEN <<<<"a", IF b = StrEnc(s) THEN "dec_mismatch" ELSE "enc_mismatch">>>>
  ELSE IF b # StrEnc(s) THEN <<<<"drift", "enc_bytes_differ_from_model">>>> ELSE <<>>
\* dec row = <<bytes, dcls, s, ecls, bytes2>>
JudgeStrDec(r) ==
  LET b == r[1]  dcls == r[2]  s == r[3]  ecls == r[4]  b2 == r[5]
      drift == IF dcls # 0 \/ s # StrDec(b) THEN <<<<"drift", "decoded_text_differs_from_model">>>> ELSE <<>>
  IN
  IF dcls = 0 /\ StrOnGrid(b) THEN            \* wire text that is itself on the grid  ---- clause b
    IF ecls # 0 THEN <<<<"b", "reenc_refused">>>>
    ELSE IF b2 # b THEN <<<<"b", "reenc_mismatch">>>>
    ELSE drift
  ELSE drift

\* ---- dispatch ---------------------------------------------------------------------------------
Judge(it, r) ==
  LET fam == it.fam  dir == it.dir  p == it.p IN
  CASE fam \in {"temp", "pct", "dbl", "sp", "bool"} /\ dir = "enc"  -> JudgeScalarEnc(fam, p, r)
    [] fam \in {"temp", "pct", "dbl", "sp", "bool"} /\ dir = "dec"  -> JudgeScalarDec(fam, p, r)
    [] fam \in {"temp", "pct", "dbl", "bool"} /\ dir = "sent"       -> JudgeScalarSent(fam, p, r)
    [] fam = "flag" /\ dir = "dec"  -> JudgeFlagDec(r)
    [] fam = "flag" /\ dir = "enc"  -> JudgeFlagEnc(r)
    [] fam = "dtm"  /\ dir = "enc"  -> JudgeDtmEnc(r)
    [] fam = "dtm"  /\ dir = "dec"  -> JudgeDtmDec(r)
    [] fam = "dtm"  /\ dir = "sent" -> JudgeDtmSent(r)
    [] fam = "date" /\ dir = "dec"  -> JudgeDateDec(r)
    [] fam = "dts"  /\ dir = "enc"  -> JudgeDtsEnc(r)
    [] fam = "dts"  /\ dir = "dec"  -> JudgeDtsDec(r)
    [] fam = "dts"  /\ dir = "sent" -> JudgeDtsSent(r)
    [] fam = "id"   /\ dir = "h"    -> JudgeIdH(r)
    [] fam = "id"   /\ dir = "t"    -> JudgeIdT(r)
    [] fam = "str"  /\ dir = "enc"  -> JudgeStrEnc(r)
    [] fam = "str"  /\ dir = "dec"  -> JudgeStrDec(r)

\* The whole item is folded in ONE step (l = 1 -> l = 2): a state per row made TLC spend its time on
\* fingerprinting the growing `fail` sequence; the clauses and their evaluation are the same.
\* EVERY row is judged; the verdict lists, per distinct <<clause, pattern>> of the item, the first failing row
\* and how many rows failed that way:  <<first row#, clause, pattern, count>>   (<<>> when there is none)
JudgeAll(it) ==
  LET S == UNION { LET js == Judge(it, it.rows[i]) IN {<<i, js[j][1], js[j][2]>> : j \in 1..Len(js)}
                   : i \in 1..Len(it.rows) }
      K == {<<x[2], x[3]>> : x \in S}
      Rows(k) == {x[1] : x \in {y \in S : y[2] = k[1] /\ y[3] = k[2]}}
  IN  IF S = {} THEN <<>>
      ELSE {<<CHOOSE r \in Rows(k) : \A q \in Rows(k) : r <= q, k[1], k[2], Cardinality(Rows(k))>> : k \in K}

Init == tid \in 1..Len(Traces) /\ l = 1 /\ fail = <<>>
Step == /\ l = 1
        /\ fail' = JudgeAll(Traces[tid])
        /\ l' = 2 /\ UNCHANGED tid
Spec == Init /\ [][Step]_vars
Verdict == (l = 2) => PrintT(<<"VERDICT", tid, fail>>)
=============================================================================

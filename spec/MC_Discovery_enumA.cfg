\* enumeration of the configurations of instance A (PrintT, one per line)
CONSTANTS
  ZoneIds <- MCZones
  Configs <- MCConfigs
  TcsTable <- TabZones2
  MCZones = {"00"}
  MCClasses = {"08", "11"}
  MCMaxActs = 2
  MCSensors = {"none", "thm", "ctl", "own"}
  MCDhw <- NoDhw
  MCApps = {"none"}
  MaxLoss = 2
  MaxRound = 3
  EtherCap = 1
  IterSafe = FALSE
SPECIFICATION EnumSpec
INVARIANT PrintCfg

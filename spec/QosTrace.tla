------------------------------ MODULE QosTrace ------------------------------
(* Batch validation of observable traces of the real PortProtocol against QosContract.      *)
(* One initial state per recorded execution; Step folds one event; Verdict prints the result. *)
EXTENDS QosContract, TLC, Json, IOUtils

Traces == JsonDeserialize(IOEnv.TRACE_FILE)

VARIABLES tid, l, s, fail
vars == <<tid, l, s, fail>>

Init == tid \in 1..Len(Traces) /\ l = 1 /\ s = S0 /\ fail = <<>>

Step == /\ l <= Len(Traces[tid].ev)
        /\ LET ev  == Traces[tid].ev
               bad == Bad(s, ev, l, Traces[tid].echo_to, Traces[tid].untimed = 0) IN
           \* first occurrence of every distinct failing clause (so that one known defect cannot
           \* mask a different violation later in the same execution)
           /\ fail' = IF bad # "" /\ ~(\E k \in 1..Len(fail) : fail[k][2] = bad)
                       THEN Append(fail, <<l, bad>>) ELSE fail
           /\ s' = Upd(s, ev[l])
        /\ l' = l + 1
        /\ UNCHANGED tid

Spec == Init /\ [][Step]_vars

Verdict == (l > Len(Traces[tid].ev)) => PrintT(<<"VERDICT", tid, fail>>)
=============================================================================

\* sensitivity instance: cache keyed on too little - Deterministic must FAIL here
SPECIFICATION Spec
CONSTANTS
  Pkts <- PktsDef
  Vals <- ValsDef
  Dec <- DecDef
  KeyOf <- KeyBad
  Cap = 2
  MaxDec = 4
  MaxEvict = 2
INVARIANT Deterministic
INVARIANT CacheSound

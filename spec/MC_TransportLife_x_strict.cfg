\* sensitivity instance (must be REFUTED): were Inactive.pkt_rcvd to raise, as its doc-string says, ordinary traffic heard
\* before connection_made / after connection_lost would leave protocol.pkt_received - NoEscape is not vacuous
SPECIFICATION Spec
CONSTANTS MaxTrys = 3  Sending = TRUE  MaxRx = 4  MaxEpochs = 2  StrictInactive = TRUE
INVARIANT NoEscape
CHECK_DEADLOCK FALSE

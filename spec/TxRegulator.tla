----------------------------- MODULE TxRegulator -----------------------------
(* C11 - transmit regulation of ramses_tx.transport.

   Serial (PortTransport.write_frame), one concurrent writer = one coroutine:

     Call        enter @limit_duty_cycle wrapper: top-up the shared bit bucket (closure
                 variables bits_in_bucket / last_time_bit_added), then
                   bucket < frame  -> arm  sleep((frame - bucket) / FILL_RATE)        (suspends)
                   else            -> TrySem
     WakeSleep   the sleep is over -> TrySem      (the bucket is NOT read again)
     TrySem      await self._leaker_sem.acquire()  (asyncio.BoundedSemaphore(1), FIFO hand-off)
                   free and nobody queued -> take it, Write     (no suspension)
                   else                   -> queue             (suspends)
     LeakTick    PortTransport._leak_sem(): every MIN_INTER_WRITE_GAP release one token
                 (ValueError of the bounded semaphore suppressed = saturating at 1);
                 a queued writer gets the token directly and runs one loop iteration later
     SemWake     the granted writer resumes -> Write
     Write       serial.write(frame); finally: bits_in_bucket -= frame

   The non-atomicity is the point: every writer computes its own sleep from the bucket it
   saw on entry and debits only after its write, so concurrent writers overdraw the bucket
   (bounded by one frame per pending write) and overtake each other (small before big).
   Serialised = TRUE is the proposed repair (a FIFO lock around the whole wrapper); the same
   module is model-checked both ways.

   Integer time: 1 tick = 0.1 ms; bits in units of 1e-4 bit  =>  FILL_RATE 384 bit/s is
   Rate = 384 units per tick, the 60 s bucket is Cap = 230 400 000 units, a frame of p payload
   bytes is (330 + 20 p) * 10 000 units, MIN_INTER_WRITE_GAP is Gap = 500 ticks.  Everything
   fits TLC's 32-bit integers for any trace length (elapsed times are clipped at one full
   refill before they are multiplied).

   The pure arithmetic (TopUp, SleepTicks, ShadowAfter and the MQTT token bucket) lives in TxMath.   *)
EXTENDS TxMath, Sequences, FiniteSets, TLC

CONSTANT Gap

(* ------------------------------------------------------------------------------------
   The concurrent model.                                                                 *)
CONSTANTS Writers,       \* set of writer ids (naturals)
          Sizes,         \* frame sizes a call may carry
          InitBucket,    \* set of initial bucket levels
          AdvSteps,      \* inter-event delays the environment may choose (ticks)
          CallUntil,     \* calls happen at times <= CallUntil
          MaxTime,       \* time is not advanced beyond MaxTime
          Serialised     \* FALSE: the code as it is;  TRUE: FIFO lock around the wrapper

VARIABLES now, bucket, last, sem, semq, leakAt, pc, size, wake, lockq, lockHolder,
          callSeq, callT, written, shadow, lastW, slack, h

vars == <<now, bucket, last, sem, semq, leakAt, pc, size, wake, lockq, lockHolder,
          callSeq, callT, written, shadow, lastW, slack, h>>

Pending == {"sleep", "semwait", "semgrant", "lockq", "lockgrant"}
IsPending(w) == pc[w] \in Pending

Init == /\ now = 0
        /\ bucket \in InitBucket /\ last = 0
        /\ sem = 1 /\ semq = <<>> /\ leakAt = Gap
        /\ pc = [w \in Writers |-> "new"]
        /\ size = [w \in Writers |-> 0]
        /\ wake = [w \in Writers |-> 0]
        /\ lockq = <<>> /\ lockHolder = 0
        /\ callSeq = <<>> /\ callT = [w \in Writers |-> 0]
        /\ written = <<>>
        /\ shadow = bucket /\ lastW = 0
        /\ slack = [w \in Writers |-> 0]
        /\ h = <<>>                                   \* environment choices only (spec -> code)

Hold(w) == IF Serialised THEN w ELSE 0      \* with the repair the caller holds the lock up to its write

RECURSIVE SumSizes(_, _)
SumSizes(S, f) == IF S = {} THEN 0 ELSE LET x == CHOOSE x \in S : TRUE IN f[x] + SumSizes(S \ {x}, f)

(* serial.write + finally-debit; with the repair also: hand the lock on *)
DoWrite(w, b, sz, sl) ==
    LET s == ShadowAfter(shadow, lastW, now, sz) IN
    /\ bucket' = b - sz
    /\ written' = Append(written, [id |-> w, t |-> now, size |-> sz, shadow |-> s, slack |-> sl])
    /\ shadow' = s /\ lastW' = now
    /\ IF Serialised /\ lockq # <<>>
         THEN /\ lockHolder' = Head(lockq) /\ lockq' = Tail(lockq)
              /\ pc' = [pc EXCEPT ![w] = "done", ![Head(lockq)] = "lockgrant"]
         ELSE /\ lockHolder' = 0 /\ lockq' = lockq
              /\ pc' = [pc EXCEPT ![w] = "done"]

NobodyWaitsForSem == semq = <<>> /\ \A v \in Writers : pc[v] # "semgrant"

(* await self._leaker_sem.acquire() and, if it does not suspend, everything after it *)
TrySem(w, b, sz, sl) ==
    IF sem = 1 /\ NobodyWaitsForSem
      THEN /\ sem' = 0 /\ semq' = semq /\ DoWrite(w, b, sz, sl)
      ELSE /\ semq' = Append(semq, w) /\ sem' = sem
           /\ pc' = [pc EXCEPT ![w] = "semwait"]
           /\ bucket' = b /\ lockHolder' = Hold(w)
           /\ UNCHANGED <<written, shadow, lastW, lockq>>

(* wrapper body from the top-up to the first suspension *)
Enter(w, sz, sl) ==
    LET b == TopUp(bucket, last, now) IN
    /\ last' = now
    /\ IF b < sz
         THEN /\ wake' = [wake EXCEPT ![w] = now + SleepTicks(b, sz)]
              /\ pc' = [pc EXCEPT ![w] = "sleep"]
              /\ bucket' = b /\ lockHolder' = Hold(w)
              /\ UNCHANGED <<sem, semq, written, shadow, lastW, lockq>>
         ELSE /\ wake' = wake
              /\ TrySem(w, b, sz, sl)

Call(w, sz) ==
    /\ pc[w] = "new" /\ now <= CallUntil
    /\ \A v \in Writers : v < w => pc[v] # "new"          \* symmetry: writers are called in id order
    /\ size' = [size EXCEPT ![w] = sz]
    /\ callSeq' = Append(callSeq, w) /\ callT' = [callT EXCEPT ![w] = now]
    /\ h' = Append(h, <<now, sz>>)
    \* "one frame per write already pending": every write whose pending interval overlaps this one
    /\ slack' = [v \in Writers |->
                   IF v = w THEN SumSizes({u \in Writers : IsPending(u)}, size)
                   ELSE IF IsPending(v) THEN slack[v] + sz ELSE slack[v]]
    /\ IF Serialised /\ lockHolder # 0
         THEN /\ lockq' = Append(lockq, w) /\ pc' = [pc EXCEPT ![w] = "lockq"]
              /\ UNCHANGED <<bucket, last, sem, semq, wake, lockHolder, written, shadow, lastW>>
         ELSE Enter(w, sz, SumSizes({u \in Writers : IsPending(u)}, size))
    /\ UNCHANGED <<now, leakAt>>

LockWake(w) ==
    /\ pc[w] = "lockgrant"
    /\ Enter(w, size[w], slack[w])
    /\ UNCHANGED <<now, leakAt, size, callSeq, callT, slack, h>>

WakeSleep(w) ==
    /\ pc[w] = "sleep" /\ wake[w] <= now
    /\ TrySem(w, bucket, size[w], slack[w])
    /\ UNCHANGED <<now, last, leakAt, size, wake, callSeq, callT, slack, h>>

LeakTick ==
    /\ leakAt <= now
    /\ leakAt' = leakAt + Gap
    /\ IF semq # <<>>
         THEN /\ pc' = [pc EXCEPT ![Head(semq)] = "semgrant"] /\ semq' = Tail(semq) /\ sem' = sem
         ELSE /\ sem' = 1 /\ UNCHANGED <<pc, semq>>
    /\ UNCHANGED <<now, bucket, last, size, wake, lockq, lockHolder, callSeq, callT, written, shadow, lastW, slack, h>>

SemWake(w) ==
    /\ pc[w] = "semgrant"
    /\ sem' = sem /\ semq' = semq
    /\ DoWrite(w, bucket, size[w], slack[w])
    /\ UNCHANGED <<now, last, leakAt, size, wake, callSeq, callT, slack, h>>

Urgent == \/ leakAt <= now
          \/ \E w \in Writers : \/ pc[w] = "sleep" /\ wake[w] <= now
                                \/ pc[w] \in {"semgrant", "lockgrant"}

(* a leak tick only matters while the token is out or somebody queues for it; idle ticks (the
   semaphore saturates at 1) are skipped by Advance, keeping the phase of the ticker            *)
LeakMatters == sem = 0 \/ semq # <<>>
LeakAlign(t) == CeilDiv(t, Gap) * Gap

NextDeadline == LET D == {MaxTime} \cup (IF LeakMatters THEN {leakAt} ELSE {})
                             \cup {wake[w] : w \in {v \in Writers : pc[v] = "sleep"}}
                IN CHOOSE d \in D : \A e \in D : d <= e

CanCall == \E w \in Writers : pc[w] = "new"
Advance ==
    /\ ~Urgent /\ now < MaxTime
    /\ (\E w \in Writers : IsPending(w)) \/ (CanCall /\ now < CallUntil) \/ sem = 0
    /\ \E t \in {NextDeadline} \cup {now + d : d \in (IF CanCall THEN AdvSteps ELSE {})} :
         /\ t > now /\ t <= NextDeadline
         /\ (t = NextDeadline /\ (\E w \in Writers : IsPending(w))) \/ t <= CallUntil \/ ~CanCall
         /\ now' = t
         /\ leakAt' = IF leakAt > t THEN leakAt ELSE LeakAlign(t)
    /\ UNCHANGED <<bucket, last, sem, semq, pc, size, wake, lockq, lockHolder,
                   callSeq, callT, written, shadow, lastW, slack, h>>

Next == \/ \E w \in Writers, sz \in Sizes : Call(w, sz)
        \/ \E w \in Writers : WakeSleep(w) \/ SemWake(w) \/ LockWake(w)
        \/ LeakTick
        \/ Advance

Spec == Init /\ [][Next]_vars

(* ------------------------------------------------------------------------------------
   The clauses of C11 (DESIGN App. A) on the model.                                       *)
MaxFrame == CHOOSE m \in Sizes : \A s \in Sizes : s <= m

(* a: the shadow bucket is never overdrawn by more than one frame per overlapping write *)
ShadowBound == \A i \in 1..Len(written) : written[i].shadow >= 0 - written[i].slack

(* b: t_b - t_a >= (b - a - 1) * Gap *)
Spacing == \A a \in 1..Len(written), b \in 1..Len(written) :
             a < b => written[b].t - written[a].t >= (b - a - 1) * Gap

CallIdx(w) == CHOOSE i \in 1..Len(callSeq) : callSeq[i] = w
(* d: once ... *)
NoDup == \A i \in 1..Len(written), j \in 1..Len(written) : i # j => written[i].id # written[j].id
(* d: ... in order (J12: acceptance order at the one write_frame entry point) *)
InOrder == \A i \in 1..Len(written), j \in 1..Len(written) :
             i < j => CallIdx(written[i].id) < CallIdx(written[j].id)
(* d: eventually - bounded form: nothing is pending any more at MaxTime *)
AllWritten == (now = MaxTime /\ ~Urgent) => \A w \in Writers : ~IsPending(w)
(* regulation only delays: a writer that needs no refill and finds the token is not delayed;
   nobody waits longer than its own refill time plus one gap per writer ahead of it (code as is) *)
Prompt == Serialised \/
          \A i \in 1..Len(written) :
            written[i].t - callT[written[i].id] <= CeilDiv(MaxFrame + Cardinality(Writers) * MaxFrame, Rate) + (Cardinality(Writers) + 1) * Gap

(* with the repair nobody overdraws: the bound holds without the "pending" allowance *)
StrictShadow == \A i \in 1..Len(written) : written[i].shadow >= 0

TypeOK == /\ bucket <= Cap /\ sem \in {0, 1}
          /\ \A w \in Writers : pc[w] \in {"new", "done"} \cup Pending

=============================================================================

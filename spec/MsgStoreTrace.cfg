SPECIFICATION TSpec
CONSTANTS
  Ctx = {1, 2, 3, 4, 5, 6, 7, 8, 9, 10, 11, 12}
  Code = {1, 2, 3, 4}
  Val = {1}
  Attr = {"x"}
  CodesOf <- DummyF
  LifeS <- DummyF
  LifeA <- DummyF
  Grace = 3000
  StaleFirstRead = TRUE
  InFlight = FALSE
  StampSteps = {1}
  CrossCodeOpen = TRUE
INVARIANT Verdict

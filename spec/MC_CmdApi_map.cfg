SPECIFICATION SpecMap
CONSTANT Deep = FALSE

---------------------------- MODULE MC_Discovery ----------------------------
(* Bounded instances of Discovery: all small configurations x loss placements.
   Device ids are real-looking so that a model configuration can be handed to the harness as is. *)
EXTENDS Discovery

CONSTANTS MCZones, MCClasses, MCMaxActs, MCSensors, MCDhw, MCApps

CtlId == "01:145038"
ActType(c) == IF c = "08" THEN "04" ELSE "13"
Act(z, c, k) == ActType(c) \o ":0" \o z \o "10" \o ToString(k)
Thm(z) == "34:0" \o z \o "200"

ActSets(z, c) == {{Act(z, c, k) : k \in 1..n} : n \in 0..MCMaxActs}

\* sensor kinds: "none", "thm" (a thermostat), "ctl" (the controller itself), "own" (the zone's first TRV)
Sens(z, c, acts) ==
  (IF "none" \in MCSensors THEN {None} ELSE {})
  \cup (IF "thm" \in MCSensors THEN {Thm(z)} ELSE {})
  \cup (IF "ctl" \in MCSensors THEN {CtlId} ELSE {})
  \cup (IF "own" \in MCSensors /\ c = "08" /\ acts # {} THEN {Act(z, c, 1)} ELSE {})

ZoneRecs(z) ==
  UNION {UNION {{[cls |-> c, sen |-> s, acts |-> a] : s \in Sens(z, c, a)} : a \in ActSets(z, c)} :
           c \in MCClasses}

ZoneMaps ==
  UNION {{f \in [S -> UNION {ZoneRecs(z) : z \in S}] :
            /\ \A z \in S : f[z] \in ZoneRecs(z)
            /\ Cardinality({z \in S : f[z].sen = CtlId}) <= 1} : S \in SUBSET MCZones}

DhwRec(parts) == [sen |-> IF "sen" \in parts THEN "07:000007" ELSE None,
                  hwv |-> IF "hwv" \in parts THEN "13:000008" ELSE None,
                  htv |-> IF "htv" \in parts THEN "13:000009" ELSE None]

AppId(a) == IF a = "bdr" THEN "13:000010" ELSE IF a = "otb" THEN "10:000011" ELSE None

MCConfigs == {[zones |-> f, dhw |-> DhwRec(p), app |-> AppId(a)] : f \in ZoneMaps, p \in MCDhw, a \in MCApps}

\* TCS tables (in the order the code builds them)
SysHdrs == << <<"000C", "00", "0F">>, <<"000C", "00", "0E">>, <<"000C", "01", "0E">>, <<"000C", "00", "0D">> >>
ZonHdrs2 == << <<"0005", "00", "08">>, <<"0005", "00", "11">>, <<"0005", "00", "04">> >>
ZonHdrs4 == << <<"0005", "00", "08">>, <<"0005", "00", "0A">>, <<"0005", "00", "0B">>,
               <<"0005", "00", "11">>, <<"0005", "00", "04">> >>
TabZones2 == ZonHdrs2
TabZones4 == ZonHdrs4
TabSys == SysHdrs
TabAll2 == SysHdrs \o ZonHdrs2
TabAll4 == SysHdrs \o ZonHdrs4
NoDhw == {{}}
DhwAll == SUBSET {"sen", "hwv", "htv"}
DhwSome == {{}, {"sen"}, {"hwv", "htv"}, {"sen", "hwv", "htv"}}

\* enumeration of the configurations of an instance (one line per initial state), for the harness
EnumSpec == Init /\ [][UNCHANGED vars]_vars
PrintCfg == PrintT(<<"CFG", ToString(cfg)>>)
=============================================================================

---- MODULE MC_CmdApi ----
(* Bounded instance of CmdApi: for every public constructor the cross product of its argument
   classes (class representatives of the documented domains, their boundaries, and values outside).
   One TLC state per call.  TLC checks the tables here (totality / mutual consistency); the states
   are dumped, checks/c03.py performs every call on the real constructor and the real decoder and
   CmdApiTrace judges the recorded rows.

   The first class of a slot is its plain default; a failing call is reported under the classes
   that cannot be reset to the default without the failure disappearing (checks/c03.py).        *)
EXTENDS CmdApi

CONSTANT Deep          \* FALSE = quick tier, TRUE = thorough tier

T == TRUE
F == FALSE
Va == V("absent", "none", 0, "", <<>>, TRUE)       \* the keyword is not passed at all
GpAll(q, g) == [i \in 1..Len(q) |-> Gp(q[i], g)]
Lsb(v) == Gp(v, "lsb")       \* a point of the 0.01 grid that int(v * 100) does not reach in binary floating point

Cat(a, b) == a \o b
SeqOf(lo, hi, Op(_)) == [i \in 1..(hi - lo + 1) |-> Op(lo + i - 1)]

ZS(n) == Vs("z" \o Hex2(n), Hex2(n), TRUE)
ZI(n) == Vi("zi" \o Hex2(n), n, TRUE)
ZoneIn  == IF Deep THEN SeqOf(0, 15, ZS) \o SeqOf(0, 15, ZI)
           ELSE <<ZS(0), ZS(11), ZI(3), ZS(15), ZI(11)>>
ZoneOut == <<Vi("zi16", 16, F), Vi("zi255", 255, F), Vs("z10", "10", F), Vn("znone", F), Vs("zbad", "ZZ", F), Vi("zneg", -1, F)>>
ZoneDhw(dom) == <<Vs("zFA", "FA", dom), Vs("zHW", "HW", dom), Vi("zi250", 250, dom)>>
ZoneCls     == ZoneIn \o ZoneDhw(F) \o ZoneOut        \* zone constructors
ZoneClsFrag == ZoneIn \o ZoneDhw(T) \o ZoneOut        \* schedule fragments: FA / HW is the DHW schedule
ZoneFew     == <<ZS(0), ZI(3), Vs("zFA", "FA", F), Vi("zi16", 16, F)>>   \* where other slots carry the weight

DhwIdx == <<Va, Vi("d0", 0, T), Vi("d1", 1, T), Vi("d2", 2, F)>>

(* temperatures on the 0.01 grid: plain, boundaries, a grid point that a truncating encoder loses
   (502, 3205: int(v*100) # v*100 in binary floating point), whole numbers as int, None, outside *)
TempOut == <<Vr("tneg", -100, F), Vr("twrap", 40000, F), Vr("tbig", 65536, F), Vs("tstr", "21.5", F)>>
Setpoint == <<Vr("t2150", 2150, T), Vr("t500", 500, T), Vr("t3500", 3500, T), Lsb(Vr("t502", 502, T)), Lsb(Vr("t3205", 3205, T)), Vi("ti20", 20, T)>>
            \o (IF Deep THEN <<Vr("t501", 501, T), Lsb(Vr("t1999", 1999, T)), Vr("t2137", 2137, T), Vr("t3499", 3499, T)>> ELSE <<>>)
SensorT  == <<Vr("t2150", 2150, T), Vr("t0", 0, T), Lsb(Vr("t502", 502, T)), Lsb(Vr("t3205", 3205, T)), Vi("ti20", 20, T), Vn("tnone", T), Vr("tneg", -550, T)>>
            \o <<Vr("twrap", 40000, F), Vr("tbig", 65536, F), Vs("tstr", "21.5", F)>>

(* Deep: every point of the 0.01 grid over a range (one input class "grid": which points a binary
   floating point encoder loses is not for the spec to know) *)
Grid(lo, hi) == IF Deep THEN SeqOf(lo, hi, LAMBDA k : Gp(Vr("g" \o ToString(k), k, T), "grid")) ELSE <<>>

Bools   == <<Vb("bF", 0, T), Vb("bT", 1, T)>>
BoolsX  == Bools \o <<Vi("bi1", 1, F), Vs("bstr", "on", F), Vn("bnone", F)>>

(* datetimes: minute resolution for until (leap day, a DST change day, year end), as datetime and as text *)
Until   == <<Vn("unone", T), Vd("uleap", "2024-02-29T12:30:00", T), Vd("udst", "2023-03-26T02:30:00", T)>>
           \o (IF Deep THEN <<Vd("uyend", "2021-12-31T23:59:00", T), Vs("ustr", "2024-02-29T12:30:00", T), Vd("unoleap", "2025-02-28T23:59:00", T),
                               Vd("udstend", "2023-10-29T02:30:00", T), Vd("u2099", "2099-12-31T23:59:00", T), Vd("u2000", "2000-01-01T00:00:00", T)>> ELSE <<>>)
(* datetimes finer than the wire (a clock read with dt.now() has microseconds): second 0 / 30 / 59 of a minute
   x microsecond 1 / 499999 / 500000 / 999999 -- below, at and above the half of the wire unit, and the last
   representable instant before the next one; the 59.x ones are followed by a new minute / day / month.
   One input class "subsec".  `until` arguments are carried in whole minutes, W|313F in whole seconds. *)
Sub(q) == GpAll(q, "subsec")
UsOf == <<1, 499999, 500000, 999999>>
UsTag == <<"u1", "u499999", "u500000", "u999999">>
\* until = 2024-02-29T12:30:ss.uuuuuu / 2024-02-29T23:59:59.uuuuuu: k = microseconds beyond the whole minute
UntilSubAt(tag, lo, hi, sec) == [i \in 1..4 |-> Vdf(tag \o UsTag[i], lo, sec * 1000000 + UsOf[i], hi, T)]
UntilSubQ == Sub(<<Vdf("us00u1", "2024-02-29T12:30:00", 1, "2024-02-29T12:31:00", T),
                   Vdf("us59u500000", "2024-02-29T23:59:00", 59500000, "2024-03-01T00:00:00", T)>>)
\* Deep: the other ten combinations, whole seconds without microseconds, ISO text (crossed with the defaults of the other slots only)
UntilSubD == IF Deep
             THEN Sub(SelectSeq(UntilSubAt("us00", "2024-02-29T12:30:00", "2024-02-29T12:31:00", 0)
                                \o UntilSubAt("us30", "2024-02-29T12:30:00", "2024-02-29T12:31:00", 30)
                                \o UntilSubAt("us59", "2024-02-29T23:59:00", "2024-03-01T00:00:00", 59),
                                LAMBDA v : v.tag \notin {"us00u1", "us59u500000"})
                      \o <<Vdf("us30u0", "2024-02-29T12:30:00", 30000000, "2024-02-29T12:31:00", T),
                           Vdf("us59u0", "2024-02-29T23:59:00", 59000000, "2024-03-01T00:00:00", T),
                           Vdft("ustrsub", "2024-02-29T12:30:00", 59500000, "2024-02-29T12:31:00", T)>>)
             ELSE <<>>
\* set_system_time
TimeSubAt(tag, lo, hi) == [i \in 1..4 |-> Vdf(tag \o UsTag[i], lo, UsOf[i], hi, T)]
TimeSub == Sub(TimeSubAt("ts00", "2000-01-01T00:00:00", "2000-01-01T00:00:01")
               \o TimeSubAt("ts30", "2024-06-15T12:00:30", "2024-06-15T12:00:31")
               \o TimeSubAt("ts59", "2024-02-29T23:59:59", "2024-03-01T00:00:00")
               \o (IF Deep THEN TimeSubAt("ts59h", "2023-07-31T22:59:59", "2023-07-31T23:00:00")
                                 \o TimeSubAt("ts59m", "2025-06-01T12:00:59", "2025-06-01T12:01:00")
                                 \o <<Vdft("tstrsub", "2024-02-29T23:59:59", 500000, "2024-03-01T00:00:00", T)>>
                    ELSE <<>>))

(* the calendar: every month, the first and the last day of a month, hour 0 / 23, minute 0 / 59 (second 0 / 59
   for W|313F), years 2000 / 2024 / 2099 -- a covering set (every value of every field, not their product), one
   class per month and one input class "mon<MM>" per month.  Deep adds the complementary set (first <-> last
   day, 0 <-> 23 h, 0 <-> 59 min, another year; non-leap February) under the same input classes. *)
CalA == <<<<"01", "2000-01-01T00:00", ":00">>, <<"02", "2024-02-29T23:59", ":59">>, <<"03", "2099-03-01T23:00", ":59">>,
          <<"04", "2000-04-30T00:59", ":00">>, <<"05", "2024-05-01T00:59", ":59">>, <<"06", "2099-06-30T23:00", ":00">>,
          <<"07", "2000-07-31T23:59", ":00">>, <<"08", "2024-08-31T00:00", ":59">>, <<"09", "2099-09-01T23:59", ":00">>,
          <<"10", "2000-10-31T00:00", ":59">>, <<"11", "2024-11-30T23:00", ":00">>, <<"12", "2099-12-31T23:59", ":59">>>>
CalB == <<<<"01", "2024-01-31T23:59", ":59">>, <<"02", "2099-02-28T00:00", ":00">>, <<"03", "2000-03-31T00:59", ":00">>,
          <<"04", "2024-04-01T23:00", ":59">>, <<"05", "2099-05-31T23:00", ":00">>, <<"06", "2000-06-01T00:59", ":59">>,
          <<"07", "2024-07-01T00:00", ":59">>, <<"08", "2099-08-01T23:59", ":00">>, <<"09", "2000-09-30T00:00", ":59">>,
          <<"10", "2024-10-01T23:59", ":00">>, <<"11", "2099-11-01T00:59", ":59">>, <<"12", "2024-12-01T00:00", ":00">>>>
CalOf(tab, sfx, secs) == [i \in 1..12 |-> Gp(Vd("cal" \o tab[i][1] \o sfx, tab[i][2] \o (IF secs THEN tab[i][3] ELSE ":00"), T), "mon" \o tab[i][1])]
UntilCal == CalOf(CalA, "a", F) \o (IF Deep THEN CalOf(CalB, "b", F) ELSE <<>>)
TimeCal  == CalOf(CalA, "a", T) \o (IF Deep THEN CalOf(CalB, "b", T) ELSE <<>>)

Durn    == <<Vn("dnone", T), Gp(Vi("d3600", 3600, T), "secs"), Vi("d0", 0, F)>> \o (IF Deep THEN <<Gp(Vi("d60", 60, T), "secs"), Vi("dbig", 16777216, F)>> ELSE <<>>)

ModeArg == <<Vn("mnone", T), Vs("mfollow", "follow_schedule", T), Vs("mperm", "permanent_override", T),
             Gp(Vs("mtemp", "temporary_override", T), "temporary"), Gp(Vs("mcount", "countdown_override", T), "countdown"),
             Vs("madv", "advanced_override", T)>>
           \o (IF Deep THEN <<Vs("m00", "00", T), Vs("m02", "02", T), Gp(Vs("m04", "04", T), "temporary"), Gp(Vi("mi3", 3, T), "countdown"),
                               Gp(Vi("mi4", 4, T), "temporary"), Gp(Vs("m03", "03", T), "countdown")>>
               ELSE <<Gp(Vs("m04", "04", T), "temporary"), Gp(Vi("mi3", 3, T), "countdown")>>)
           \o <<Vs("mbad", "bogus", F), Vs("m05", "05", F), Vi("mi9", 9, F)>>

SysModeArg == <<Vs("sauto", "auto", T), Vn("snone", T), Vs("seco", "eco_boost", T), Vs("saway", "away", T), Vs("soff", "heat_off", T),
                Vs("s06", "06", T), Vi("si4", 4, T), Vs("scustom", "custom", T)>>
              \o (IF Deep THEN <<Vs("s00", "00", T), Vs("s05", "05", T), Vi("si0", 0, T), Vi("si7", 7, T), Vs("sdayoff", "day_off", T),
                                 Vs("sdoe", "day_off_eco", T), Vs("sreset", "auto_with_reset", T)>> ELSE <<>>)
              \o <<Vs("sbad", "bogus", F), Vs("s08", "08", F), Vi("si8", 8, F)>>

FanModeArg == <<Vi("fi2", 2, T), Vn("fnone", T), Vs("f03", "03", T), Gp(Vs("fhigh", "high", T), "name"), Vi("fi7", 7, T), Gp(Vs("faway", "away", T), "name")>>
              \o (IF Deep THEN Cat(Cat(SeqOf(0, 7, LAMBDA n : Vi("fi" \o Hex2(n), n, T)), SeqOf(0, 7, LAMBDA n : Vs("f" \o Hex2(n), Hex2(n), T))),
                                    GpAll(<<Vs("flow", "low", T), Vs("fmedium", "medium", T), Vs("fauto", "auto", T), Vs("fboost", "boost", T), Vs("foff", "off", T)>>, "name"))
                  ELSE <<>>)
              \o <<Vi("fi8", 8, F), Vs("fbad", "turbo", F)>>

(* data-ids the library's OpenTherm schema names (opentherm.py); the others are "Unknown data-id" to its decoder *)
KnownOtIds == {0, 1, 2, 3, 5, 6, 9, 10, 12, 13, 14, 15, 16, 17, 18, 19, 24, 25, 26, 27, 28, 48, 49, 56, 57, 113, 114, 115, 116, 117, 118, 119, 120, 121, 122, 123, 124, 125, 126, 127}
OtId(n) == IF n \in KnownOtIds THEN Vi("o" \o Hex2(n), n, T) ELSE Gp(Vi("o" \o Hex2(n), n, T), "unknown-id")

(* the same code lists in every kind of container (CmdApi!SeqKinds).  The constructor sniffs its argument with
   codes[0], i.e. it documents what can be indexed (list, tuple; a single code as text); for everything else it
   either refuses the call or builds a frame that carries the codes the container yields (clauses b / c).
   Input classes: "view" = sized and re-iterable but not indexable, "oneshot" = yields its items once *)
CodesIn == <<Vq("ctup2", "tuple", <<"30C9", "0008">>, T)>>
           \o GpAll(<<Vq("ckeys2", "keys", <<"30C9", "0008">>, F)>>, "view")
           \o GpAll(<<Vq("cgen2", "gen", <<"30C9", "0008">>, F), Vq("citer1", "iter", <<"30C9">>, F),
                      Vq("cmap2", "map", <<"2309", "30C9">>, F)>>, "oneshot")
           \o (IF Deep THEN <<Vq("ctup1", "tuple", <<"2309">>, T), Vq("ctup3", "tuple", <<"30C9", "0008", "2309">>, T)>>
                             \o GpAll(<<Vq("ckeys1", "keys", <<"2309">>, F), Vq("ckeys3", "keys", <<"30C9", "0008", "2309">>, F),
                                        Vq("cset1", "set", <<"30C9">>, F)>>, "view")
                             \o GpAll(<<Vq("cgen1", "gen", <<"2309">>, F), Vq("cgen3", "gen", <<"30C9", "0008", "2309">>, F),
                                        Vq("citer2", "iter", <<"30C9", "0008">>, F), Vq("cmap1", "map", <<"30C9">>, F),
                                        Vq("cgen0", "gen", <<>>, F), Vq("cgenfc9", "gen", <<"1FC9">>, F)>>, "oneshot")
                ELSE <<>>)

Slots(ctor) ==
  CASE ctor \in ZoneRQ -> <<<<"zone_idx", ZoneCls>>>>
    [] ctor \in DhwRQ  -> <<<<"dhw_idx", DhwIdx>>>>
    [] ctor \in NoArgRQ -> <<>>
    [] ctor = "get_relay_demand" -> <<<<"zone_idx", <<Vn("znone", T), ZS(0)>> \o GpAll(<<Vs("zFC", "FC", T), Vs("zF9", "F9", T), Vs("zFA", "FA", T), ZS(1)>>, "zone") \o <<Vi("zi16", 16, F)>>>>>>
    [] ctor = "get_tpi_params" -> <<<<"domain_id", <<Va, Vn("xnone", T), Vs("xFC", "FC", T), Vs("x00", "00", T), Vi("xi252", 252, T), Vs("xF9", "F9", F), Vs("x01", "01", F)>>>>>>
    [] ctor = "get_schedule_fragment" ->
         <<<<"zone_idx", IF Deep THEN ZoneClsFrag ELSE <<ZS(0), ZI(3), Vs("zFA", "FA", T), Vs("zHW", "HW", T), Vi("zi16", 16, F)>>>>,
           <<"frag_number", <<Vi("n1", 1, T), Vi("n2", 2, T), Vi("n3", 3, T), Vi("n0", 0, T), Vi("n4", 4, T), Vi("n256", 256, F), Vi("nneg", -1, F)>>
                             \o (IF Deep THEN <<Vi("n255", 255, T), Vi("n16", 16, T)>> ELSE <<>>)>>,
           <<"total_frags", <<Vn("knone", T), Vi("k0", 0, T), Vi("k3", 3, T), Vi("k1", 1, T), Vi("k4", 4, T), Vi("k256", 256, F)>>
                             \o (IF Deep THEN <<Vi("k255", 255, T), Vi("k16", 16, T)>> ELSE <<>>)>>>>
    [] ctor = "set_schedule_fragment" ->
         <<<<"zone_idx", IF Deep THEN ZoneClsFrag ELSE <<ZS(0), ZI(3), Vs("zFA", "FA", T), Vs("zHW", "HW", T), Vi("zi16", 16, F)>>>>,
           <<"frag_num", <<Vi("n1", 1, T), Vi("n2", 2, T), Vi("n3", 3, T), Vi("n0", 0, T), Vi("n4", 4, T), Vi("n256", 256, F)>>>>,
           <<"frag_cnt", <<Vi("k3", 3, T), Vi("k1", 1, T), Vi("k0", 0, T), Vi("k256", 256, F)>>>>,
           <<"fragment", <<Vs("gAABB", "AABB", T), Vs("g41", "00112233445566778899AABBCCDDEEFF00112233445566778899AABBCCDDEEFF001122334455667788", T),
                           Vs("gempty", "", F), Vs("g42", "00112233445566778899AABBCCDDEEFF00112233445566778899AABBCCDDEEFF00112233445566778899", F),
                           Vs("godd", "AAB", F), Vs("gnothex", "GGHH", F)>>>>>>
    [] ctor = "get_system_log_entry" ->
         <<<<"log_idx", <<Vi("l0", 0, T), Vi("l1", 1, T), Vi("l63", 63, T), Vs("l3F", "3F", T), Vs("l00", "00", T), Vi("l64", 64, F), Vi("l255", 255, F), Vi("l256", 256, F), Vs("lbad", "ZZ", F)>>>>>>
    [] ctor = "get_opentherm_data" ->
         <<<<"msg_id", (IF Deep THEN SeqOf(0, 255, LAMBDA n : OtId(n))
                        ELSE <<OtId(0), OtId(5), OtId(17), OtId(115), OtId(255), OtId(1), OtId(128), OtId(27), OtId(4)>>)
                       \o <<Vs("os11", "11", T), Vi("o256", 256, F), Vs("obad", "ZZ", F)>>>>>>
    [] ctor = "set_zone_name" ->
         <<<<"zone_idx", ZoneFew>>,
           <<"name", <<Vs("nKitchen", "Kitchen", T), Vs("n20", "Master Bedroom Suite", T), Vs("n1", "A", T), Vs("nempty", "", T),
                       Vs("n21", "Master Bedroom Suite2", F), Vs("nspace", "Den ", F),
                       \* every printable ASCII character is in the domain: the ends of the range are their own class
                       Gp(Vs("ntilde", "a~b", T), "edge"), Gp(Vs("nbang", "!z}{", T), "edge")>>>>>>
    [] ctor = "set_zone_config" ->
         <<<<"zone_idx", ZoneFew>>,
           <<"min_temp", <<Va, Vr("t500", 500, T), Vr("t2100", 2100, T), Lsb(Vr("t502", 502, T)), Vi("ti5", 5, T), Vr("t499", 499, F), Vr("t2101", 2101, F)>>>>,
           <<"max_temp", <<Va, Vr("t3500", 3500, T), Vr("t2100", 2100, T), Lsb(Vr("t3205", 3205, T)), Vr("t2099", 2099, F), Vr("t3501", 3501, F)>>>>,
           <<"local_override", <<Va>> \o (IF Deep THEN BoolsX ELSE <<Vb("bT", 1, T), Vi("bi1", 1, F)>>)>>,
           <<"openwindow_function", <<Va, Vb("bT", 1, T)>>>>,
           <<"multiroom_mode", <<Va, Vb("bT", 1, T)>>>>>>
    [] ctor = "set_mix_valve_params" ->
         <<<<"zone_idx", ZoneFew>>,
           <<"max_flow_setpoint", <<Va, Vi("i0", 0, T), Vi("i99", 99, T), Vi("i100", 100, F), Vi("ineg", -1, F)>>>>,
           <<"min_flow_setpoint", <<Va, Vi("i0", 0, T), Vi("i50", 50, T), Vi("i51", 51, F)>>>>,
           <<"valve_run_time", <<Va, Vi("i0", 0, T), Vi("i240", 240, T), Vi("i241", 241, F)>>>>,
           <<"pump_run_time", <<Va, Vi("i99", 99, T), Vi("i100", 100, F)>>>>>>
    [] ctor = "set_dhw_params" ->
         <<<<"dhw_idx", DhwIdx>>,
           <<"setpoint", <<Va, Vr("t3000", 3000, T), Vr("t8500", 8500, T), Lsb(Vr("t3205", 3205, T)), Vn("tnone", T), Vi("ti50", 50, T), Vr("t2999", 2999, F), Vr("t8501", 8501, F)>>>>,
           <<"overrun", <<Va, Vi("i0", 0, T), Vi("i10", 10, T), Vn("inone", T), Vi("i11", 11, F), Vi("ineg", -1, F)>>>>,
           <<"differential", <<Va, Vr("t100", 100, T), Vr("t1000", 1000, T), Lsb(Vr("t113", 113, T)), Vi("ti3", 3, T), Vn("tnone", T), Vr("t99", 99, F), Vr("t1001", 1001, F)>>>>>>
    [] ctor = "set_tpi_params" ->
         <<<<"domain_id", <<Vs("xFC", "FC", T), Vn("xnone", T), Vs("x00", "00", T), Vs("xF9", "F9", F), Vs("x01", "01", F)>>>>,
           <<"cycle_rate", <<Va, Vi("c3", 3, T), Vi("c6", 6, T), Vi("c9", 9, T), Vi("c12", 12, T), Vi("c1", 1, F), Vi("c64", 64, F)>>>>,
           <<"min_on_time", <<Va, Vi("i1", 1, T), Vi("i5", 5, T), Vr("t250", 250, F), Vi("i64", 64, F)>>>>,
           <<"min_off_time", <<Va, Vi("i0", 0, T), Vi("i5", 5, T), Vi("i64", 64, F)>>>>,
           <<"proportional_band_width", <<Va, Vn("pnone", T), Vr("p150", 150, T), Vr("p300", 300, T), Lsb(Vr("p201", 201, T)), Vr("pwrap", 40000, F)>>>>>>
    [] ctor = "set_dhw_mode" ->
         <<<<"dhw_idx", IF Deep THEN DhwIdx ELSE <<Va, Vi("d1", 1, T), Vi("d2", 2, F)>>>>,
           <<"mode", ModeArg>>,
           <<"active", <<Vb("bT", 1, T), Vb("bF", 0, T), Vn("anone", T), Vi("ai1", 1, T), Vs("astr", "on", F)>>>>,
           <<"until", Until \o UntilSubQ>>,
           <<"duration", Durn>>>>
    [] ctor = "set_zone_mode" ->
         <<<<"zone_idx", IF Deep THEN ZoneFew \o <<ZS(11), ZS(15), ZI(7), Vs("zHW", "HW", F), Vs("z10", "10", F)>> ELSE ZoneFew>>,
           <<"mode", ModeArg>>,
           <<"setpoint", <<Vr("t2150", 2150, T), Vn("tnone", T), Lsb(Vr("t502", 502, T)), Vi("ti20", 20, T), Vr("twrap", 40000, F), Vs("tstr", "21.5", F)>>>>,
           <<"until", Until \o UntilSubQ>>,
           <<"duration", Durn>>>>
    [] ctor = "set_zone_setpoint" -> <<<<"zone_idx", IF Deep THEN ZoneFew ELSE ZoneCls>>, <<"setpoint", Setpoint \o <<Vn("tnone", F)>> \o TempOut \o Grid(500, 3500)>>>>
    [] ctor = "set_system_mode" -> <<<<"system_mode", SysModeArg>>, <<"until", Until \o UntilSubQ \o UntilCal \o UntilSubD>>>>
    [] ctor = "set_system_time" ->
         <<<<"datetime", <<Vd("tleap", "2024-02-29T23:59:59", T), Vd("tdst", "2023-03-26T02:30:15", T), Vd("tyend", "2021-12-31T23:59:00", T),
                           Vd("t2000", "2000-01-01T00:00:00", T), Vs("tstr", "2024-02-29T23:59:59", T), Vn("tnone", F)>>
                         \o (IF Deep THEN <<Vd("tnoleap", "2025-02-28T23:59:59", T), Vd("tdstend", "2023-10-29T02:59:59", T), Vd("t2099", "2099-12-31T23:59:59", T),
                                             Vd("tmid", "2024-06-15T12:00:01", T), Vd("t1999", "1999-12-31T23:59:59", F)>> ELSE <<>>)
                         \o TimeSub \o TimeCal>>,
           <<"is_dst", <<Va, Vb("bF", 0, T), Vb("bT", 1, T)>>>>>>
    [] ctor = "put_sensor_temp"  -> <<<<"temperature", SensorT \o Grid(-1000, 4000)>>>>
    [] ctor = "put_dhw_temp"     -> <<<<"temperature", SensorT \o Grid(0, 9999)>>>>
    [] ctor = "put_outdoor_temp" -> <<<<"temperature", SensorT \o Grid(-3000, 5000)>>>>
    [] ctor = "put_weather_temp" -> <<<<"temperature", SensorT>>>>
    [] ctor = "put_co2_level" -> <<<<"co2_level", <<Vi("c790", 790, T), Vi("c0", 0, T), Vi("c5000", 5000, T), Vn("cnone", T), Vi("cneg", -1, F), Vi("cbig", 65536, F)>>>>>>
    [] ctor = "put_indoor_humidity" -> <<<<"indoor_humidity", <<Vr("h55", 55, T), Vr("h0", 0, T), Vr("h100", 100, T), Lsb(Vr("h29", 29, T)), Vn("hnone", T)>> \o Grid(0, 100) \o << Vr("h101", 101, F), Vr("hneg", -1, F)>>>>>>
    [] ctor = "put_presence_detected" -> <<<<"presence_detected", <<Vb("bF", 0, T), Vb("bT", 1, T), Vn("bnone", T), Vi("bi1", 1, F)>>>>>>
    [] ctor = "put_actuator_state" -> <<<<"modulation_level", <<Vr("m100", 100, T), Vr("m0", 0, T), Vn("mnone", T), Vr("m50", 50, F), Vr("m29", 29, F), Vr("m101", 101, F)>>>>>>
    [] ctor = "put_actuator_cycle" ->
         <<<<"modulation_level", <<Vr("m100", 100, T), Vr("m0", 0, T), Vr("m50", 50, F), Vn("mnone", F), Vr("m101", 101, F)>>>>,
           <<"actuator_countdown", <<Vi("a10", 10, T), Vi("a0", 0, T), Vi("a7199", 7199, T), Vi("a40000", 40000, F), Vi("aneg", -1, F)>>>>,
           <<"cycle_countdown", <<Va, Vn("cnone", T), Vi("c20", 20, T), Vi("c7199", 7199, T), Vi("c7200", 7200, F), Vi("c65536", 65536, F)>>>>>>
    [] ctor = "put_bind" ->
         <<<<"verb", <<Vs("vI", " I", T), Vs("vW", " W", T), Vs("vRQ", "RQ", F), Vs("vRP", "RP", F)>>>>,
           <<"dstrel", <<Vs("rnone", "none", T), Vs("rself", "self", T), Vs("rall", "all", T), Vs("rother", "other", T)>>>>,
           <<"codes", <<Vl("c1", <<"30C9">>, T), Vl("c2", <<"30C9", "0008">>, T), Vs("cstr", "2309", T), Gp(Vn("cnone", T), "nocodes"), Gp(Vl("cempty", <<>>, T), "nocodes"),
                        Vl("cfc9", <<"1FC9">>, T), Vl("cmix", <<"10E0", "22F1", "1FC9">>, T), Vl("cbad", <<"ZZ">>, F)>>
                      \o CodesIn>>,
           <<"idx", <<Va, Vs("i00", "00", T), Vs("i01", "01", T), Vs("i21", "21", T)>>>>,
           <<"oem_code", <<Va, Vs("o6C", "6C", T)>>>>>>
    [] ctor = "set_fan_mode" ->
         <<<<"fan_mode", FanModeArg>>,
           <<"src", <<Vb("src1", 1, T), Vb("src0", 0, T)>>>>,
           <<"seqn", <<Va>> \o GpAll(<<Vi("q5", 5, T), Vs("qs", "018", T)>>, "seqn") \o <<Vi("q0", 0, T), Gp(Vi("q256", 256, F), "seqn")>>>>,
           <<"idx", <<Va, Vs("i63", "63", T), Vs("i01", "01", F)>>>>>>
    [] ctor = "set_fan_param" ->
         <<<<"param_id", <<Vs("p3F", "3F", T), Vs("p75", "75", T), Vs("pZZ", "ZZ", F), Vs("p00", "00", F)>>>>,
           <<"value", <<Vi("v5", 5, T), Vi("v0", 0, T), Vi("vmax", 2147483647, F), Vs("vstr", "05", F), Vi("vneg", -1, F)>>>>>>
    [] ctor = "set_bypass_position" ->
         <<<<"bypass_position", <<Va, Vn("pnone", T), Vr("p0", 0, T), Vr("p100", 100, T), Gp(Vr("p50", 50, T), "frac"), Gp(Vr("p29", 29, T), "frac"), Gp(Vr("p101", 101, F), "frac"), Vr("pneg", -50, F)>>>>,
           <<"bypass_mode", <<Va, Vs("mauto", "auto", T), Vs("moff", "off", T), Vs("mon", "on", T), Vs("mbad", "open", F)>>>>,
           <<"src", <<Vb("src1", 1, T), Vb("src0", 0, T)>>>>>>
    [] OTHER -> <<>>

(* all calls of a constructor: the product of its slots' classes *)
Bind(name, v, i) == [slot |-> name, tag |-> v.tag, t |-> v.t, k |-> v.k, s |-> v.s, l |-> v.l, dom |-> v.dom, grp |-> v.grp, ord |-> i]
RECURSIVE Prod(_)
Prod(sl) == IF sl = <<>> THEN {<<>>}
            ELSE LET name == sl[1][1]
                     cls  == sl[1][2] IN
                 {<<Bind(name, cls[i], i)>> \o rest : i \in 1..Len(cls), rest \in Prod(Tail(sl))}

(* a covering set for one slot where the full product would be too large: the classes `more` of slot `name` are
   added to its own, every other slot keeps its first class (the plain default) only *)
Narrow(sl, name, more) == [j \in 1..Len(sl) |-> IF sl[j][1] = name THEN <<name, sl[j][2] \o more>> ELSE <<sl[j][1], <<sl[j][2][1]>>>>]
MoreSlots(ctor) ==
  CASE ctor \in {"set_zone_mode", "set_dhw_mode"} -> {Narrow(Slots(ctor), "until", UntilCal \o UntilSubD)}
    [] OTHER -> {}

VARIABLES ctor, args
vars == <<ctor, args>>
Init == ctor \in Ctors /\ args \in Prod(Slots(ctor)) \cup UNION {Prod(sl) : sl \in MoreSlots(ctor)}
Next == UNCHANGED vars
Spec == Init /\ [][Next]_vars

(* a one-state instance that prints the transcribed API map (compared with CODE_API_MAP: drift only) *)
InitMap == ctor = "" /\ args = <<>> /\ \A k \in DOMAIN ApiMap : PrintT(<<"APIMAP", k, ApiMap[k]>>)
SpecMap == InitMap /\ [][Next]_vars

----------------------------------------------------------------------------------------------
(* what TLC checks on the tables themselves *)
TypeOK == /\ ctor \in Ctors
          /\ \A i \in 1..Len(args) : args[i].t \in {"none", "int", "num", "str", "bool"} \cup DtmKinds \cup SeqKinds
          \* a datetime finer than the wire lies strictly between two wire instants of its slot's resolution
          /\ \A i \in 1..Len(args) : (args[i].t \in DtmKinds /\ args[i].k # 0) =>
                  /\ args[i].k > 0 /\ args[i].k < DtmUnit(ctor, args[i].slot)
                  /\ Len(args[i].l) = 1 /\ args[i].l[1] # args[i].s
          /\ \A i \in 1..Len(args) : (args[i].t = "set") => Len(args[i].l) <= 1        \* a set has no order
(* every constructor of the map is enumerated, under a key that maps back to it *)
KeyConsistent == ApiKeyOf(ctor, args) \in DOMAIN ApiMap /\ ApiMap[ApiKeyOf(ctor, args)] = ctor
(* the mode tables are total and agree with each other: a normalised mode is a known mode *)
ModeTotal == ctor \in {"set_zone_mode", "set_dhw_mode"} =>
               LET m == IF ctor = "set_zone_mode" THEN ZoneMode(args) ELSE DhwMode(args) IN m \in ModeCodes \cup {"Refuse"}
(* no call is both inside the documented domain and refused by a table (InDomain is what d demands) *)
DomainConsistent == InDomain(ctor, args) => TableOK(ctor, args)
(* a documented temporary/countdown override is expressible: the tables are not vacuous *)
WantsKeysUnique == \A w1, w2 \in Wants(ctor, args) : (w1.key = w2.key) => (w1 = w2)
(* slot names are unique and every default (first class) call of every constructor is documented *)
SlotsUnique == \A i, j \in 1..Len(args) : (args[i].slot = args[j].slot) => (i = j)
====

\* file/dict replay, fixed code: every shape of <= C01_MAXLINES lines with <= C01_MAXBAD non-valid ones
SPECIFICATION Spec
CONSTANTS
  Mode = "file"
  Escaping = FALSE
  Streams <- NoStreams
  MaxZero <- MaxZeroDef
  FileShapes <- AllShapes
INVARIANT ReplayEndsClean
INVARIANT ReplayDeliversAll
INVARIANT ReplayProgress

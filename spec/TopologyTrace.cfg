SPECIFICATION Spec
INVARIANT Verdict

\* Instance C: two zones, fewer options per zone, replies may overtake each other (EtherCap 2)
CONSTANTS
  ZoneIds <- MCZones
  Configs <- MCConfigs
  TcsTable <- TabZones2
  MCZones = {"00", "01"}
  MCClasses = {"08", "11"}
  MCMaxActs = 1
  MCSensors = {"thm", "ctl"}
  MCDhw <- NoDhw
  MCApps = {"none"}
  MaxLoss = 1
  MaxRound = 2
  EtherCap = 2
  IterSafe = FALSE
SPECIFICATION Spec
INVARIANT TypeOK
INVARIANT Sound
INVARIANT RecoveryModuloDead
PROPERTY Monotone

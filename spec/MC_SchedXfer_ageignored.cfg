SPECIFICATION SpecAgeIgnored
CONSTANTS
  Zones = {1, 2}
  FixLock = FALSE
  FixAck = FALSE
  FixStale = FALSE
  ZlibDetects = TRUE
  MaxMain = 2
  MaxFaults = 0
  MaxBumps = 1
  MaxHeard = 0
  MaxAge = 1
  AllowSet = FALSE
  HeardStale = FALSE
  HeardAcks = FALSE
CONSTRAINT Bound
INVARIANT ResultAsOfRead
CHECK_DEADLOCK TRUE
VIEW View

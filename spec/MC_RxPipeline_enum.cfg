\* enumeration instance (no VIEW: the history variable `cuts` distinguishes behaviours); used with
\* -dump (all partitions of every token stream) and -simulate (long random behaviours)
SPECIFICATION Spec
CONSTANTS
  Mode = "port"
  Escaping = FALSE
  Streams <- TokStreams
  MaxZero <- MaxZeroDef
  FileShapes <- NoShapes
INVARIANT SplitInv
INVARIANT PartitionIndependent

--------------------------- MODULE DiscoveryTrace ---------------------------
(* C12 - batch judge for recorded discovery runs of the real Gateway (harness/ext_c12.py).

   One item = one run:
     cfg        the scripted controller's configuration                       (schema K, see below)
     samples    <<[t |-> seconds, k |-> K], ...>>  gwy.schema projected at quiescent sample points
     lossTimes  <<seconds, ...>>   virtual times at which the ether lost a 0005/000C exchange
     interval   polling interval of the 0005/000C entries, read from the running gateway (seconds)
     slack      J9: five minutes
   K = [zones |-> <<[z, cls, sen, acts |-> <<ids>>], ...>>, dhw |-> [sen, hwv, htv], app |-> id]

   Clauses (DESIGN App. A):
     c_sound     every sample [= cfg                     "nothing ... the controller did not say"
     c_monotone  sample(i-1) [= sample(i)                "nothing that was learned is lost"
     ab_complete every sample at or after  max(lossTimes, 0) + interval + slack  equals cfg
                                                         "arrives at a schema that equals ...",
                                                         "filled in at a later polling round" (J9)
                 (a run may be stopped early once its schema equals cfg and no scripted loss is
                  pending; a run that is neither complete nor sampled after the deadline is a
                  harness error, not a verdict)
   The verdict is total: fail = <<sample index, clause, field>> of the first failure. *)
EXTENDS DiscoveryOrder, Json, IOUtils

Traces == JsonDeserialize(IOEnv.TRACE_FILE)

RangeOf(s) == {s[i] : i \in 1..Len(s)}

Norm(K) ==
  [zones |-> [z \in {K.zones[i].z : i \in 1..Len(K.zones)} |->
                LET r == K.zones[CHOOSE i \in 1..Len(K.zones) : K.zones[i].z = z] IN
                [cls |-> r.cls, sen |-> r.sen, acts |-> RangeOf(r.acts)]],
   dhw |-> [sen |-> K.dhw.sen, hwv |-> K.dhw.hwv, htv |-> K.dhw.htv],
   app |-> K.app]

MaxOf(S) == CHOOSE x \in S : \A y \in S : y <= x
Deadline(T) == MaxOf(RangeOf(T.lossTimes) \cup {0}) + T.interval + T.slack

VARIABLES tid, i, prev, fail
vars == <<tid, i, prev, fail>>

Init == tid \in 1..Len(Traces) /\ i = 1 /\ prev = EmptyKnown /\ fail = <<>>

Step ==
  /\ i <= Len(Traces[tid].samples)
  /\ LET T == Traces[tid]
         c == Norm(T.cfg)
         s == T.samples[i]
         k == Norm(s.k)
         f == IF /\ i = 1
                    /\ ~(\E j \in 1..Len(T.samples) : T.samples[j].t >= Deadline(T))
                    /\ Norm(T.samples[Len(T.samples)].k) # c
                THEN <<0, "harness_no_sample_after_deadline", "">>   \* the run was cut too short
              ELSE IF ~Leq(k, c) THEN <<i, "c_sound", LeqWhy(k, c)>>
              ELSE IF ~Leq(prev, k) THEN <<i, "c_monotone", LeqWhy(prev, k)>>
              ELSE IF s.t >= Deadline(T) /\ k # c THEN <<i, "ab_complete", LeqWhy(c, k)>>
              ELSE <<>>
     IN /\ fail' = IF fail = <<>> THEN f ELSE fail
        /\ prev' = k
  /\ i' = i + 1 /\ UNCHANGED tid

Spec == Init /\ [][Step]_vars
Verdict == (i > Len(Traces[tid].samples)) => PrintT(<<"VERDICT", tid, fail>>)
=============================================================================

---- MODULE MC_QosPort ----
EXTENDS QosPort
====

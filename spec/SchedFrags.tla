------------------------------ MODULE SchedFrags ------------------------------
(* C17 (reassembly half) - Schedule._update_payload_set / _proc_payload_set / _handle_msg
   (src/ramses_rf/system/schedule.py), line by line, including the module-level default
   payload set EMPTY_PAYLOAD_SET = [None] that every Schedule object starts with (one shared
   list object, mutated in place when a one-fragment schedule arrives) and the *value*
   comparison `payload_set == EMPTY_PAYLOAD_SET`.

   A version v is one schedule of one zone, cut into NF[v] fragments <<v, k>>.  The environment
   delivers reply packets (fragments of any version of the zone, in any order, repeated) and
   "this zone has no schedule" replies.

   _update_payload_set has two callers: _handle_msg (a reply packet that is overheard: Receive)
   and the loop of _get_schedule, which asks the controller for the first fragment the set lacks
   until a schedule has been assembled (Fetch: the library itself collects the reply packets).

   Stated assumption (DESIGN 4/C17): the compressed stream decodes only if the set holds all
   the fragments of one version in their places (zlib's checksum) - Pure(ps).  The real runs
   test it with real packets.  No bounds in here.                                        *)
EXTENDS Naturals, Sequences, FiniteSets, TLC

CONSTANTS Zones,      \* zone ids
          Vers,       \* version ids (strings)
          NF,         \* [Vers -> 1..]   number of fragments of a version
          ZoneOf,     \* [Vers -> Zones]
          OwnDefault, \* BOOLEAN: TRUE = every Schedule starts with (and "no schedule" assigns) a list of its own
                      \* (the repair, /repo fix); FALSE = the one module-level list shared by all (pinned commit)
          NoSchedOn,  \* BOOLEAN: deliver "no schedule" replies (the repository's decoder rejects the
                      \* 7-byte RP 0404 ...01FF frame, so no packet can reach that branch: FALSE in MC)
          FetchOn     \* BOOLEAN: the environment also calls get_schedule() (Fetch)

VARIABLES shared,     \* contents of the module-level EMPTY_PAYLOAD_SET list
          ref,        \* [Zones -> {"shared", "own"}]  what Schedule._payload_set refers to
          own,        \* [Zones -> Seq(slot)]          the zone's own list (when ref = "own")
          full,       \* [Zones -> "unset" | "none" | version]   Schedule._full_schedule
          got,        \* [Zones -> SUBSET fragment]    fragments ever delivered to the zone
          nev,        \* events so far (bounded in MC_*)
          h           \* one-step history (pre-state, event, how the call ended) for -dump
vars == <<shared, ref, own, full, got, nev, h>>

NoFrag  == <<"-", 0>>                                   \* the None slot
FragsOf(v) == {<<v, k>> : k \in 1..NF[v]}
Frags   == UNION {FragsOf(v) : v \in Vers}
InitSet(f) == [i \in 1..NF[f[1]] |-> IF i = f[2] THEN f ELSE NoFrag]      \* init_payload_set
\* fragz_to_full_sched succeeds (no zlib.error) iff ...
Pure(ps) == \E v \in Vers : Len(ps) = NF[v] /\ \A i \in 1..Len(ps) : ps[i] = <<v, i>>
Pre == [shared |-> shared, ref |-> ref, own |-> own, full |-> full, got |-> got, nev |-> nev]

\* the part of the state the code writes, as one record (so that a call can be composed of several updates)
St == [shared |-> shared, ref |-> ref, own |-> own, full |-> full]
CurOf(s, z) == IF s.ref[z] = "shared" THEN s.shared ELSE s.own[z]
Cur(z)  == CurOf(St, z)
Holes(ps) == {i \in 1..Len(ps) : ps[i] = NoFrag}

Init == /\ shared = <<NoFrag>>
        /\ ref = [z \in Zones |-> IF OwnDefault THEN "own" ELSE "shared"]
        /\ own = [z \in Zones |-> IF OwnDefault THEN <<NoFrag>> ELSE <<>>]
        /\ full = [z \in Zones |-> "unset"] /\ got = [z \in Zones |-> {}] /\ nev = 0
        /\ h = [pre |-> <<>>, ev |-> <<"init", "-", "-", 0>>, exc |-> ""]

(* self._payload_set = self._update_payload_set(self._payload_set, payload), payload = fragment f *)
Upd(s, z, f) ==
  LET cur == CurOf(s, z) IN
  IF NF[f[1]] # Len(cur)                                   \* "sched has changed": start a new set (not processed)
  THEN [s EXCEPT !.ref[z] = "own", !.own[z] = InitSet(f)]
  ELSE LET cur2 == [cur EXCEPT ![f[2]] = f]                \* payload_set[n-1] = payload  (IN PLACE)
           sh2  == IF s.ref[z] = "shared" THEN cur2 ELSE s.shared
           own2 == IF s.ref[z] = "own" THEN [s.own EXCEPT ![z] = cur2] ELSE s.own
           s2   == [s EXCEPT !.shared = sh2, !.own = own2]
       IN IF Holes(cur2) # {}                              \* None in payload_set
          THEN s2
          ELSE IF cur2 = sh2                               \* payload_set == EMPTY_PAYLOAD_SET (by value; with
                                                           \* OwnDefault the constant is never written: sh2 = <<NoFrag>>)
          THEN [s2 EXCEPT !.full[z] = "none"]
          ELSE IF Pure(cur2)                               \* decompresses: the schedule is set
          THEN [s2 EXCEPT !.full[z] = f[1]]
          ELSE [s2 EXCEPT !.ref[z] = "own", !.own[z] = InitSet(f)]      \* zlib.error: restart with this one

Set(s) == /\ shared' = s.shared /\ ref' = s.ref /\ own' = s.own /\ full' = s.full

(* _handle_msg(RP 0404 with a fragment)  ->  _update_payload_set(self._payload_set, payload) *)
Receive(z, f) ==
  /\ ZoneOf[f[1]] = z
  /\ got' = [got EXCEPT ![z] = @ \cup {f}]
  /\ nev' = nev + 1 /\ h' = [pre |-> Pre, ev |-> <<"frag", z, f[1], f[2]>>, exc |-> ""]
  /\ Set(Upd(St, z, f))

(* RP 0404 ... 01FF "zone has no schedule": payload_set = EMPTY_PAYLOAD_SET; _proc_payload_set *)
NoSched(z) ==
  /\ NoSchedOn
  /\ ref' = [ref EXCEPT ![z] = IF OwnDefault THEN "own" ELSE "shared"] /\ full' = [full EXCEPT ![z] = "none"]
  /\ own' = IF OwnDefault THEN [own EXCEPT ![z] = <<NoFrag>>] ELSE own
  /\ nev' = nev + 1 /\ h' = [pre |-> Pre, ev |-> <<"nosched", z, "-", 0>>, exc |-> ""]
  /\ UNCHANGED <<shared, got>>

(* get_schedule(force_io=True) on zone z whilst the controller holds version v and its change counter has gone up
   since the zone's last fetch (this or another zone's schedule was edited: "keep frags, maybe only other scheds have
   changed"); nobody else holds the schedule lock, every exchange succeeds, nothing is overheard meanwhile (all that
   is C18's).  _get_schedule:  _full_schedule = {};  _payload_set[0] = None  (in place);
       while frag_num := next(i for i, f in enumerate(_payload_set, 1) if f is None):      \* no slot is None:
           _payload_set = _update_payload_set(_payload_set, RP for <<v, frag_num>>)        \* StopIteration -> RuntimeError
           if _full_schedule: break
   Result: [s: the state afterwards, exc: "" | "StopIteration" | "BadRequest" | "NoEnd", del: fragments delivered]. *)
ResetFirst(s, z) ==
  LET cur2 == [CurOf(s, z) EXCEPT ![1] = NoFrag]
  IN [s EXCEPT !.full[z] = "unset",
               !.shared = IF s.ref[z] = "shared" THEN cur2 ELSE @,
               !.own[z] = IF s.ref[z] = "own" THEN cur2 ELSE @]
RECURSIVE FetchLoop(_, _, _, _)
FetchLoop(s, z, v, fuel) ==
  LET holes == Holes(CurOf(s, z)) IN
  IF holes = {} THEN [s |-> s, exc |-> "StopIteration", del |-> {}]
  ELSE LET k == CHOOSE i \in holes : \A j \in holes : i <= j IN
       IF k > NF[v] THEN [s |-> s, exc |-> "BadRequest", del |-> {}]       \* the controller has no such fragment
       ELSE IF fuel = 0 THEN [s |-> s, exc |-> "NoEnd", del |-> {}]        \* ("TODO: potential for infinite loop?")
       ELSE LET s2 == Upd(s, z, <<v, k>>) IN
            IF s2.full[z] # "unset" THEN [s |-> s2, exc |-> "", del |-> {<<v, k>>}]
            ELSE LET r == FetchLoop(s2, z, v, fuel - 1) IN [r EXCEPT !.del = @ \cup {<<v, k>>}]
FetchResult(s, z, v) == FetchLoop(ResetFirst(s, z), z, v, 3 * NF[v] + 3)

Fetch(z, v) ==
  /\ FetchOn /\ ZoneOf[v] = z
  /\ LET r == FetchResult(St, z, v) IN
     /\ Set(r.s)
     /\ got' = [got EXCEPT ![z] = @ \cup r.del]
     /\ h' = [pre |-> Pre, ev |-> <<"fetch", z, v, 0>>, exc |-> r.exc]
  /\ nev' = nev + 1

Next == \/ \E z \in Zones, f \in Frags : Receive(z, f)
        \/ \E z \in Zones : NoSched(z)
        \/ \E z \in Zones, v \in Vers : Fetch(z, v)
Spec == Init /\ [][Next]_vars

-----------------------------------------------------------------------------
(* Clause d (DESIGN App. A, C17): "received in any order and with repeats, gives the same
   schedule or no schedule - never a different one".  Over the variables only.              *)
AssembledV(x, z, g) == x \in {"unset", "none"}
                       \/ (x \in Vers /\ ZoneOf[x] = z /\ FragsOf(x) \subseteq g)
SameOrNone == \A z \in Zones : AssembledV(full[z], z, got[z])

(* ... and when the library collects the reply packets itself, "the same schedule or no schedule" is what the call
   returns - not an exception.  Scope = the statement's quantifier: the reply packets of ONE schedule (any order,
   repeats, overheard or fetched): everything the zone has been given so far belongs to the version the controller
   holds.  A fetch after the controller's schedule has been replaced is C18's ("the schedule being changed on the
   controller", where "an error" is an allowed end): e.g. a set of another length + a one-fragment version gives a
   complete set that init_payload_set never processes, next() finds no None, RuntimeError - once, the next call works. *)
InScope(z, v, g) == ZoneOf[v] = z /\ g \subseteq FragsOf(v)
FetchClean == (h.ev[1] = "fetch" /\ InScope(h.ev[2], h.ev[3], h.pre.got[h.ev[2]])) => h.exc = ""
\* (with the default list shared - the pinned commit - a one-fragment set equals EMPTY_PAYLOAD_SET: "none")
FetchSame  == (OwnDefault /\ h.ev[1] = "fetch" /\ InScope(h.ev[2], h.ev[3], h.pre.got[h.ev[2]])) => full[h.ev[2]] = h.ev[3]

(* With a default list per Schedule (OwnDefault) the module-level constant is never written (the shared list was
   written in place by one-fragment schedules, after which every Schedule's "empty" set held that fragment and the
   zone itself reported "no schedule").  Note that a complete set is still not always *reported* at once: a
   fragment that changes the set's length re-initialises the set without processing it (TLC: [E1,-] + D1 1/1 gives
   the complete set [D1] with nothing reported) - allowed by clause d ("the same schedule or no schedule"). *)
DefaultUntouched == OwnDefault => shared = <<NoFrag>>
=============================================================================

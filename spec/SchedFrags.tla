------------------------------ MODULE SchedFrags ------------------------------
(* C17 (reassembly half) - Schedule._update_payload_set / _proc_payload_set / _handle_msg
   (src/ramses_rf/system/schedule.py), line by line, including the module-level default
   payload set EMPTY_PAYLOAD_SET = [None] that every Schedule object starts with (one shared
   list object, mutated in place when a one-fragment schedule arrives) and the *value*
   comparison `payload_set == EMPTY_PAYLOAD_SET`.

   A version v is one schedule of one zone, cut into NF[v] fragments <<v, k>>.  The environment
   delivers reply packets (fragments of any version of the zone, in any order, repeated) and
   "this zone has no schedule" replies.

   Stated assumption (DESIGN 4/C17): the compressed stream decodes only if the set holds all
   the fragments of one version in their places (zlib's checksum) - Pure(ps).  The real runs
   test it with real packets.  No bounds in here.                                        *)
EXTENDS Naturals, Sequences, FiniteSets, TLC

CONSTANTS Zones,      \* zone ids
          Vers,       \* version ids (strings)
          NF,         \* [Vers -> 1..]   number of fragments of a version
          ZoneOf,     \* [Vers -> Zones]
          OwnDefault, \* BOOLEAN: TRUE = every Schedule starts with (and "no schedule" assigns) a list of its own
                      \* (the repair, /repo fix); FALSE = the one module-level list shared by all (pinned commit)
          NoSchedOn   \* BOOLEAN: deliver "no schedule" replies (the repository's decoder rejects the
                      \* 7-byte RP 0404 ...01FF frame, so no packet can reach that branch: FALSE in MC)

VARIABLES shared,     \* contents of the module-level EMPTY_PAYLOAD_SET list
          ref,        \* [Zones -> {"shared", "own"}]  what Schedule._payload_set refers to
          own,        \* [Zones -> Seq(slot)]          the zone's own list (when ref = "own")
          full,       \* [Zones -> "unset" | "none" | version]   Schedule._full_schedule
          got,        \* [Zones -> SUBSET fragment]    fragments ever delivered to the zone
          nev,        \* events so far (bounded in MC_*)
          h           \* one-step history (pre-state, event) for -dump
vars == <<shared, ref, own, full, got, nev, h>>

NoFrag  == <<"-", 0>>                                   \* the None slot
FragsOf(v) == {<<v, k>> : k \in 1..NF[v]}
Frags   == UNION {FragsOf(v) : v \in Vers}
Cur(z)  == IF ref[z] = "shared" THEN shared ELSE own[z]
InitSet(f) == [i \in 1..NF[f[1]] |-> IF i = f[2] THEN f ELSE NoFrag]      \* init_payload_set
\* fragz_to_full_sched succeeds (no zlib.error) iff ...
Pure(ps) == \E v \in Vers : Len(ps) = NF[v] /\ \A i \in 1..Len(ps) : ps[i] = <<v, i>>
Pre == [shared |-> shared, ref |-> ref, own |-> own, full |-> full, got |-> got, nev |-> nev]

Init == /\ shared = <<NoFrag>>
        /\ ref = [z \in Zones |-> IF OwnDefault THEN "own" ELSE "shared"]
        /\ own = [z \in Zones |-> IF OwnDefault THEN <<NoFrag>> ELSE <<>>]
        /\ full = [z \in Zones |-> "unset"] /\ got = [z \in Zones |-> {}] /\ nev = 0
        /\ h = [pre |-> <<>>, ev |-> <<"init", "-", "-", 0>>]

(* _handle_msg(RP 0404 with a fragment)  ->  _update_payload_set(self._payload_set, payload) *)
Receive(z, f) ==
  /\ ZoneOf[f[1]] = z
  /\ got' = [got EXCEPT ![z] = @ \cup {f}]
  /\ nev' = nev + 1 /\ h' = [pre |-> Pre, ev |-> <<"frag", z, f[1], f[2]>>]
  /\ LET cur == Cur(z) IN
     IF NF[f[1]] # Len(cur)                                   \* "sched has changed": start a new set
     THEN /\ ref' = [ref EXCEPT ![z] = "own"] /\ own' = [own EXCEPT ![z] = InitSet(f)]
          /\ UNCHANGED <<shared, full>>
     ELSE LET cur2 == [cur EXCEPT ![f[2]] = f]                \* payload_set[n-1] = payload  (IN PLACE)
              sh2  == IF ref[z] = "shared" THEN cur2 ELSE shared
              own2 == IF ref[z] = "own" THEN [own EXCEPT ![z] = cur2] ELSE own
          IN IF \E i \in 1..Len(cur2) : cur2[i] = NoFrag      \* None in payload_set
             THEN /\ shared' = sh2 /\ own' = own2 /\ UNCHANGED <<ref, full>>
             ELSE IF cur2 = sh2                               \* payload_set == EMPTY_PAYLOAD_SET (by value; with
                                                              \* OwnDefault the constant is never written: sh2 = <<NoFrag>>)
             THEN /\ shared' = sh2 /\ own' = own2 /\ full' = [full EXCEPT ![z] = "none"] /\ UNCHANGED ref
             ELSE IF Pure(cur2)                               \* decompresses: the schedule is set
             THEN /\ shared' = sh2 /\ own' = own2 /\ full' = [full EXCEPT ![z] = f[1]] /\ UNCHANGED ref
             ELSE /\ shared' = sh2 /\ ref' = [ref EXCEPT ![z] = "own"]     \* zlib.error: restart with this one
                  /\ own' = [own2 EXCEPT ![z] = InitSet(f)] /\ UNCHANGED full

(* RP 0404 ... 01FF "zone has no schedule": payload_set = EMPTY_PAYLOAD_SET; _proc_payload_set *)
NoSched(z) ==
  /\ NoSchedOn
  /\ ref' = [ref EXCEPT ![z] = IF OwnDefault THEN "own" ELSE "shared"] /\ full' = [full EXCEPT ![z] = "none"]
  /\ own' = IF OwnDefault THEN [own EXCEPT ![z] = <<NoFrag>>] ELSE own
  /\ nev' = nev + 1 /\ h' = [pre |-> Pre, ev |-> <<"nosched", z, "-", 0>>]
  /\ UNCHANGED <<shared, got>>

Next == \/ \E z \in Zones, f \in Frags : Receive(z, f)
        \/ \E z \in Zones : NoSched(z)
Spec == Init /\ [][Next]_vars

-----------------------------------------------------------------------------
(* Clause d (DESIGN App. A, C17): "received in any order and with repeats, gives the same
   schedule or no schedule - never a different one".  Over the variables only.              *)
AssembledV(x, z, g) == x \in {"unset", "none"}
                       \/ (x \in Vers /\ ZoneOf[x] = z /\ FragsOf(x) \subseteq g)
SameOrNone == \A z \in Zones : AssembledV(full[z], z, got[z])

(* With a default list per Schedule (OwnDefault) the module-level constant is never written (the shared list was
   written in place by one-fragment schedules, after which every Schedule's "empty" set held that fragment and the
   zone itself reported "no schedule").  Note that a complete set is still not always *reported* at once: a
   fragment that changes the set's length re-initialises the set without processing it (TLC: [E1,-] + D1 1/1 gives
   the complete set [D1] with nothing reported) - allowed by clause d ("the same schedule or no schedule"). *)
DefaultUntouched == OwnDefault => shared = <<NoFrag>>
=============================================================================

---------------------------- MODULE PktLog ----------------------------
(***************************************************************************)
(* C02 clause b - the packet log as text.                                  *)
(*                                                                         *)
(* Write side (Packet._validate -> PKT_LOGGER -> logger._Logger.makeRecord *)
(* + PKT_LOG_FMT):   line = dtm " " rssi " " frame [" < " hint]            *)
(*                          [" * " error] [" # " comment]                  *)
(* (the evofw3 annotations cannot themselves contain an earlier separator: *)
(* they are what _partition cut out of the received line)                  *)
(* Read side (FileTransport._reader: line[:26], line[27:];                 *)
(* Packet.from_file -> _partition at the first '#', then '*', then '<';    *)
(* Packet.__init__: rssi = text[0:3], frame = text[4:]).                   *)
(*                                                                         *)
(* An offered packet line p = [dtm, rssi, frame, err, comment] (dtm is the *)
(* 26-character ISO text with microseconds; err/comment are the stripped   *)
(* evofw3 annotations, "" = none).  It is accepted iff it carries no error *)
(* annotation and its frame is structurally valid (FrameGrammar).          *)
(***************************************************************************)
EXTENDS Integers, Sequences, FiniteSets, TLC

CONSTANT FixCleanup     \* TRUE: set_pkt_logging removes every old handler (since e6ce7db); FALSE: every other one (before)

Impl == {}
FG == INSTANCE FrameGrammar

Ch(s, i) == SubSeq(s, i, i)
\* total sub-string (a log line written by a changed formatter may be shorter than any column this module looks at)
Sub(s, a, b) == LET e == IF b > Len(s) THEN Len(s) ELSE b IN IF a > e THEN "" ELSE SubSeq(s, a, e)
FrameOK(t) == Len(t) >= 48 /\ FG!Valid(FG!ParseCols(t)) /\ FG!PrintFrame(FG!ParseCols(t)) = t

Accepted(p) == p.err = "" /\ FrameOK(p.frame)

\* ---- write -------------------------------------------------------------------------------------
\* A line is written for every offered packet whose frame passes Frame.__init__ (a structurally invalid
\* frame raises before anything is logged); one that carries an error annotation is logged as a warning,
\* with the error text repeated as the "<" hint (PacketInvalid(error_text)), and is not delivered.
Logged(p) == FrameOK(p.frame)
Line(p) ==
  p.dtm \o " " \o p.rssi \o " " \o p.frame
  \o (IF p.err # "" THEN " < " \o p.err \o " * " \o p.err ELSE "")
  \o (IF p.comment # "" THEN " # " \o p.comment ELSE "")

\* ---- read --------------------------------------------------------------------------------------
FirstOf(s, c) ==     \* position of the first c in s, 0 if none
  LET P == {i \in 1..Len(s) : Ch(s, i) = c} IN IF P = {} THEN 0 ELSE CHOOSE i \in P : \A j \in P : i <= j
Before(s, c) == IF FirstOf(s, c) = 0 THEN s ELSE SubSeq(s, 1, FirstOf(s, c) - 1)
After(s, c)  == IF FirstOf(s, c) = 0 THEN "" ELSE SubSeq(s, FirstOf(s, c) + 1, Len(s))
RECURSIVE LTrim(_)
LTrim(s) == IF Len(s) > 0 /\ Ch(s, 1) = " " THEN LTrim(SubSeq(s, 2, Len(s))) ELSE s
RECURSIVE RTrim(_)
RTrim(s) == IF Len(s) > 0 /\ Ch(s, Len(s)) = " " THEN RTrim(SubSeq(s, 1, Len(s) - 1)) ELSE s
Trim(s) == RTrim(LTrim(s))

Partition(rest) ==   \* Packet._partition
  LET frag1 == Before(rest, "#")
      frag2 == Before(frag1, "*")
  IN [pkt |-> Trim(Before(frag2, "<")), err |-> Trim(After(frag1, "*")), comment |-> Trim(After(rest, "#"))]

Skipped(line) == Trim(line) = "" \/ Ch(Trim(line), 1) = "#"
ReadLine(line) ==    \* -> <<delivered?, record>>
  LET t   == Trim(line)
      dtm == Sub(t, 1, 26)
      pt  == Partition(Sub(t, 28, Len(t)))
      ok  == ~Skipped(line) /\ pt.err = "" /\ Len(pt.pkt) >= 52 /\ FrameOK(Sub(pt.pkt, 5, Len(pt.pkt)))
  IN  <<ok, [dtm |-> dtm, rssi |-> Sub(pt.pkt, 1, 3), frame |-> Sub(pt.pkt, 5, Len(pt.pkt)), comment |-> pt.comment]>>

\* (SelectSeq + function constructors, not recursion: whole real logs are thousands of lines long)
Replay(lines) ==
  LET rs  == [i \in 1..Len(lines) |-> ReadLine(lines[i])]
      sel == SelectSeq(rs, LAMBDA r : r[1])
  IN  [j \in 1..Len(sel) |-> sel[j][2]]

Proj(p) == [dtm |-> p.dtm, rssi |-> p.rssi, frame |-> p.frame, comment |-> p.comment]
AcceptedOf(ps) == LET sel == SelectSeq(ps, Accepted) IN [j \in 1..Len(sel) |-> Proj(sel[j])]

\* the law (T): what is replayed from the written log is exactly what was accepted, in order
WriteAll(ps) == LET sel == SelectSeq(ps, Logged) IN [j \in 1..Len(sel) |-> Line(sel[j])]
L_LogIdentity(ps) == Replay(WriteAll(ps)) = AcceptedOf(ps)

\* ---- histories: the packet log configured several times in one process (logger.set_pkt_logging) -----
\* A history is a sequence of sessions [file, console, ps]: set_pkt_logging(file_name = file ("" = none),
\* cc_console = (console = 1)) followed by the offered lines ps (a second Gateway object, a reload with
\* another file, ...).  PKT_LOGGER's handler list is a sequence of <<kind, file>>, kind "file" / "null" /
\* "stderr" / "stdout".  The clean-up loop at the top of set_pkt_logging removes the old handlers:
\*   FixCleanup:   for handler in list(logger.handlers): logger.removeHandler(handler)     - all of them
\*   ~FixCleanup:  for handler in logger.handlers: ...  (the code before e6ce7db) removes from the list it
\*                 iterates, so the handlers at the 2nd, 4th, ... place survive it (with cc_console the list is
\*                 [file, stderr, stdout]: two configurations later an old *file* handler is among the survivors)
Survivors(hs) == IF FixCleanup THEN <<>> ELSE [j \in 1..(Len(hs) \div 2) |-> hs[2 * j]]
Configure(hs, file, console) ==
  Survivors(hs)
  \o (IF file # "" THEN << <<"file", file>> >> ELSE IF console = 1 THEN << <<"null", "">> >> ELSE <<>>)
  \o (IF console = 1 THEN << <<"stderr", "">>, <<"stdout", "">> >> ELSE <<>>)
LogOn(file, console) == file # "" \/ console = 1        \* otherwise the level is CRITICAL: nothing is emitted

\* a record goes to every handler in turn and each file handler flushes per record: a file that is held by n
\* handlers gets every line n times in a row
NFile(hs, f) == Cardinality({i \in 1..Len(hs) : hs[i] = <<"file", f>>})
Dup(ls, n) == [k \in 1..(Len(ls) * n) |-> ls[((k - 1) \div n) + 1]]
FilesOf(h) == {h[k].file : k \in 1..Len(h)} \ {""}
RECURSIVE RunHist(_, _, _, _)
RunHist(h, k, hs, files) ==      \* files: file name -> the lines it holds (handlers open with mode 'a')
  IF k > Len(h) THEN files
  ELSE LET s   == h[k]
           hs2 == Configure(hs, s.file, s.console)
           new == IF LogOn(s.file, s.console) THEN WriteAll(s.ps) ELSE <<>>
       IN  RunHist(h, k + 1, hs2, [f \in DOMAIN files |-> files[f] \o Dup(new, NFile(hs2, f))])
HistFiles(h) == RunHist(h, 1, <<>>, [f \in FilesOf(h) |-> <<>>])
RECURSIVE OfferedTo(_, _, _)
OfferedTo(h, k, f) ==            \* what was offered while f was the configured packet log, in order
  IF k > Len(h) THEN <<>> ELSE (IF h[k].file = f THEN h[k].ps ELSE <<>>) \o OfferedTo(h, k + 1, f)

\* the law over histories: every log file replays as exactly what was accepted during its own session(s)
L_HistIdentity(h) == \A f \in FilesOf(h) : Replay(HistFiles(h)[f]) = AcceptedOf(OfferedTo(h, 1, f))
=============================================================================

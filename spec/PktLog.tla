---------------------------- MODULE PktLog ----------------------------
(***************************************************************************)
(* C02 clause b - the packet log as text.                                  *)
(*                                                                         *)
(* Write side (Packet._validate -> PKT_LOGGER -> logger._Logger.makeRecord *)
(* + PKT_LOG_FMT):   line = dtm " " rssi " " frame [" < " hint]            *)
(*                          [" * " error] [" # " comment]                  *)
(* (the evofw3 annotations cannot themselves contain an earlier separator: *)
(* they are what _partition cut out of the received line)                  *)
(* Read side (FileTransport._reader: line[:26], line[27:];                 *)
(* Packet.from_file -> _partition at the first '#', then '*', then '<';    *)
(* Packet.__init__: rssi = text[0:3], frame = text[4:]).                   *)
(*                                                                         *)
(* An offered packet line p = [dtm, rssi, frame, err, comment] (dtm is the *)
(* 26-character ISO text with microseconds; err/comment are the stripped   *)
(* evofw3 annotations, "" = none).  It is accepted iff it carries no error *)
(* annotation and its frame is structurally valid (FrameGrammar).          *)
(***************************************************************************)
EXTENDS Integers, Sequences, FiniteSets, TLC

Impl == {}
FG == INSTANCE FrameGrammar

Ch(s, i) == SubSeq(s, i, i)
\* total sub-string (a log line written by a changed formatter may be shorter than any column this module looks at)
Sub(s, a, b) == LET e == IF b > Len(s) THEN Len(s) ELSE b IN IF a > e THEN "" ELSE SubSeq(s, a, e)
FrameOK(t) == Len(t) >= 48 /\ FG!Valid(FG!ParseCols(t)) /\ FG!PrintFrame(FG!ParseCols(t)) = t

Accepted(p) == p.err = "" /\ FrameOK(p.frame)

\* ---- write -------------------------------------------------------------------------------------
\* A line is written for every offered packet whose frame passes Frame.__init__ (a structurally invalid
\* frame raises before anything is logged); one that carries an error annotation is logged as a warning,
\* with the error text repeated as the "<" hint (PacketInvalid(error_text)), and is not delivered.
Logged(p) == FrameOK(p.frame)
Line(p) ==
  p.dtm \o " " \o p.rssi \o " " \o p.frame
  \o (IF p.err # "" THEN " < " \o p.err \o " * " \o p.err ELSE "")
  \o (IF p.comment # "" THEN " # " \o p.comment ELSE "")

\* ---- read --------------------------------------------------------------------------------------
FirstOf(s, c) ==     \* position of the first c in s, 0 if none
  LET P == {i \in 1..Len(s) : Ch(s, i) = c} IN IF P = {} THEN 0 ELSE CHOOSE i \in P : \A j \in P : i <= j
Before(s, c) == IF FirstOf(s, c) = 0 THEN s ELSE SubSeq(s, 1, FirstOf(s, c) - 1)
After(s, c)  == IF FirstOf(s, c) = 0 THEN "" ELSE SubSeq(s, FirstOf(s, c) + 1, Len(s))
RECURSIVE LTrim(_)
LTrim(s) == IF Len(s) > 0 /\ Ch(s, 1) = " " THEN LTrim(SubSeq(s, 2, Len(s))) ELSE s
RECURSIVE RTrim(_)
RTrim(s) == IF Len(s) > 0 /\ Ch(s, Len(s)) = " " THEN RTrim(SubSeq(s, 1, Len(s) - 1)) ELSE s
Trim(s) == RTrim(LTrim(s))

Partition(rest) ==   \* Packet._partition
  LET frag1 == Before(rest, "#")
      frag2 == Before(frag1, "*")
  IN [pkt |-> Trim(Before(frag2, "<")), err |-> Trim(After(frag1, "*")), comment |-> Trim(After(rest, "#"))]

Skipped(line) == Trim(line) = "" \/ Ch(Trim(line), 1) = "#"
ReadLine(line) ==    \* -> <<delivered?, record>>
  LET t   == Trim(line)
      dtm == Sub(t, 1, 26)
      pt  == Partition(Sub(t, 28, Len(t)))
      ok  == ~Skipped(line) /\ pt.err = "" /\ Len(pt.pkt) >= 52 /\ FrameOK(Sub(pt.pkt, 5, Len(pt.pkt)))
  IN  <<ok, [dtm |-> dtm, rssi |-> Sub(pt.pkt, 1, 3), frame |-> Sub(pt.pkt, 5, Len(pt.pkt)), comment |-> pt.comment]>>

\* (SelectSeq + function constructors, not recursion: whole real logs are thousands of lines long)
Replay(lines) ==
  LET rs  == [i \in 1..Len(lines) |-> ReadLine(lines[i])]
      sel == SelectSeq(rs, LAMBDA r : r[1])
  IN  [j \in 1..Len(sel) |-> sel[j][2]]

Proj(p) == [dtm |-> p.dtm, rssi |-> p.rssi, frame |-> p.frame, comment |-> p.comment]
AcceptedOf(ps) == LET sel == SelectSeq(ps, Accepted) IN [j \in 1..Len(sel) |-> Proj(sel[j])]

\* the law (T): what is replayed from the written log is exactly what was accepted, in order
WriteAll(ps) == LET sel == SelectSeq(ps, Logged) IN [j \in 1..Len(sel) |-> Line(sel[j])]
L_LogIdentity(ps) == Replay(WriteAll(ps)) = AcceptedOf(ps)
=============================================================================

---------------------------- MODULE FaultLogTrace ----------------------------
(* Batch trace validation for C19 (convention: harness/README.md, spec/Toy.tla), forest form:
   the recorded runs of a real ramses_rf FaultLog are merged into a prefix tree (the code is
   deterministic: equal event prefixes give equal observations), one item per tree node:

     [p, d, kids   parent node (0: none), depth, children (node numbers; node 1 is the initial state)
      k, a, b      the abstract event <<k, a, b>> of FaultLog.tla that led to this node
      ts           timestamp the harness put on the wire (0: null entry or nothing sent)
      view         the public `faultlog` view afterwards: <<<<idx, timestamp>>, ...>> in iteration order
      ilog         keys of the private _log (only for the model formula Readable)
      le, lf, af   the other public projections afterwards: timestamp of latest_event / latest_fault (0: None),
                   timestamps of active_faults in the order shown (<<>>: None or empty); -1 / <<>> if reading raised
      exc          "" or "<view>:<ExceptionType>" raised by faultlog/latest_event/latest_fault/
                   active_faults
      note         "" or a harness-level disagreement (wrong RQ index, coroutine state)        ]

   The controller (clog, nts), `reported`, the read-through record rd and h are re-derived by
   FaultLog!Eff/EnvStep from the events alone; map/log are assigned the RECORDED view.  The
   clauses are the state predicates of FaultLog.tla, evaluated by TLC in every state:
     fail (per node) = <<>>  or  <<depth, clause>>  or  <<depth, clause, "clause2,clause3">>
                     = the clauses that trip at this node for the first time on its path
   MODE (IOEnv.FL_MODE):
     "clauses"  property clauses a-d (+ b from exc, + iteration order) -- the only source of VIOLATION
     "drift"    the recorded view differs from what the transcription (Repair / PushOnNew as
                configured) predicts from the recorded pre-view -- never a verdict
   Two callers: events r2start/r2step/r2end are a second get_faultlog(start, limit) call running on the same
   FaultLog while the first (rstart/rstep/rend) is under way; rd2 is its read record (same operators).  It is
   judged by the same clause c over ITS range when IT has returned (J20: the r2end node, where the harness has seen
   the real call return) - "Converged" below is the clause for either caller.
   A disabled event or a carried timestamp that is not the simulated controller's is reported
   as clause "harness" (the check turns that into a machinery failure).                  *)
EXTENDS FaultLog, Json, IOUtils

Nodes   == JsonDeserialize(IOEnv.TRACE_FILE)
Mode    == IOEnv.FL_MODE
DepthC  == atoi(IOEnv.FL_DEPTH)
RepairC == IOEnv.FL_REPAIR = "1"
PushC   == IOEnv.FL_PUSH = "1"
StartsC == 0..63
LimitsC == 1..64
KindsC  == AllKinds

VARIABLES tid, fail, done, rd2
tvars == <<tid, fail, done, rd2, map, log, clog, nts, reported, rd, nev, h, trips>>

ViewFn(v) == [i \in {v[n][1] : n \in 1..Len(v)} |-> v[CHOOSE n \in 1..Len(v) : v[n][1] = i][2]]
\* iteration order of the public dict: positions ascending (part of "ordered newest-first")
IterOrdered(v) == \A n \in 1..(Len(v) - 1) : v[n][1] < v[n + 1][1]
ToSet(q) == {q[n] : n \in 1..Len(q)}
Order == <<"harness", "drift", "Raises", "NoDup", "Ordered", "IterOrder", "Subset", "Views", "Converged", "AnnounceShift">>
Join(q) == LET F[n \in 0..Len(q)] == IF n < 2 THEN "" ELSE F[n - 1] \o (IF n > 2 THEN "," ELSE "") \o q[n]
           IN F[Len(q)]                 \* q[2], q[3], ... as one string (cannot be line-wrapped by TLC)

\* the second caller: the first caller's Eff cases over rd2; "ret" = it has returned (the observation point of c for
\* this caller, lasting one node)
R2Kinds == {"r2start", "r2step", "r2end"}
Eff2(ev) ==
  LET k == ev[1]  a == ev[2]  b == ev[3]  live == rd.st # "done" IN
  CASE k = "r2start" -> [en |-> live /\ rd2.st \in {"idle", "ret"} /\ a \in StartsC /\ b \in LimitsC, s |-> S, clog |-> clog,
                         nts |-> nts, ts |-> None, rd |-> rd, cnt |-> 1, rd2 |-> RdStart(a, b)]
    [] k = "r2step"  -> LET dtm == CtlAt(clog, rd2.pos) IN
                        [en |-> live /\ rd2.st = "run" /\ a = rd2.pos, s |-> ReadTurn(S, rd2.pos, dtm), clog |-> clog,
                         nts |-> nts, ts |-> dtm, rd |-> rd, cnt |-> 0, rd2 |-> RdStepped(rd2, dtm)]
    [] k = "r2end"   -> [en |-> rd2.st = "done", s |-> S, clog |-> clog, nts |-> nts, ts |-> None, rd |-> rd, cnt |-> 0,
                         rd2 |-> [rd2 EXCEPT !.st = "ret"]]
EffT(ev) ==
  IF ev[1] \in R2Kinds THEN Eff2(ev)
  ELSE LET f == Eff(ev) IN
       [en |-> f.en /\ rd2.st # "done", s |-> f.s, clog |-> f.clog, nts |-> f.nts, ts |-> f.ts, rd |-> f.rd, cnt |-> f.cnt,
        rd2 |-> IF rd2.st = "ret" THEN Idle ELSE IF ev[1] \in {"new", "clear"} THEN DirtyOf(rd2) ELSE rd2]
Converged2 == (rd2.st = "ret" /\ ~rd2.dirty /\ rd2.lo = 0) => ConvergedRange(rd2)

TInit == tid = 1 /\ fail = <<>> /\ done = {} /\ rd2 = Idle /\ Init

TStep ==
  \E n \in ToSet(Nodes[tid].kids) :
     LET e  == Nodes[n]
         ev == <<e.k, e.a, e.b>>
         f  == EffT(ev)
         \* "code:..." = the real get_faultlog() left the read plan (returned early, asked for another index, ran on):
         \* that is the code's doing, judged by the clauses on the views it leaves - never a harness fault
         \* ("code:not-asking": the call is neither done nor waiting for a reply to a request of its own)
         codeNote  == e.note \in {"code:ended-early", "code:other-idx", "code:ran-late", "code:not-asking"}
         harnessOk == f.en /\ (codeNote \/ (e.ts = f.ts /\ e.note = ""))
     IN
     /\ tid' = n
     /\ EnvStepX(ev, f, IF e.note = "code:ran-late" THEN ToSet(f.clog) ELSE {})  \* (answered until the call returned)
     /\ map' = ViewFn(e.view) /\ log' = ToSet(e.ilog)
     /\ rd2' = f.rd2
     /\ trips' = Trips'
     /\ LET bad == IF ~harnessOk THEN {"harness"}
                   ELSE IF Mode = "drift"
                        THEN (IF map' # f.s.m THEN {"drift"} ELSE {})
                        ELSE (trips' \ {"Readable"})
                             \cup (IF ~Converged2' THEN {"Converged"} ELSE {})
                             \cup (IF e.exc = "" /\ ~ViewsAgree(Range(map'), e.le, e.lf, e.af) THEN {"Views"} ELSE {})
                             \cup (IF e.exc # "" THEN {"Raises"} ELSE {})
                             \cup (IF ~IterOrdered(e.view) THEN {"IterOrder"} ELSE {})
            new    == bad \ done
            seqNew == SelectSeq(Order, LAMBDA c : c \in new)
        IN /\ done' = done \cup new
           /\ fail' = IF seqNew = <<>> THEN <<>>
                      ELSE IF Len(seqNew) = 1 THEN <<e.d, seqNew[1]>> ELSE <<e.d, seqNew[1], Join(seqNew)>>

TSpec == TInit /\ [][TStep]_tvars
Verdict == PrintT(<<"VERDICT", tid, fail>>)
=============================================================================

---------------------------- MODULE SchedXferCore ------------------------
(* C18 - schedule transfers under faults.

   Implementation-shaped model of
     ramses_rf/system/schedule.py  Schedule._is_dated/_get_schedule/get_schedule/set_schedule,
                                   _handle_msg, _update_payload_set, _proc_payload_set
     ramses_rf/system/heat.py      ScheduleSync._schedule_version/_obtain_lock/_release_lock
   at coroutine (await-point) grain.  The gateway side is a *functional core*: every step of the
   real code between two awaits is an operator  G -> G  on the record G (the state of the TCS and
   of its zones' Schedule objects).  The model-checking spec (below) and the trace spec
   (SchedXferTrace) use the same operators, so there is one source of truth.

   Parameter fix (operator argument; constants FixLock/FixAck in the MC spec), a record:
     fix.lock  FALSE  _get_schedule as in the code: no try/finally around the locked section
               TRUE   the repaired action: lock released in a finally
     fix.stale FALSE  _get_schedule as in the code (until /repo's "fix: re-validate an overheard schedule"): a
                      schedule overheard while the transfer waited for the lock is still in _full_schedule when
                      the fragment loop starts, so the loop's "if self._full_schedule:" ends it at once
               TRUE   the repaired action: _full_schedule is emptied when the loop starts
     fix.ack   FALSE  Schedule._handle_msg as in the code: every 0404 message of the controller that
                      the dispatcher routes to the zone - RP fragments, but also the I
                      acknowledgements of writes, which carry no fragment - goes into the fragment set
               TRUE   the repaired action: only RP fragments do

     fix.head  FALSE  _get_schedule as in the code: when the change counter has gone up, only slot 1 of the cached
                      fragment set is emptied ("if 1st frag valid: schedule very likely unchanged") and fragment 1
                      alone is fetched again
               TRUE   a repaired action: the whole cached set is dropped

   Abstractions (also listed in checks/c18_NOTES.md):
     * a zone's schedule content is a version id c (0,1,2,...); a fragment is (c, k, n) with
       n = NFrags(c); a complete set decodes iff its fragments are those of one version
       (ZlibDetects = the compression checksum rejects a mix; assumption, owned by C17);
     * an edit need not change every fragment: the compressed stream of version c may start with the same bytes
       as that of version c-1 (an edit late in the week), and other stretches may coincide too.  sh[c] = the
       positions at which the fragment of version c is byte-identical with that of version c-1 ({}: every
       fragment differs; never the last one: it carries the checksum).  A slot holds bytes, not a version: the
       value in a slot is Rep(sh, c, k), the *earliest* version whose k-th fragment has these bytes.  With
       sh = all {} a slot value is simply the version;
     * one exchange (RQ/RP or W/I through the QoS layer) is atomic: ok | lost (request never
       reached the controller; send raises) | rlost (request reached the controller, replies lost;
       send raises);
     * time is not numeric: the 15 s / 3 min waits appear as the aborts they cause.
*)
EXTENDS Integers, Sequences, FiniteSets, TLC

NoneV  == -1      \* None: no version known / no schedule / empty slot
Mixed  == -2      \* a schedule decoded from fragments of two versions
Ack    == -4      \* a write acknowledgement (I|0404: fragment header, no fragment) sitting in a slot
AsIs   == [lock |-> FALSE, ack |-> FALSE, stale |-> FALSE, head |-> FALSE]
Fixed  == [lock |-> TRUE, ack |-> TRUE, stale |-> TRUE, head |-> FALSE]   \* (the three repairs made in /repo so far)
NoZone == 0

NFrags(c) == IF c >= 2 THEN 3 ELSE 2             \* shared convention with the harness (checks/c18.py); never shrinks

ExchPcs == {"w_v1", "w_v2", "w_v3", "w_frag", "w_put", "w_sv"}
WaitPcs == ExchPcs \cup {"w_lock"}

\* ------------------------------------------------------------------------------------------
\* Functional core.  G = [lock, m6, fresh, zs];  zs[z] = the Schedule object of zone z + the
\* control state of its current transfer.

ZInit == [gver |-> 0, sver |-> 0, full |-> NoneV, pset |-> <<NoneV>>,
          pc |-> "idle", op |-> "none", force |-> FALSE, did |-> FALSE, k |-> 0, nfr |-> 0,
          wr |-> NoneV, exit |-> "none", res |-> NoneV, tid |-> 0, n |-> 0]

GInit(Zs) == [lock |-> NoZone, m6 |-> NoneV, fresh |-> FALSE, zs |-> [z \in Zs |-> ZInit]]

Z(G, z)        == G.zs[z]
SetZ(G, z, r)  == [G EXCEPT !.zs[z] = r]
Active(G, z)   == G.zs[z].pc \in WaitPcs
Release(G)     == [G EXCEPT !.lock = NoZone]              \* _release_lock: unconditional

HasNone(ps)    == \E i \in 1..Len(ps) : ps[i] = NoneV
FirstNone(ps)  == CHOOSE i \in 1..Len(ps) : ps[i] = NoneV /\ \A j \in 1..(i - 1) : ps[j] # NoneV
InitSet(c, k, n) == [i \in 1..n |-> IF i = k THEN c ELSE NoneV]

\* codec facts, a record cod = [zlib, sh]:  zlib = ZlibDetects;  sh = positions shared with the previous version
NoShare == [c \in 0..7 |-> {}]
RECURSIVE Rep(_, _, _)
Rep(sh, c, k) == IF c > 0 /\ c \in DOMAIN sh /\ k \in sh[c] THEN Rep(sh, c - 1, k) ELSE c   \* the bytes of fragment k of version c
Pure(ps, sh)  == LET c == ps[Len(ps)] IN c >= 0 /\ \A i \in 1..Len(ps) : ps[i] = Rep(sh, c, i)

\* _proc_payload_set on a set without None: decompress
HasAck(ps) == \E i \in 1..Len(ps) : ps[i] = Ack
Decode(ps, cod) ==
    IF Pure(ps, cod.sh) THEN ps[Len(ps)]                   \* exactly the fragments of one version (the last fragment always differs)
    ELSE IF \A i \in 1..Len(ps) : ps[i] = ps[1] THEN ps[1]
    ELSE IF cod.zlib THEN NoneV ELSE Mixed

\* _update_payload_set(payload_set, payload) -> <<payload_set', _full_schedule', raised>>
\* raised: payload[SZ_FRAGMENT] -> KeyError in _proc_payload_set (an acknowledgement has no
\* fragment); the slot has already been written in place
Update(ps, full, c, k, n, cod) ==
    IF n # Len(ps) THEN <<InitSet(c, k, n), full, FALSE>>                \* sched has changed
    ELSE LET ps2 == [ps EXCEPT ![k] = c] IN
         IF HasNone(ps2) THEN <<ps2, full, FALSE>>
         ELSE IF HasAck(ps2) THEN <<ps2, full, TRUE>>
         ELSE LET d == Decode(ps2, cod) IN
              IF d # NoneV THEN <<ps2, d, FALSE>> ELSE <<InitSet(c, k, n), full, FALSE>>

Done(G, z, exit, res) == SetZ(G, z, [Z(G, z) EXCEPT !.pc = "done", !.exit = exit, !.res = res])

\* an exception (failed send, CancelledError from task.cancel() or from the wait_for time-out)
\* raised at the current await of zone z's transfer
Fail(G, z, why, fix) ==
    LET r  == Z(G, z)
        G1 == IF r.op = "set" /\ r.pc \in {"w_put", "w_sv"} THEN Release(G)      \* finally:
              ELSE IF r.op = "get" /\ r.pc \in {"w_v3", "w_frag"} /\ fix.lock THEN Release(G)
              ELSE G
    IN  Done(G1, z, why, NoneV)

BeginFrags(G, z, fix) ==                              \* self._payload_set[0] = None ; loop
    LET r == Z(G, z) IN                                   \* (fix.stale: and self._full_schedule = {})
    SetZ(G, z, [r EXCEPT !.pset = IF fix.head THEN [i \in 1..Len(r.pset) |-> NoneV]    \* (fix.head: every slot)
                                  ELSE [r.pset EXCEPT ![1] = NoneV],
                         !.pc = "w_frag",
                         !.full = IF fix.stale THEN NoneV ELSE r.full])

AfterLock(G, z, fix) ==
    LET r == Z(G, z) IN
    IF r.op = "get"
    THEN IF r.did THEN BeginFrags(G, z, fix) ELSE SetZ(G, z, [r EXCEPT !.pc = "w_v3"])
    ELSE SetZ(G, z, [r EXCEPT !.pc = "w_put", !.k = 1])

\* one iteration of the _obtain_lock loop
TryLock(G, z, fix) ==
    LET G1 == IF G.lock = NoZone THEN [G EXCEPT !.lock = z] ELSE G IN
    IF G1.lock = z THEN AfterLock(G1, z, fix)
    ELSE SetZ(G1, z, [Z(G1, z) EXCEPT !.pc = "w_lock"])

\* _get_schedule after  is_dated, did_io = await self._is_dated(...)
AfterDated(G, z, dated, did, fix) ==
    LET r  == Z(G, z)
        r1 == [r EXCEPT !.did = did, !.full = IF dated THEN NoneV ELSE r.full]
        G1 == SetZ(G, z, r1)
    IN  IF r1.full # NoneV THEN Done(G1, z, "ok", r1.full) ELSE TryLock(G1, z, fix)

NewXfer(r, op, force, tid) ==
    [r EXCEPT !.op = op, !.force = force, !.did = FALSE, !.pc = "run", !.exit = "none",
              !.res = NoneV, !.tid = tid, !.n = 0, !.k = 0, !.nfr = 0, !.wr = NoneV]

\* get_schedule(force_io): runs synchronously up to its first await (or to the end)
StartGet(G, z, force, tid, fix) ==
    LET r0 == NewXfer(Z(G, z), "get", force, tid)
        G0 == SetZ(G, z, r0)
    IN
    IF (~force /\ r0.sver = 0) \/ (r0.gver # 0 /\ r0.gver > r0.sver)
    THEN AfterDated(G0, z, TRUE, FALSE, fix)
    ELSE IF G.m6 # NoneV /\ G.fresh                     \* _schedule_version(): cached value
         THEN LET r1 == [r0 EXCEPT !.gver = G.m6]
                  G1 == SetZ(G0, z, r1)
              IN  IF r1.gver > r1.sver THEN AfterDated(G1, z, TRUE, FALSE, fix)
                  ELSE IF force THEN SetZ(G1, z, [r1 EXCEPT !.pc = "w_v2"])
                  ELSE AfterDated(G1, z, FALSE, FALSE, fix)
         ELSE SetZ(G0, z, [r0 EXCEPT !.pc = "w_v1"])

\* set_schedule(schedule of version wr, which makes nfr fragments)
StartSetN(G, z, wr, nfr, tid, fix) ==
    LET r0 == [NewXfer(Z(G, z), "set", FALSE, tid) EXCEPT !.wr = wr, !.nfr = nfr] IN
    TryLock(SetZ(G, z, r0), z, fix)
StartSet(G, z, wr, tid, fix) == StartSetN(G, z, wr, NFrags(wr), tid, fix)

\* the awaited RP|0006 arrived (change counter = ctr)
OnVer(G, z, ctr, fix) ==
    LET G1 == [G EXCEPT !.m6 = ctr, !.fresh = TRUE]
        r  == [Z(G, z) EXCEPT !.gver = ctr, !.n = @ + 1]
        G2 == SetZ(G1, z, r)
    IN  CASE r.pc \in {"w_v1", "w_v2"} -> AfterDated(G2, z, r.gver > r.sver, TRUE, fix)
          [] r.pc = "w_v3" -> BeginFrags(G2, z, fix)
          [] r.pc = "w_sv" -> Done(Release(SetZ(G2, z, [r EXCEPT !.sver = ctr, !.full = r.wr])),
                                   z, "ok", r.wr)
          [] OTHER -> G

\* the awaited RP|0404 arrived: fragment k of n, content version c
OnFrag(G, z, c, k, n, cod, fix) ==
    LET r  == Z(G, z)
        u  == Update(r.pset, r.full, c, k, n, cod)
        r1 == [r EXCEPT !.pset = u[1], !.full = u[2], !.n = @ + 1]
    IN  IF r.pc # "w_frag" THEN G
        ELSE IF u[3] THEN Fail(SetZ(G, z, r1), z, "err", fix)        \* KeyError leaves _get_schedule
        ELSE IF u[2] # NoneV
        THEN Done(Release(SetZ(G, z, [r1 EXCEPT !.sver = r1.gver])), z, "ok", u[2])
        ELSE IF HasNone(u[1]) THEN SetZ(G, z, r1)
        ELSE Fail(SetZ(G, z, r1), z, "err", fix)     \* next() -> StopIteration -> RuntimeError

\* the awaited I|0404 (write acknowledgement) arrived
OnPutAck(G, z) ==
    LET r == [Z(G, z) EXCEPT !.n = @ + 1] IN
    IF r.pc # "w_put" THEN G
    ELSE IF r.k < r.nfr THEN SetZ(G, z, [r EXCEPT !.k = @ + 1])
    ELSE SetZ(G, z, [r EXCEPT !.pc = "w_sv"])

\* Schedule._handle_msg for an 0404 fragment seen by the dispatcher (overheard, duplicate, late)
Heard(G, z, c, k, n, cod) ==
    IF G.lock = z THEN G
    ELSE LET r == Z(G, z)
             u == Update(r.pset, r.full, c, k, n, cod)
         IN  SetZ(G, z, [r EXCEPT !.pset = u[1], !.full = u[2]])

\* Schedule._handle_msg for an I|0404 (acknowledgement of fragment k of n of a write)
HeardAck(G, z, k, n, cod, fix) ==
    IF fix.ack THEN G ELSE Heard(G, z, Ack, k, n, cod)

Heard6(G, ctr) == [G EXCEPT !.m6 = ctr, !.fresh = TRUE]   \* ScheduleSync._handle_msg
Age(G)         == [G EXCEPT !.fresh = FALSE]              \* 3 minutes pass

\* what the frame of the pending exchange asks for
ReqFrag(G, z) == FirstNone(Z(G, z).pset)

\* observable projection compared with the real objects (checks/c18.py `project`)
Proj(G, Zs) == [lock |-> G.lock,
                zs |-> [z \in Zs |-> [gver |-> G.zs[z].gver, sver |-> G.zs[z].sver,
                                      full |-> G.zs[z].full, pset |-> G.zs[z].pset]]]
=============================================================================

SPECIFICATION Spec
INVARIANT Verdict
CHECK_DEADLOCK FALSE

SPECIFICATION TSpec
CONSTANTS MaxTp = 99  Silent <- NoSilent  FixActive = TRUE  FixShield = TRUE  Overlap = TRUE
INVARIANT Verdict

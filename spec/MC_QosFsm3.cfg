SPECIFICATION Spec
CONSTANTS
  Callers = {1, 2, 3}
  HasRx <- HasRxC
  Wfr <- WfrC
  MaxRetries <- MaxRetriesC
  Prio <- PrioC
  MaxEnv = 2
  MaxT = 7
  MaxConn = 0
  MaxFail = 0
  MaxIo = 1
  FixStaleEffect = TRUE
  FixLockRelease = TRUE
  FixClearFut = TRUE
  FixCheckIdleOnly = TRUE
  FixWriteFail = TRUE
VIEW View
INVARIANT NoTrip
INVARIANT NotFrozen
INVARIANT OwnPacket
INVARIANT Budget
INVARIANT EndsIdle
INVARIANT NoTimerLeak
INVARIANT NoOverflow

\* contract instance (quick): every law must hold
SPECIFICATION Spec
CONSTANTS
  Impl <- NoImpl
  TempKs <- TempKsAll
  DblKs <- DblKsAll
  Years <- YearsQ
  Hours <- HoursQ
  Mins <- MinsQ
  Secs <- SecsQ
  YYs <- YYsQ
  DtsHours <- HoursAll
  IdNs <- IdNsQ
  StrAlphabet <- Alpha
  StrMaxLen = 3
INVARIANT InvA
INVARIANT InvB
INVARIANT InvC
INVARIANT InvD
INVARIANT InvE

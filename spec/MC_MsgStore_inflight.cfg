\* a packet may be handled between a read and its deferred delete (same loop iteration)
SPECIFICATION BSpec
CONSTANTS
  Ctx = {c1, c2}
  Code = {1, 2, 3}
  Val = {v1, v2}
  Attr = {"sp", "md", "tp"}
  CodesOf <- CodesOfDef
  LifeS <- LifeSDef
  LifeA <- LifeADef
  Grace = 2
  StaleFirstRead = TRUE
  InFlight = TRUE
  StampSteps = {1}
  CrossCodeOpen = TRUE
  MaxEvents = 5
  MaxMsgs = 2
CONSTRAINT Bound
VIEW View
SYMMETRY Sym
INVARIANT FreshA
INVARIANT NoInvention
INVARIANT ThresholdB
INVARIANT ThresholdC
INVARIANT StoreIsLast
PROPERTY MonotoneD

SPECIFICATION Spec
CONSTANTS
  Zones = {1, 2}
  FixLock = FALSE
  FixAck = TRUE
  FixStale = FALSE
  ZlibDetects = TRUE
  MaxMain = 2
  MaxFaults = 1
  MaxBumps = 1
  MaxHeard = 1
  MaxAge = 0
  AllowSet = TRUE
  HeardStale = FALSE
  HeardAcks = TRUE
CONSTRAINT Bound
INVARIANT LockFreeWhenIdle
CHECK_DEADLOCK TRUE
VIEW View

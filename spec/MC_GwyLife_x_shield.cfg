CONSTANTS MaxTp = 6  Silent <- Silent25  FixActive = TRUE  FixShield = FALSE  Overlap = FALSE
SPECIFICATION Spec
CHECK_DEADLOCK FALSE
INVARIANT Restartable

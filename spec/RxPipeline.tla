---------------------------- MODULE RxPipeline ----------------------------
(* C01 "Reception is total".  Implementation-shaped model of the receive path of ramses_tx:

     serial bytes --read()--> _recv_buffer --split on CRLF--> raw lines --_str/_normalise-->
        text --_frame_read--> Packet.from_file --> protocol.pkt_received --> Message --> msg_handler

   PORT part (Mode = "port"):  PortTransport._read_ready / bytes_read  (transport.py:908-937)
     stream   the bytes the OS will hand over, abstracted to symbols
                "x"  a piece of a frame that decodes          "z"  a piece of an *escaping* frame
                "CR" "LF"                                     "B"  a byte that is not ASCII
     Read(n)  one serial.read() returning the next n symbols (n = 0: empty read)
   FILE part (Mode = "file"):  FileTransport._reader / _start_reader  (transport.py:769-805)
     fl       the lines of a packet log / packet dict, each abstracted to a class

   Escaping = TRUE transcribes the code as it is: there is a class of frame (array-shaped
   I|000A/2309/30C9 whose addresses break Frame._has_array's bare asserts) for which
   Packet.__init__ raises AssertionError, which neither _frame_read nor _pkt_received catches.
   Escaping = FALSE is the code with that exception converted to the invalid-packet error.
   The property clauses are the invariants at the end; they hold for Escaping = FALSE and TLC
   produces the counter-examples for Escaping = TRUE (replayed on the real code by checks/c01.py). *)
EXTENDS Naturals, Sequences, FiniteSets, TLC

CONSTANTS Mode,        \* "port" | "file"
          Escaping,    \* BOOLEAN
          Streams,     \* set of symbol sequences (port)
          MaxZero,     \* max number of empty reads in one behaviour (port)
          FileShapes   \* set of sequences of line classes (file)

Sym     == {"x", "z", "CR", "LF", "B"}
Classes == {"valid", "blank", "comment", "badDtm", "badStructure", "badAddr", "badLen",
            "badPayload", "assertPath", "chatter"}

(* ------------------------------------------------------------------------------------ *)
(* Pure operators (shared with RxTrace)                                                  *)

\* bytes.split(b"\r\n"): <<complete lines, remainder>>.  CR LF cannot overlap itself, so the separators
\* are exactly the positions i with s[i] = CR, s[i+1] = LF (non-recursive: streams may be long in RxTrace)
Breaks(s) == {i \in 1..(Len(s) - 1) : s[i] = "CR" /\ s[i + 1] = "LF"}
Split(s) ==
  LET B      == Breaks(s)
      n      == Cardinality(B)
      brk(j) == CHOOSE i \in B : Cardinality({k \in B : k < i}) = j - 1      \* j-th separator
      beg(j) == IF j = 1 THEN 1 ELSE brk(j - 1) + 2
  IN <<[j \in 1..n |-> SubSeq(s, beg(j), brk(j) - 1)], SubSeq(s, beg(n + 1), Len(s))>>

IsWs(c) == c \in {"CR", "LF"}
RECURSIVE LStrip(_)
LStrip(l) == IF l # <<>> /\ IsWs(Head(l)) THEN LStrip(Tail(l)) ELSE l
RECURSIVE RStrip(_)
RStrip(l) == IF l # <<>> /\ IsWs(l[Len(l)]) THEN RStrip(SubSeq(l, 1, Len(l) - 1)) ELSE l
Strip(l) == RStrip(LStrip(l))
Has(l, c) == \E i \in 1..Len(l) : l[i] = c

(* What becomes of one raw line (the bytes between two CRLFs):
     "drop"    _str(): a non-ASCII byte makes the whole line ""         -> nothing
     "blank"   _normalise() strips it to ""  ; _frame_read returns       -> nothing
     "garbage" CR or LF left inside the text ; COMMAND_REGEX refuses it  -> PacketInvalid
     "frame"   the text of a frame                                       -> delivered
     "esc"     the text of an escaping frame                             -> see Escaping      *)
Kind(l) ==
  IF Has(l, "B") THEN "drop"
  ELSE LET t == Strip(l) IN
       IF t = <<>> THEN "blank"
       ELSE IF \E i \in 1..Len(t) : IsWs(t[i]) THEN "garbage"
       ELSE IF Has(t, "z") THEN "esc" ELSE "frame"

\* indices (1-based, over the complete lines of s) that must be delivered, in order
RECURSIVE FrameIdx(_, _)
FrameIdx(ls, j) ==
  IF j > Len(ls) THEN <<>>
  ELSE (IF Kind(ls[j]) = "frame" THEN <<j>> ELSE <<>>) \o FrameIdx(ls, j + 1)
Expected(s) == FrameIdx(Split(s)[1], 1)

(* Lines handed over by one read, processed in order by the `for` loop of _read_ready; an
   escaping line raises out of the loop: the lines after it *in this read* are abandoned
   (they are already out of _recv_buffer).  Result: <<delivered indices, raised?>>         *)
RECURSIVE Process(_, _, _)
Process(ls, j, base) ==
  IF j > Len(ls) THEN <<<<>>, FALSE>>
  ELSE LET k == Kind(ls[j]) IN
       IF k = "esc" /\ Escaping THEN <<<<>>, TRUE>>
       ELSE LET rest == Process(ls, j + 1, base) IN
            <<(IF k = "frame" THEN <<base + j>> ELSE <<>>) \o rest[1], rest[2]>>

\* outcome of one log/dict line by class (what _reader/_frame_read/_pkt_received do with it)
FileOutcome(c) ==
  CASE c = "valid"                                   -> "msg"
    [] c \in {"blank", "comment"}                    -> "skip"      \* never reaches _frame_read
    [] c \in {"badDtm", "chatter"}                   -> "value"     \* ValueError, caught
    [] c \in {"badStructure", "badAddr", "badLen"}   -> "invalid"   \* PacketInvalid, caught
    [] c = "badPayload"                              -> "pkt"       \* Packet ok, Message refuses
    [] c = "assertPath"                              -> IF Escaping THEN "other" ELSE "invalid"

RECURSIVE ValidIdx(_, _)
ValidIdx(f, j) ==
  IF j > Len(f) THEN <<>>
  ELSE (IF f[j] = "valid" THEN <<j>> ELSE <<>>) \o ValidIdx(f, j + 1)

(* ------------------------------------------------------------------------------------ *)
VARIABLES stream, pos, buf, nlines, delivered, loopExc, cuts, zeros,   \* port
          fl, fi, fdelivered, fended                                    \* file
pvars == <<stream, pos, buf, nlines, delivered, loopExc, cuts, zeros>>
fvars == <<fl, fi, fdelivered, fended>>
vars  == <<pvars, fvars>>

Init ==
  /\ IF Mode = "port" THEN stream \in Streams ELSE stream = <<>>
  /\ pos = 0 /\ buf = <<>> /\ nlines = 0 /\ delivered = <<>> /\ loopExc = 0
  /\ cuts = <<>> /\ zeros = 0
  /\ IF Mode = "file" THEN fl \in FileShapes ELSE fl = <<>>
  /\ fi = 1 /\ fdelivered = <<>> /\ fended = "no"

\* one call of _read_ready(): data = serial.read(); bytes_read(data); for line: _frame_read(...)
Read(n) ==
  /\ Mode = "port"
  /\ pos + n <= Len(stream)
  /\ n = 0 => zeros < MaxZero
  /\ pos' = pos + n
  /\ cuts' = Append(cuts, n)
  /\ zeros' = IF n = 0 THEN zeros + 1 ELSE zeros
  /\ IF n = 0
     THEN UNCHANGED <<buf, nlines, delivered, loopExc>>                  \* `if not data: return`
     ELSE LET sp == Split(buf \o SubSeq(stream, pos + 1, pos + n))       \* _recv_buffer += data
              pr == Process(sp[1], 1, nlines)
          IN /\ buf' = sp[2]                                            \* _recv_buffer = lines[-1]
             /\ nlines' = nlines + Len(sp[1])
             /\ delivered' = delivered \o pr[1]
             /\ loopExc' = IF pr[2] THEN loopExc + 1 ELSE loopExc
  /\ UNCHANGED <<stream, fvars>>

ReplayNext ==
  /\ Mode = "file" /\ fended = "no" /\ fi <= Len(fl)
  /\ LET o == FileOutcome(fl[fi]) IN
       IF o = "other"
       THEN fended' = "err" /\ UNCHANGED <<fi, fdelivered>>   \* _start_reader: connection_lost(err)
       ELSE /\ fi' = fi + 1
            /\ fdelivered' = IF o = "msg" THEN Append(fdelivered, fi) ELSE fdelivered
            /\ UNCHANGED fended
  /\ UNCHANGED <<fl, pvars>>

ReplayEnd ==
  /\ Mode = "file" /\ fended = "no" /\ fi > Len(fl)
  /\ fended' = "none"                                          \* connection_lost(None)
  /\ UNCHANGED <<fl, fi, fdelivered, pvars>>

Next == (\E n \in 0..Len(stream) : Read(n)) \/ ReplayNext \/ ReplayEnd
Spec == Init /\ [][Next]_vars

(* ------------------------------------------------------------------------------------ *)
(* Property clauses (DESIGN App. A, C01)                                                 *)

Prefix == SubSeq(stream, 1, pos)

\* mechanism invariant: incremental splitting = splitting the bytes received so far at once
SplitInv == LET sp == Split(Prefix) IN buf = sp[2] /\ nlines = Len(sp[1])

\* c (and b for a serial stream): what has been delivered depends only on the bytes received -
\* it is every deliverable line of the prefix, in order, whatever the partition was
PartitionIndependent == delivered = Expected(Prefix)

\* a2: nothing escapes _read_ready into the event loop
NoLoopException == loopExc = 0

\* a2 (file): the replay ends with connection_lost(None), and only at the end of the source
ReplayEndsClean == fended # "err" /\ (fended = "none" => fi = Len(fl) + 1)

\* b (file): a line that decodes in isolation is delivered whatever precedes it
ReplayDeliversAll == (fended # "no") => fdelivered = ValidIdx(fl, 1)
ReplayProgress == fended = "no" => fdelivered = ValidIdx(SubSeq(fl, 1, fi - 1), 1)

PortView == <<stream, pos, buf, nlines, delivered, loopExc, zeros, fvars>>
=============================================================================

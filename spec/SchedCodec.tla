------------------------------ MODULE SchedCodec ------------------------------
(* C17 (codec half) - the laws a weekly schedule must satisfy on its way through
   full_sched_to_fragz / fragz_to_full_sched / Command.set_schedule_fragment / parser_0404.

   Deliberately thin (DESIGN 6): the structured input space and the oracle live here as
   integer mathematics; nothing is said about floating point or zlib.  A schedule is the
   flat sequence of its switch-points <<day, minute-of-day, value>>, value on the integer
   grid: centi-degrees 500..3500 for a zone, 0/1 for hot water.                          *)
EXTENDS Naturals, Sequences, FiniteSets

MaxPayload == 48        \* bytes of payload a RAMSES frame carries
FragHeader == 7         \* zone, 200008/230008, length, number, total

IsSwitchPoint(p, dhw) == /\ p[1] \in 0..6
                         /\ p[2] \in 0..1439 /\ p[2] % 5 = 0            \* "all 288 times of day"
                         /\ IF dhw THEN p[3] \in {0, 1} ELSE p[3] \in 500..3500

(* "seven days, ordered switchpoints on 5-minute times, setpoints on the 0.01 degree grid or on/off" *)
InDomain(s, dhw) ==
  /\ \A n \in 1..Len(s) : IsSwitchPoint(s[n], dhw)
  /\ {s[n][1] : n \in 1..Len(s)} = 0..6
  /\ \A n \in 1..(Len(s) - 1) : \/ s[n][1] < s[n + 1][1]
                                  \/ (s[n][1] = s[n + 1][1] /\ s[n][2] < s[n + 1][2])

\* a "converted to fragments and back to exactly the same schedule"
Identity(inp, zin, out, zout) == out = inp /\ zout = zin
\* b "Every fragment fits a single frame"
FitsFrame(lens) == Len(lens) >= 1 /\ \A n \in 1..Len(lens) : lens[n] >= 1 /\ FragHeader + lens[n] <= MaxPayload
\* c "the write commands built from the fragments are frames the library's decoder accepts"
\*   (and carry the fragment, its number and the total that were passed in)
WriteAccepted(cmds, nfrags) ==
  /\ Len(cmds) = nfrags
  /\ \A n \in 1..Len(cmds) : /\ cmds[n].ok = 1 /\ cmds[n].k = n /\ cmds[n].n = nfrags /\ cmds[n].feq = 1
                               /\ cmds[n].plen <= MaxPayload
=============================================================================

---------------------------- MODULE WireCodec ----------------------------
(***************************************************************************)
(* C04 - the scalar wire codecs of ramses_tx.helpers / ramses_tx.address   *)
(* and the set-point packer of ramses_rf.system.schedule, on INTEGER grids.*)
(*                                                                         *)
(*   temperature    k  = centi-degrees (value = k/100), word w in 0..65535 *)
(*   percentage     k  = 1/200 (high_res) or 1/100 steps, byte w in 0..255 *)
(*   double/counter k  = 1/factor steps, word w in 0..65535                *)
(*   bool / flag8   bytes                                                  *)
(*   date-time      fields <<Y,Mo,D,h,mi,s>>, 6/7 wire bytes               *)
(*   packed stamp   fields <<yy,mo,d,h,mi,s>>, two 24-bit limbs <<hi,lo>>  *)
(*   device id      <<tt, n>>  <->  24-bit h                               *)
(*   text           Seq(0..255)                                            *)
(*                                                                         *)
(* No floating point exists here: `int(v * 100)` is the identity on the    *)
(* grid in this module.  Where the code departs from that (binary floats)  *)
(* the departure is *detected* by table validation (WireCodecTrace), not   *)
(* explained by the model.                                                 *)
(*                                                                         *)
(* Impl = the set of known departures of the *current code* which the      *)
(* implementation-shaped instance transcribes (MC_WireCodec_impl*.cfg):    *)
(*   "temp_wrap"  hex_from_temp has its range check commented out          *)
(*   "dts_y0"     hex_to_dts builds datetime(year=yy): yy = 00 is refused  *)
(* Impl = {} is the contract instance (what the property promises).        *)
(***************************************************************************)
EXTENDS Integers, Sequences, FiniteSets, TLC

CONSTANT Impl

\* ---- value / result representation: always a 2-tuple <<tag, payload>> --------------
Num(k)   == <<"num", k>>      \* a number on the grid
None     == <<"none", 0>>     \* "not available" (Python None)
FalseV   == <<"false", 0>>    \* "not implemented" (Python False; temperatures only)
Refuse   == <<"refuse", 0>>   \* the function raised
Bad      == <<"bad", 0>>      \* an encoder returned text that is not a wire word
Word(w)  == <<"word", w>>     \* an encoder returned this wire word
IsNum(r)  == r[1] = "num"
IsWord(r) == r[1] = "word"

Pow2(n) == 2 ^ n
Bit(w, i) == (w \div Pow2(i)) % 2              \* bit i (0 = LSB) of w >= 0

\* ---- temperatures (hex_to_temp / hex_from_temp) --------------------------------------
Signed16(w) == IF w < 32768 THEN w ELSE w - 65536
TempNA1   == 32767    \* 7FFF
TempNA2   == 12799    \* 31FF
TempNI    == 32511    \* 7EFF
TempFloor == -27315   \* -273.15
TempSentinelWords == {TempNA1, TempNA2, TempNI}

TempDec(w) ==
  CASE w = TempNA1 \/ w = TempNA2 -> None
    [] w = TempNI                 -> FalseV
    [] Signed16(w) < TempFloor    -> Refuse
    [] OTHER                      -> Num(Signed16(w))

TempInRange(k) == k \in -32768..32767
\* a temperature the wire can carry as a number
TempRepresentable(k) == k \in TempFloor..32767 /\ (k % 65536) \notin TempSentinelWords

TempEncNum(k) ==
  IF TempInRange(k) THEN Word(k % 65536)
  ELSE IF "temp_wrap" \in Impl
       THEN (IF k \in -65536..65535 THEN Word(k % 65536) ELSE Bad)   \* f"{temp + 2**16:04X}"
       ELSE Refuse
TempEncNone  == Word(TempNA1)
TempEncFalse == Word(TempNI)

\* ---- percentages (hex_to_percent / hex_from_percent), n = 200 or 100 -----------------
PctNA == 239   \* EF
PctDec(w, n) ==
  IF w = PctNA \/ w \div 16 = 15 THEN None
  ELSE IF w > n THEN Refuse ELSE Num(w)
PctRepresentable(k, n) == k \in 0..n
PctEncNum(k, n) == IF k \in 0..n THEN Word(k) ELSE Refuse
PctEncNone == Word(PctNA)

\* ---- doubles / counters (hex_to_double / hex_from_double), grid = 1/factor ------------
DblNA == 32767
DblDec(w) == IF w = DblNA THEN None ELSE Num(w)
DblRepresentable(k) == k \in 0..65535 /\ k # DblNA
DblEncNum(k) == IF k \in 0..65535 THEN Word(k) ELSE Refuse   \* (the code returns 5 hex / a sign: Bad)
DblEncNone == Word(DblNA)

\* ---- schedule set-points (schedule._struct_pack / fragz_to_full_sched.setpoint) -------
\* 0 and 1 are the DHW "enabled" flags, so 0.00 and 0.01 are not representable set-points
SpRepresentable(k) == k \in 2..65535
SpEncNum(k) == IF k \in 0..65535 THEN Word(k) ELSE Refuse
SpDec(w) == IF w \in {0, 1} THEN <<"enabled", w>> ELSE Num(w)

\* ---- booleans -------------------------------------------------------------------------
BoolDec(w) == CASE w = 0 -> Num(0) [] w = 200 -> Num(1) [] w = 255 -> None [] OTHER -> Refuse
BoolEncNum(b) == IF b = 0 THEN Word(0) ELSE IF b = 1 THEN Word(200) ELSE Refuse
BoolEncNone == Word(255)

\* ---- flag bytes: a sequence of 8 bits, MSB first unless lsb ---------------------------
Flag8Dec(w, lsb) == [i \in 1..8 |-> IF lsb = 1 THEN Bit(w, i - 1) ELSE Bit(w, 8 - i)]
RECURSIVE SumBits(_, _, _)
SumBits(bits, lsb, i) ==
  IF i > 8 THEN 0
  ELSE bits[i] * (IF lsb = 1 THEN Pow2(i - 1) ELSE Pow2(8 - i)) + SumBits(bits, lsb, i + 1)
Flag8Enc(bits, lsb) == SumBits(bits, lsb, 1)
BitLists == [1..8 -> {0, 1}]

\* ---- calendar -------------------------------------------------------------------------
IsLeap(y) == (y % 4 = 0 /\ y % 100 # 0) \/ y % 400 = 0
DaysIn(y, m) ==
  CASE m \in {1, 3, 5, 7, 8, 10, 12} -> 31
    [] m \in {4, 6, 9, 11}           -> 30
    [] OTHER                         -> IF IsLeap(y) THEN 29 ELSE 28
ValidDT(f) ==   \* f = <<Y, Mo, D, h, mi, s>>, what datetime() accepts
  /\ f[1] \in 1..9999 /\ f[2] \in 1..12 /\ f[3] \in 1..DaysIn(f[1], f[2])
  /\ f[4] \in 0..23 /\ f[5] \in 0..59 /\ f[6] \in 0..59

\* ---- date-times (hex_to_dtm / hex_from_dtm): bytes <<[s|dst],mi,[dow|h],D,Mo,Yhi,Ylo>> --
DtmEnc(f, dst, incl) ==
  LET b7 == <<f[6] + 128 * dst, f[5], f[4], f[3], f[2], f[1] \div 256, f[1] % 256>>
  IN  IF incl = 1 THEN b7 ELSE SubSeq(b7, 2, 7)
DtmEncNone(incl) == IF incl = 1 THEN <<255, 255, 255, 255, 255, 255, 255>>
                                 ELSE <<255, 255, 255, 255, 255, 255>>
DtmDec(b) ==
  LET b7 == IF Len(b) = 6 THEN <<0>> \o b ELSE b
      f  == <<b7[6] * 256 + b7[7], b7[5], b7[4], b7[3] % 32, b7[2], b7[1] % 128>>
  IN  IF \A i \in 2..7 : b7[i] = 255 THEN None
      ELSE IF ValidDT(f) THEN <<"dt", f>> ELSE Refuse
DtmDstBit(b) == IF Len(b) = 7 THEN b[1] \div 128 ELSE 0
DtmCanonical(b) ==     \* no day-of-week bits (the encoder never sets them)
  LET b7 == IF Len(b) = 6 THEN <<0>> \o b ELSE b IN b7[3] < 32
\* a date-time on the grid of the given wire form
DtmOnGrid(f, incl) == ValidDT(f) /\ (incl = 1 \/ f[6] = 0)

\* ---- dates (hex_to_date): bytes <<[dow|D], Mo, Yhi, Ylo>>; no encoder exists ----------
DateDec(b) ==
  LET f == <<b[3] * 256 + b[4], b[2], b[1] % 32, 0, 0, 0>>
  IN  IF \A i \in 1..4 : b[i] = 255 THEN None
      ELSE IF ValidDT(f) THEN <<"date", <<f[1], f[2], f[3]>>>> ELSE Refuse

\* ---- packed fault-log stamps (hex_to_dts / hex_from_dts): 48 bits = <<hi24, lo24>> -----
\*   mon<<36 | day<<31 | yy<<24 | hour<<19 | min<<13 | sec<<7 ; 00000000007F = none
DtsEnc(f) ==   \* f = <<yy, mo, d, h, mi, s>>
  <<f[2] * 4096 + f[3] * 128 + f[1], f[4] * 524288 + f[5] * 8192 + f[6] * 128>>
DtsEncNone == <<0, 127>>
DtsYear(yy) == IF "dts_y0" \in Impl THEN yy ELSE 2000 + yy   \* the code: datetime(year=yy)
DtsDec(w) ==
  LET hi == w[1]  lo == w[2]
      yy == hi % 128
      f  == <<yy, (hi \div 4096) % 16, (hi \div 128) % 32,
              (lo \div 524288) % 32, (lo \div 8192) % 64, (lo \div 128) % 64>>
  IN  IF w = DtsEncNone THEN None
      ELSE IF ValidDT(<<DtsYear(yy), f[2], f[3], f[4], f[5], f[6]>>) THEN <<"dt", f>> ELSE Refuse
DtsOnGrid(f) == f[1] \in 0..99 /\ ValidDT(<<2000 + f[1], f[2], f[3], f[4], f[5], f[6]>>)

\* ---- device ids (Address.convert_*, dev_id_to_hex_id / hex_id_to_dev_id) --------------
IdTypes == 0..63
IdDec(h) == <<h \div 262144, h % 262144>>          \* 'tt:nnnnnn'
IdInSpace(tt, n) == tt \in IdTypes /\ n \in 0..262143
IdEnc(tt, n) == IF IdInSpace(tt, n) THEN Word(tt * 262144 + n) ELSE Refuse
IdAll == 16777214                                   \* FFFFFE = 63:262142

\* ---- text (hex_to_str / hex_from_str) --------------------------------------------------
Printable(c) == c > 31 /\ c < 127
RECURSIVE LStrip(_)
LStrip(s) == IF s # <<>> /\ Head(s) = 32 THEN LStrip(Tail(s)) ELSE s
RECURSIVE RStrip(_)
RStrip(s) == IF s # <<>> /\ s[Len(s)] = 32 THEN RStrip(SubSeq(s, 1, Len(s) - 1)) ELSE s
StrDec(bytes) == RStrip(LStrip(SelectSeq(bytes, Printable)))
StrEnc(s) == s                                       \* one byte per character code 0..255
StrOnGrid(s) == /\ \A i \in 1..Len(s) : Printable(s[i])
                /\ (s = <<>> \/ (s[1] # 32 /\ s[Len(s)] # 32))

\* =====================================================================================
\* The laws (T): evaluated by TLC over the full grids through MC_WireCodec (one case per state)
\*   case = a tuple whose head names the grid
\* =====================================================================================
A_RoundTrip(c) ==      \* grid value -> wire -> value  (clause a)
  CASE c[1] = "temp_k" ->
         TempRepresentable(c[2]) =>
           /\ IsWord(TempEncNum(c[2])) /\ TempDec(TempEncNum(c[2])[2]) = Num(c[2])
    [] c[1] = "pct_k" ->
         PctRepresentable(c[3], c[2]) =>
           /\ IsWord(PctEncNum(c[3], c[2])) /\ PctDec(PctEncNum(c[3], c[2])[2], c[2]) = Num(c[3])
    [] c[1] = "dbl_k" ->
         DblRepresentable(c[2]) => /\ IsWord(DblEncNum(c[2])) /\ DblDec(DblEncNum(c[2])[2]) = Num(c[2])
    [] c[1] = "sp_k" ->
         SpRepresentable(c[2]) => /\ IsWord(SpEncNum(c[2])) /\ SpDec(SpEncNum(c[2])[2]) = Num(c[2])
    [] c[1] = "bool_k" -> BoolDec(BoolEncNum(c[2])[2]) = Num(c[2])
    [] c[1] = "flag_w" -> Flag8Dec(Flag8Enc(Flag8Dec(c[3], c[2]), c[2]), c[2]) = Flag8Dec(c[3], c[2])
    [] c[1] = "dtm" ->
         LET f == <<c[2], c[3], c[4], c[5], c[6], c[7]>> IN
         DtmOnGrid(f, c[9]) => DtmDec(DtmEnc(f, c[8], c[9])) = <<"dt", f>>
    [] c[1] = "dts" ->
         LET f == <<c[2], c[3], c[4], c[5], c[6], c[7]>> IN
         DtsOnGrid(f) => DtsDec(DtsEnc(f)) = <<"dt", f>>
    [] c[1] = "str" -> StrOnGrid(c[2]) => StrDec(StrEnc(c[2])) = c[2]
    [] OTHER -> TRUE

B_ReEncode(c) ==       \* wire value that decodes to a value -> same wire value  (clause b)
  CASE c[1] = "temp_w" -> IsNum(TempDec(c[2])) => TempEncNum(TempDec(c[2])[2]) = Word(c[2])
    [] c[1] = "pct_w"  -> IsNum(PctDec(c[3], c[2])) => PctEncNum(PctDec(c[3], c[2])[2], c[2]) = Word(c[3])
    [] c[1] = "dbl_w"  -> IsNum(DblDec(c[2])) => DblEncNum(DblDec(c[2])[2]) = Word(c[2])
    [] c[1] = "sp_w"   -> IsNum(SpDec(c[2])) => SpEncNum(SpDec(c[2])[2]) = Word(c[2])
    [] c[1] = "bool_w" -> IsNum(BoolDec(c[2])) => BoolEncNum(BoolDec(c[2])[2]) = Word(c[2])
    [] c[1] = "flag_w" -> Flag8Enc(Flag8Dec(c[3], c[2]), c[2]) = c[3]
    [] c[1] = "dtm" ->    \* the encoder's words are canonical and re-encode to themselves
         LET f == <<c[2], c[3], c[4], c[5], c[6], c[7]>>
             b == DtmEnc(f, c[8], c[9]) IN
         DtmOnGrid(f, c[9]) =>
           /\ DtmCanonical(b) /\ DtmDstBit(b) = (IF c[9] = 1 THEN c[8] ELSE 0)
           /\ DtmEnc(DtmDec(b)[2], DtmDstBit(b), c[9]) = b
    [] c[1] = "dts" ->
         LET f == <<c[2], c[3], c[4], c[5], c[6], c[7]>> IN
         DtsOnGrid(f) => (DtsDec(DtsEnc(f))[1] = "dt" => DtsEnc(DtsDec(DtsEnc(f))[2]) = DtsEnc(f))
    [] OTHER -> TRUE

C_IdBijection(c) ==    \* clause c
  CASE c[1] = "id_h" -> /\ IdInSpace(IdDec(c[2])[1], IdDec(c[2])[2])
                        /\ IdEnc(IdDec(c[2])[1], IdDec(c[2])[2]) = Word(c[2])
    [] c[1] = "id_t" -> /\ IsWord(IdEnc(c[2], c[3])) /\ IdEnc(c[2], c[3])[2] \in 0..16777215
                        /\ IdDec(IdEnc(c[2], c[3])[2]) = <<c[2], c[3]>>
    [] OTHER -> TRUE

D_Sentinels(c) ==      \* clause d: not-available / not-implemented survive
  c[1] = "sentinels" =>
    /\ TempDec(TempEncNone[2]) = None /\ TempDec(TempEncFalse[2]) = FalseV
    /\ PctDec(PctEncNone[2], 200) = None /\ PctDec(PctEncNone[2], 100) = None
    /\ DblDec(DblEncNone[2]) = None /\ BoolDec(BoolEncNone[2]) = None
    /\ DtmDec(DtmEncNone(0)) = None /\ DtmDec(DtmEncNone(1)) = None
    /\ DtsDec(DtsEncNone) = None
    /\ IdDec(IdAll) = <<63, 262142>> /\ IdEnc(63, 262142) = Word(IdAll)

E_NoSilentWrap(c) ==   \* clause e: out of range never becomes a (different) valid number
  CASE c[1] = "temp_k" ->
         ~TempInRange(c[2]) => ~(IsWord(TempEncNum(c[2])) /\ IsNum(TempDec(TempEncNum(c[2])[2])))
    [] c[1] = "pct_k" ->
         ~PctRepresentable(c[3], c[2]) => ~IsWord(PctEncNum(c[3], c[2]))
    [] c[1] = "dbl_k" -> c[2] \notin 0..65535 => ~IsWord(DblEncNum(c[2]))
    [] c[1] = "sp_k"  -> c[2] \notin 0..65535 => ~IsWord(SpEncNum(c[2]))
    [] OTHER -> TRUE
=============================================================================

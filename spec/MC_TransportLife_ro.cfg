SPECIFICATION Spec
CONSTANTS MaxTrys = 3  Sending = FALSE  MaxRx = 4  MaxEpochs = 2  StrictInactive = FALSE
INVARIANT TypeOK
INVARIANT MadeAtMostOnce
INVARIANT IdIsTheEchoes
INVARIANT ReportedIdStable
INVARIANT SigBudget
INVARIANT DeliveredIsPrefix
INVARIANT NoEscape
INVARIANT CtxTracksConnection
PROPERTY EventuallyMade
PROPERTY EventuallyAllDelivered
CHECK_DEADLOCK FALSE

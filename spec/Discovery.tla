---------------------------- MODULE Discovery ----------------------------
(* C12 - active discovery of a heating controller's configuration.

   Implementation-shaped model of ramses_rf's prober (entity_base._Discovery, system/heat.py,
   system/zones.py) against a controller with a fixed configuration `cfg`:

     * every entity (the TCS, each heating zone, the DHW zone) owns a polling table - an ordered
       dict  header -> next due round  (_discovery_cmds) - and a poller task that, once per wake-up,
       ITERATES OVER THE LIVE DICT in insertion order and awaits one send per due entry
       (discover(): `for hdr, task in self.discovery_cmds.items(): ... await send_disc_cmd()`),
     * an exchange (RQ -> RP) may be lost; the entry is then next due one interval (24 h) later,
     * replies are handled whenever they arrive (not when the send returns: discovery does not wait
       for replies), so a reply can be processed while any poller is suspended inside a send,
     * 0005 replies create zones (with a class from a class mask, without one from the sensor mask);
       000C replies create zones / the DHW zone and assign sensor, actuators, DHW parts, appliance;
       learning the class of a class-less zone PROMOTES it, which re-arms the zone's table with the
       class-specific actuator query (Zone._update_schema.set_zone_type -> _setup_discovery_cmds).

   The promotion mutates the zone's dict.  If the zone's poller is suspended inside its `for` loop
   at that moment, CPython raises RuntimeError("dictionary changed size during iteration") at the
   next step of the loop and the poller task dies (constant IterSafe = FALSE, the code as it is).
   IterSafe = TRUE models the proposed repair (iterate over a copy).

   Time is counted in polling rounds (one round = one 24 h interval); `now` only advances when the
   round's work is done.  Property clauses (DESIGN App. A, C12):
     c  Sound     : what is known is what the controller said          (known [= cfg, always)
     c  Monotone  : nothing learned is lost                             ([][known [= known']_vars)
     a,b Recovery : by the end of the round after the last loss the schema equals cfg
        Complete  : <>[](known = cfg) under fairness                                             *)
EXTENDS DiscoveryOrder

CONSTANTS
  ZoneIds,     \* zone indexes that may exist, as strings ("00", "01", ...)
  Configs,     \* the set of controller configurations explored
  TcsTable,    \* the TCS's polling table: Seq(header), see below
  EtherCap,    \* at most this many replies are on their way at once (1 = prompt, 2 = may overtake)
  MaxLoss,     \* at most this many lost exchanges in a behaviour
  MaxRound,    \* last polling round modelled (rounds 0..MaxRound)
  IterSafe     \* FALSE: poller iterates the live dict (as coded); TRUE: over a copy (repair)

NewZone(c) == [cls |-> c, sen |-> None, acts |-> {}]

(* ------------------------------------------------------------------ headers, tables *)
\* a header is <<code, idx, role>>.  The TCS's table (SystemBase/StoredHw/MultiZone._setup_discovery_cmds)
\* is the constant TcsTable, e.g.
\*   000C/000F 000C/000E 000C/010E 000C/000D 0005/0008 0005/000A 0005/000B 0005/0011 0005/0004
\* The DHW zone polls 000D/000E/010E as well; these are the TCS's headers again (lost or answered
\* together with them), so its poller adds nothing to the knowledge and is not modelled.

\* Zone._setup_discovery_cmds: (actuators of the zone's role, sensor); role "00" while class-less
ZoneTable(z, c) == << <<"000C", z, IF c = None THEN "00" ELSE c>>, <<"000C", z, "04">> >>

NoHdr == <<"", "", "">>

VARIABLES
  cfg,      \* the controller's configuration (constant during a behaviour)
  known,    \* the gateway's schema
  tdue,     \* tdue[i] : round in which TcsTable[i] is next due
  tab,      \* tab[z]  : Seq(header) - zone z's polling dict in insertion order (<<>> = no such zone)
  due,      \* due[z]  : Seq(Nat), parallel to tab[z] - round in which the entry is next due
  pc,       \* pc[z]   : 0 = poller asleep, k > 0 = poller inside its for-loop, suspended at entry k
  itlen,    \* itlen[z]: size of the dict when the running for-loop created its iterator
  infl,     \* infl[z] : header of the send the poller is suspended in (NoHdr = not suspended)
  dead,     \* dead[z] : the poller task has died with RuntimeError
  ether,    \* replies on their way to the gateway (set of headers)
  now,      \* current polling round
  lost,     \* set of <<header, round>> the ether has lost
  lastLoss  \* round of the latest loss (0 if none: the start counts as the reference point)

vars == <<cfg, known, tdue, tab, due, pc, itlen, infl, dead, ether, now, lost, lastLoss>>

RangeOf(s) == {s[i] : i \in 1..Len(s)}

(* ------------------------------------------------------------------ the controller *)
ZonesOfClass(c) == {z \in DOMAIN cfg.zones : cfg.zones[z].cls = c}
ZonesWithSensor == {z \in DOMAIN cfg.zones : cfg.zones[z].sen # None}

\* devices named by the RP to a 000C header
Devs(h) ==
  LET idx == h[2]  role == h[3] IN
  IF role = "0F" THEN (IF cfg.app = None THEN {} ELSE {cfg.app})
  ELSE IF role = "0D" THEN (IF cfg.dhw.sen = None THEN {} ELSE {cfg.dhw.sen})
  ELSE IF role = "0E" /\ idx = "00" THEN (IF cfg.dhw.hwv = None THEN {} ELSE {cfg.dhw.hwv})
  ELSE IF role = "0E" THEN (IF cfg.dhw.htv = None THEN {} ELSE {cfg.dhw.htv})
  ELSE IF idx \notin DOMAIN cfg.zones THEN {}
  ELSE IF role = "04" THEN (IF cfg.zones[idx].sen = None THEN {} ELSE {cfg.zones[idx].sen})
  ELSE IF role = "00" THEN cfg.zones[idx].acts
  ELSE IF cfg.zones[idx].cls = role THEN cfg.zones[idx].acts
  ELSE {}

(* ------------------------------------------------------------------ reply handlers *)
\* The handlers are folded over the zones of a mask; every step maps <<known, tab, due>> to the next.
St(k, t, d) == [k |-> k, t |-> t, d |-> d]

\* get_htg_zone(z, class=c) / get_htg_zone(z, msg=...): create the zone if needed (c may be None)
Ensure(s, z, c) ==
  IF z \in DOMAIN s.k.zones THEN s
  ELSE St([s.k EXCEPT !.zones = [y \in DOMAIN s.k.zones \cup {z} |->
                                   IF y = z THEN NewZone(c) ELSE s.k.zones[y]]],
          [s.t EXCEPT ![z] = ZoneTable(z, c)],
          [s.d EXCEPT ![z] = <<now, now>>])

\* Zone._update_schema(class=c) on an existing zone: promotion re-arms the table
Promote(s, z, c) ==
  IF s.k.zones[z].cls # None THEN s    \* same class: no-op (a consistent controller never differs)
  ELSE St([s.k EXCEPT !.zones[z].cls = c],
          IF <<"000C", z, c>> \in RangeOf(s.t[z]) THEN s.t
          ELSE [s.t EXCEPT ![z] = Append(@, <<"000C", z, c>>)],
          IF <<"000C", z, c>> \in RangeOf(s.t[z]) THEN s.d
          ELSE [s.d EXCEPT ![z] = Append(@, now)])

EnsureClass(s, z, c) == IF z \in DOMAIN s.k.zones THEN Promote(s, z, c) ELSE Ensure(s, z, c)

RECURSIVE FoldZones(_, _, _)
FoldZones(s, zs, c) ==       \* c = None: sensor mask (create only);  otherwise a class mask
  IF zs = {} THEN s
  ELSE LET z == CHOOSE y \in zs : TRUE IN
       FoldZones(IF c = None THEN Ensure(s, z, None) ELSE EnsureClass(s, z, c), zs \ {z}, c)

EnsureDhw(s) == s    \* get_dhw_zone(): the DHW zone's poller is not modelled (see above)

Handle(s, h) ==
  LET code == h[1]  idx == h[2]  role == h[3]  devs == Devs(h) IN
  IF code = "0005" THEN
       IF role = "04" THEN FoldZones(s, ZonesWithSensor, None)
       ELSE FoldZones(s, ZonesOfClass(role), role)
  ELSE IF devs = {} THEN s
  ELSE IF role = "0F" THEN St([s.k EXCEPT !.app = CHOOSE x \in devs : TRUE], s.t, s.d)
  ELSE IF role = "0D" THEN
       LET s1 == EnsureDhw(s) IN St([s1.k EXCEPT !.dhw.sen = CHOOSE x \in devs : TRUE], s1.t, s1.d)
  ELSE IF role = "0E" /\ idx = "00" THEN
       LET s1 == EnsureDhw(s) IN St([s1.k EXCEPT !.dhw.hwv = CHOOSE x \in devs : TRUE], s1.t, s1.d)
  ELSE IF role = "0E" THEN
       LET s1 == EnsureDhw(s) IN St([s1.k EXCEPT !.dhw.htv = CHOOSE x \in devs : TRUE], s1.t, s1.d)
  ELSE LET s1 == Ensure(s, idx, None) IN
       IF role = "04" THEN St([s1.k EXCEPT !.zones[idx].sen = CHOOSE x \in devs : TRUE], s1.t, s1.d)
       ELSE LET s2 == St([s1.k EXCEPT !.zones[idx].acts = @ \cup devs], s1.t, s1.d) IN
            IF role = "00" THEN s2 ELSE Promote(s2, idx, role)

(* ------------------------------------------------------------------ actions *)
Init ==
  /\ cfg \in Configs
  /\ known = EmptyKnown
  /\ tdue = [i \in 1..Len(TcsTable) |-> 0]
  /\ tab = [z \in ZoneIds |-> <<>>]
  /\ due = [z \in ZoneIds |-> <<>>]
  /\ pc = [z \in ZoneIds |-> 0]
  /\ itlen = [z \in ZoneIds |-> 0]
  /\ infl = [z \in ZoneIds |-> NoHdr]
  /\ dead = [z \in ZoneIds |-> FALSE]
  /\ ether = {}
  /\ now = 0
  /\ lost = {} /\ lastLoss = 0

\* an exchange whose reply carries nothing changes nothing when lost: only informative ones branch
Informative(h) ==
  IF h[1] = "0005" THEN (IF h[3] = "04" THEN ZonesWithSensor # {} ELSE ZonesOfClass(h[3]) # {})
  ELSE Devs(h) # {}

\* the fate of the exchange <<h, now>>: the reply is put on the ether, or the exchange is lost
Fate(h) ==
  \/ /\ Cardinality(ether) < EtherCap
     /\ ether' = ether \cup {h} /\ UNCHANGED <<lost, lastLoss>>
  \/ /\ Informative(h) /\ Cardinality(lost) < MaxLoss
     /\ lost' = lost \cup {<<h, now>>} /\ lastLoss' = now /\ UNCHANGED ether

\* the TCS's poller: its dict never changes, so its loop is abstracted to "first due entry, in order"
TcsDue == {i \in 1..Len(TcsTable) : tdue[i] <= now}
TcsPoll ==
  /\ TcsDue # {}
  /\ LET i == CHOOSE j \in TcsDue : \A k \in TcsDue : j <= k IN
     /\ Fate(TcsTable[i])
     /\ tdue' = [tdue EXCEPT ![i] = now + 1]
  /\ UNCHANGED <<cfg, known, tab, due, pc, itlen, infl, dead, now>>

HasDue(z) == \E i \in 1..Len(tab[z]) : due[z][i] <= now

\* Code between two awaits runs atomically.  The zone's poller wakes up, creates the dict iterator
\* (`for hdr, task in self.discovery_cmds.items()`), skips entries that are not due and suspends in
\* the first `await send_disc_cmd(...)`.
LoopBegin(z) ==
  /\ tab[z] # <<>> /\ ~dead[z] /\ pc[z] = 0 /\ HasDue(z)
  /\ LET i == CHOOSE j \in 1..Len(tab[z]) : due[z][j] <= now /\ \A k \in 1..(j - 1) : due[z][k] > now IN
     /\ pc' = [pc EXCEPT ![z] = i]
     /\ infl' = [infl EXCEPT ![z] = tab[z][i]]
     /\ due' = [due EXCEPT ![z][i] = now + 1]
  /\ itlen' = [itlen EXCEPT ![z] = Len(tab[z])]
  /\ UNCHANGED <<cfg, known, tdue, tab, dead, ether, now, lost, lastLoss>>

\* The send returns (echo or failure); the loop goes on: `next()` of the dict iterator - which raises
\* RuntimeError if the dict has changed size meanwhile - then on to the next due entry's await, or
\* StopIteration and back to sleep.
SendDone(z) ==
  /\ infl[z] # NoHdr
  /\ Fate(infl[z])
  /\ IF ~IterSafe /\ Len(tab[z]) # itlen[z]
     THEN /\ dead' = [dead EXCEPT ![z] = TRUE]          \* the poller task ends with RuntimeError
          /\ pc' = [pc EXCEPT ![z] = 0]
          /\ infl' = [infl EXCEPT ![z] = NoHdr]
          /\ UNCHANGED due
     ELSE LET nxt == {i \in (pc[z] + 1)..itlen[z] : due[z][i] <= now} IN
          IF nxt = {}
          THEN /\ pc' = [pc EXCEPT ![z] = 0]
               /\ infl' = [infl EXCEPT ![z] = NoHdr]
               /\ UNCHANGED <<due, dead>>
          ELSE LET i == CHOOSE j \in nxt : \A k \in nxt : j <= k IN
               /\ pc' = [pc EXCEPT ![z] = i]
               /\ infl' = [infl EXCEPT ![z] = tab[z][i]]
               /\ due' = [due EXCEPT ![z][i] = now + 1]
               /\ UNCHANGED dead
  /\ UNCHANGED <<cfg, known, tdue, tab, itlen, now>>

\* a reply reaches the gateway and is dispatched (Controller -> TCS -> zone)
Deliver(h) ==
  /\ h \in ether
  /\ LET s == Handle(St(known, tab, due), h) IN
     /\ known' = s.k /\ tab' = s.t /\ due' = s.d
  /\ ether' = ether \ {h}
  /\ UNCHANGED <<cfg, tdue, pc, itlen, infl, dead, now, lost, lastLoss>>

Quiet ==
  /\ ether = {} /\ TcsDue = {}
  /\ \A z \in ZoneIds : pc[z] = 0 /\ infl[z] = NoHdr /\ (dead[z] \/ tab[z] = <<>> \/ ~HasDue(z))

Tick ==
  /\ Quiet /\ now < MaxRound
  /\ now' = now + 1
  /\ UNCHANGED <<cfg, known, tdue, tab, due, pc, itlen, infl, dead, ether, lost, lastLoss>>

Next ==
  \/ TcsPoll
  \/ \E z \in ZoneIds : LoopBegin(z) \/ SendDone(z)
  \/ \E h \in ether : Deliver(h)
  \/ Tick

Fairness ==
  /\ WF_vars(TcsPoll)
  /\ \A z \in ZoneIds : WF_vars(LoopBegin(z)) /\ WF_vars(SendDone(z))
  /\ WF_vars(\E h \in ether : Deliver(h))
  /\ WF_vars(Tick)

Spec == Init /\ [][Next]_vars
FairSpec == Spec /\ Fairness

(* ------------------------------------------------------------------ properties *)
TypeOK ==
  /\ cfg \in Configs
  /\ \A z \in ZoneIds : Len(tab[z]) = Len(due[z]) /\ pc[z] \in 0..(Len(tab[z]) + 1)
  /\ \A z \in ZoneIds : (tab[z] # <<>>) = (z \in DOMAIN known.zones)
  /\ now \in 0..MaxRound /\ Cardinality(lost) <= MaxLoss /\ lastLoss <= now
  /\ Cardinality(ether) <= EtherCap

Sound == Leq(known, cfg)                                     \* C12c "did not say"
Monotone == [][Leq(known, known')]_vars                      \* C12c "nothing learned is lost"

NoDeadPoller == \A z \in ZoneIds : ~dead[z]                \* implementation invariant

\* C12a/b, J9: when a round's work is done and no exchange was lost in it, the schema is complete
Recovery == (Quiet /\ now > lastLoss) => known = cfg
\* ... and (no loss at all) already at the end of the first round
RecoveryNoLoss == (Quiet /\ lost = {}) => known = cfg
\* the same modulo the known trip (a dead poller), for the model of the code as it is
RecoveryModuloDead == NoDeadPoller => (Recovery /\ RecoveryNoLoss)

Complete == <>[](known = cfg)                                 \* C12a/b under fairness
=============================================================================

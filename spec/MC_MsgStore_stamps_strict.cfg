\* as MC_MsgStore_stamps.cfg, but arrival order also decides between two codes of one attribute: the model (and the
\* library: `max(msgs)` takes the greatest stamp) has a counter-example to FreshA - setpoint <- {2309, 2349}: a 2309,
\* then a 2349 with an equal or earlier stamp; the 2309 is reported.  Expected to fail; see checks/c14_NOTES.md
SPECIFICATION BSpec
CONSTANTS
  Ctx = {c1, c2}
  Code = {1, 2, 3}
  Val = {v1, v2}
  Attr = {"sp", "md", "tp"}
  CodesOf <- CodesOfDef
  LifeS <- LifeSDef
  LifeA <- LifeADef
  Grace = 2
  StaleFirstRead = FALSE
  InFlight = FALSE
  StampSteps <- StepsAnyDef
  CrossCodeOpen = FALSE
  MaxEvents = 4
  MaxMsgs = 3
CONSTRAINT Bound
VIEW View
SYMMETRY Sym
INVARIANT FreshA
INVARIANT NoInvention
INVARIANT ThresholdB
INVARIANT ThresholdC
INVARIANT ReadEStrict
INVARIANT StoreIsLast
PROPERTY MonotoneD

------------------------------ MODULE RxTrace ------------------------------
(* C01: batch validation of recorded executions of the real receive path (harness/ext_c01.py) against
   the clauses of DESIGN App. A, using the operators of RxPipeline.  One item of the batch =
     [kind |-> "line" | "port" | "file" | "dict" | "mqtt" | "gwy" (a whole Gateway replaying a log),
      sym  |-> symbol stream (port; <<>> otherwise),
      iso  |-> per complete line (port) / per source line: what the same line does when it is the only
               one offered to the same kind of transport: "msg" (message delivered) | "pkt" (packet handed
               to pkt_received, Message refused it) | "rej"/"skip" (nothing) | "other" (an exception of a
               type the property does not allow escaped; "opkt" if the packet was handed over before it),
      content |-> port: per complete line "valid" | "other"  (drift check of RxPipeline!Kind),
      ev   |-> events [e, k, n, mro] recorded from the real objects]
   The step is total: a failed clause is recorded (first event index per clause), never a disabled step.
   Clauses:  a1 exception type leaving Packet.from_* / Message      a2 exception escaping the receive path
             b  every line valid in isolation is delivered, in order c  same packets for every partition
   "drift:*" = the model (not the property) disagrees with the code; "harness:*" = malformed item.   *)
EXTENDS Naturals, Sequences, FiniteSets, TLC, Json, IOUtils

Traces == JsonDeserialize(IOEnv.TRACE_FILE)

RX == INSTANCE RxPipeline WITH Mode <- "port", Escaping <- FALSE, Streams <- {}, MaxZero <- 0,
                               FileShapes <- {}, stream <- <<>>, pos <- 0, buf <- <<>>, nlines <- 0,
                               delivered <- <<>>, loopExc <- 0, cuts <- <<>>, zeros <- 0, fl <- <<>>,
                               fi <- 0, fdelivered <- <<>>, fended <- "no"

VARIABLES tid, l, pos, buf, nlines, pktSeq, msgSeq, fails
vars == <<tid, l, pos, buf, nlines, pktSeq, msgSeq, fails>>

T == Traces[tid]
NEv == Len(T.ev)

AllowedNames == {"ramses_tx.exceptions.PacketInvalid", "builtins.ValueError"}
Allowed(mro) == \E i \in 1..Len(mro) : mro[i] \in AllowedNames

RECURSIVE IdxWith(_, _, _)
IdxWith(iso, S, j) ==
  IF j > Len(iso) THEN <<>>
  ELSE (IF iso[j] \in S THEN <<j>> ELSE <<>>) \o IdxWith(iso, S, j + 1)
ExpPkt(iso) == IdxWith(iso, {"msg", "pkt", "opkt"}, 1)
ExpMsg(iso) == IdxWith(iso, {"msg"}, 1)

HasClause(fs, c) == \E i \in 1..Len(fs) : fs[i][2] = c
Add(fs, line, c, cond) == IF cond /\ ~HasClause(fs, c) THEN Append(fs, <<line, c>>) ELSE fs

Init == /\ tid \in 1..Len(Traces)
        /\ l = 1 /\ pos = 0 /\ buf = <<>> /\ nlines = 0
        /\ pktSeq = <<>> /\ msgSeq = <<>> /\ fails = <<>>

\* one recorded event
Event ==
  /\ l <= NEv
  /\ LET e == T.ev[l] IN
     /\ pktSeq' = IF e.e = "pkt" THEN Append(pktSeq, e.k) ELSE pktSeq
     /\ msgSeq' = IF e.e = "msg" THEN Append(msgSeq, e.k) ELSE msgSeq
     /\ IF e.e = "read" /\ T.kind = "port"
        THEN LET n  == e.n
                 ok == pos + n <= Len(T.sym)
                 sp == RX!Split(buf \o SubSeq(T.sym, pos + 1, IF ok THEN pos + n ELSE Len(T.sym)))
             IN /\ pos' = pos + n
                /\ buf' = IF n = 0 THEN buf ELSE sp[2]
                /\ nlines' = IF n = 0 THEN nlines ELSE nlines + Len(sp[1])
        ELSE UNCHANGED <<pos, buf, nlines>>
     /\ fails' =
          LET f1 == Add(fails, l, "a1", e.e = "out" /\ e.mro # <<>> /\ ~Allowed(e.mro))
              f2 == Add(f1, l, "a2", e.e \in {"exc", "end"} /\ e.mro # <<>> /\ ~Allowed(e.mro))
              \* model step: everything completed by earlier reads has been handed over before the next
              f3 == Add(f2, l, "drift:progress",
                        e.e = "read" /\ T.kind = "port" /\ Len(T.iso) >= nlines
                        /\ pktSeq # ExpPkt(SubSeq(T.iso, 1, nlines)))
              f4 == Add(f3, l, "harness:read", e.e = "read" /\ T.kind = "port" /\ pos + e.n > Len(T.sym))
          IN f4
  /\ l' = l + 1 /\ UNCHANGED tid

\* end of the execution: the delivery clauses
Finish ==
  /\ l = NEv + 1
  /\ LET lines == IF T.kind = "port" THEN RX!Split(T.sym)[1] ELSE <<>>
         isoOk == T.kind # "port" \/ Len(T.iso) = Len(lines)
         seqK  == T.kind \in {"port", "file", "dict", "mqtt", "gwy"}
         f0 == Add(fails, l, "harness:iso", ~isoOk)
         f1 == Add(f0, l, "c", T.kind = "port" /\ isoOk /\ pktSeq # ExpPkt(T.iso))
         f2 == Add(f1, l, "b", seqK /\ isoOk /\
                   (msgSeq # ExpMsg(T.iso) \/ (T.kind \in {"file", "dict", "mqtt"} /\ pktSeq # ExpPkt(T.iso))))
         f3 == Add(f2, l, "drift:kind",
                   T.kind = "port" /\ isoOk /\ Len(T.content) = Len(lines) /\
                   \E j \in 1..Len(lines) : T.content[j] = "valid" /\ T.iso[j] \notin {"other", "opkt"} /\
                        ((RX!Kind(lines[j]) = "frame") # (T.iso[j] = "msg")))
         f4 == Add(f3, l, "drift:pos", T.kind = "port" /\ pos # Len(T.sym))
     IN fails' = f4
  /\ l' = l + 1 /\ UNCHANGED <<tid, pos, buf, nlines, pktSeq, msgSeq>>

Next == Event \/ Finish
Spec == Init /\ [][Next]_vars

Verdict == (l > NEv + 1) =>
             PrintT(<<"VERDICT", tid,
                      IF fails = <<>> THEN <<>> ELSE <<fails[1][1], fails[1][2], fails>>>>)
=============================================================================

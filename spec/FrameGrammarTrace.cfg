SPECIFICATION Spec
INVARIANT Verdict

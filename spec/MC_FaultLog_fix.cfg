SPECIFICATION Spec
CONSTANTS Depth = 4  MaxIdx = 62  MaxTs = 6  MaxEv = 7
  Starts <- Starts0  Limits <- LimitsQ  Kinds <- KindsBase  Repair = TRUE  PushOnNew = FALSE  KnownTrips <- TripsFix
CONSTRAINT Bound
INVARIANT TripsKnown
CHECK_DEADLOCK FALSE

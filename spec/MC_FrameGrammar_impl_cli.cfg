\* implementation-shaped instance: from_cli cuts the payload at 48 characters -> InvCli is expected to fail (candidate, replayed on the code)
SPECIFICATION Spec
CONSTANTS
  Impl <- ImplCli
  Seqns <- SeqnsC
  Addrs <- AddrsC
  Codes <- CodesC
  LenPairs <- LenPairsC
INVARIANT InvParsePrint
INVARIANT InvLenField
INVARIANT InvSrcDst
INVARIANT InvCli
INVARIANT InvShapesDisjoint

SPECIFICATION Spec
CONSTANTS
  Zones = {1, 2}
  FixLock = FALSE
  FixAck = FALSE
  FixStale = FALSE
  ZlibDetects = TRUE
  MaxMain = 2
  MaxFaults = 1
  MaxBumps = 1
  MaxHeard = 0
  MaxAge = 0
  AllowSet = TRUE
  HeardStale = FALSE
  HeardAcks = TRUE
CONSTRAINT Bound
INVARIANT TypeOK
INVARIANT ResultAsOfRead
INVARIANT NeverMixed
CHECK_DEADLOCK TRUE
VIEW View

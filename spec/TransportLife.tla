---------------------------- MODULE TransportLife ----------------------------
(***************************************************************************)
(* The connection phase of ramses_tx.transport.PortTransport and what the  *)
(* reader does with packets meanwhile (transport.py: __init__,             *)
(* _create_connection.connect_with_signature, _pkt_read, _make_connection, *)
(* _FullTransport._pkt_read), one action per coroutine step / callback:    *)
(*                                                                         *)
(*   connect_with_signature:                                               *)
(*     loop (at most MaxTrys times):  write the signature frame (a 7FFF    *)
(*         puzzle packet with a payload of its own);  sleep GAP;           *)
(*         if _init_fut is done: _make_connection(src of the echo); stop   *)
(*     gave up: _init_fut.set_result(None); _make_connection(None)         *)
(*   _pkt_read(pkt)  (every valid packet the reader produces):             *)
(*     if _init_fut is not done and pkt is the echo of the signature:      *)
(*         extra[active_hgi] = pkt.src.id; _init_fut.set_result(pkt)       *)
(*     call_soon(protocol.pkt_received, pkt)     -- whatever the phase     *)
(*   _make_connection(id): extra[active_hgi] = id;                         *)
(*         call_soon(protocol.connection_made, transport)                  *)
(*                                                                         *)
(* Read-only transports (disable_sending) connect at once with no id.      *)
(*                                                                         *)
(* The environment chooses when (between which signature writes) which     *)
(* packets arrive: the gateway's echo of the signature (its source is the  *)
(* gateway's real id), other traffic, a *foreign* puzzle packet (another   *)
(* gateway's signature: same code, other payload), or nothing.             *)
(*                                                                         *)
(* The protocol's side (protocol.py PortProtocol, protocol_fsm.py): the    *)
(* three callbacks share the loop's one FIFO of call_soon handles, so the  *)
(* queue below holds packets *and* the marks MADE / LOST in the order the   *)
(* transport scheduled them.  PortProtocol.pkt_received() delivers the      *)
(* message (super().pkt_received) and then shows the packet to the QoS      *)
(* context, whose state is Inactive until connection_made(ramses=True) has  *)
(* run and again after connection_lost(): Inactive.pkt_rcvd() logs a        *)
(* warning for anything but a puzzle packet (its doc-string says "raise";   *)
(* StrictInactive = TRUE is that reading - a sensitivity instance, the      *)
(* clause NoEscape must fail there) and returns.                            *)
(*                                                                         *)
(* Life cycle: Lose = _ReadTransport._close() (close() by the application, *)
(* or a SerialException in read()): call_soon(connection_lost), the init    *)
(* task is cancelled; the reader is gone (what SerialTransport._close does;*)
(* the harness removes it).  Reopen = the same protocol object is handed to *)
(* a new PortTransport (transport_factory again - a re-connect), once it    *)
(* has been told of the loss: the new transport reads the port and hands    *)
(* over packets at once, its own signature phase starts over.               *)
(***************************************************************************)
EXTENDS Naturals, Sequences, FiniteSets, TLC

CONSTANTS MaxTrys,        \* _SIGNATURE_MAX_TRYS
          Sending,        \* BOOLEAN: FALSE = disable_sending (connect_sans_signature)
          MaxRx,          \* bound on packets the environment delivers
          MaxEpochs,      \* transports the one protocol is given, one after the other
          StrictInactive  \* BOOLEAN: FALSE = the code (Inactive.pkt_rcvd logs); TRUE = it raises ProtocolFsmError

Kinds  == {"sigecho", "foreignsig", "other"}
Puzzle == {"sigecho", "foreignsig"}       \* code 7FFF: exempt in Inactive.pkt_rcvd
Marks  == {"MADE", "LOST"}
NoId   == "none"
Gwy    == "gwy"          \* the id the echo of our signature comes from

VARIABLES phase,        \* "start" | "sleeping" | "connected" | "closed"      (the transport in hand)
          sent,         \* signatures written so far (by this transport)
          initFut,      \* "pend" | "echo" | "none"      (_init_fut)
          hgi,          \* extra[active_hgi]: NoId or an id
          made,         \* ids connection_made was called with for this transport (must end up with exactly one)
          queue,        \* call_soon handles not yet run: packets for protocol.pkt_received, MADE, LOST - one FIFO
          delivered,    \* packets the protocol has been given, in order (all transports)
          rxd,          \* packets the readers produced, in order (ghost: what must be delivered)
          epoch,        \* 1 + number of re-connects so far
          ctx,          \* the QoS context of the protocol: "Inactive" | "Idle"
          escaped       \* exceptions that left protocol.pkt_received (into the loop's exception handler)
vars == <<phase, sent, initFut, hgi, made, queue, delivered, rxd, epoch, ctx, escaped>>

Pkts(q) == SelectSeq(q, LAMBDA x : x \in Kinds)

Init == /\ phase = "start" /\ sent = 0 /\ initFut = "pend" /\ hgi = NoId /\ made = <<>>
        /\ queue = <<>> /\ delivered = <<>> /\ rxd = <<>>
        /\ epoch = 1 /\ ctx = "Inactive" /\ escaped = 0

(* the task's first step *)
Begin ==
  /\ phase = "start"
  /\ IF Sending
     THEN /\ phase' = "sleeping" /\ sent' = 1                  \* first write, then sleep
          /\ UNCHANGED <<initFut, hgi, queue>>
     ELSE /\ phase' = "connected" /\ initFut' = "none" /\ hgi' = NoId /\ queue' = Append(queue, "MADE")
          /\ UNCHANGED sent
  /\ UNCHANGED <<made, delivered, rxd, epoch, ctx, escaped>>

(* the sleep after a write is over *)
Wake ==
  /\ phase = "sleeping"
  /\ IF initFut = "echo"
     THEN /\ phase' = "connected" /\ queue' = Append(queue, "MADE") /\ UNCHANGED <<sent, initFut, hgi>>
     ELSE IF sent < MaxTrys
     THEN /\ sent' = sent + 1 /\ UNCHANGED <<phase, initFut, hgi, queue>>         \* write again, sleep again
     ELSE /\ phase' = "connected" /\ initFut' = "none" /\ hgi' = NoId /\ queue' = Append(queue, "MADE")
          /\ UNCHANGED sent
  /\ UNCHANGED <<made, delivered, rxd, epoch, ctx, escaped>>

(* the reader produced a valid packet *)
Rx(k) ==
  /\ phase # "closed"
  /\ Len(rxd) < MaxRx
  /\ rxd' = Append(rxd, k)
  /\ queue' = Append(queue, k)
  /\ IF initFut = "pend" /\ k = "sigecho" /\ sent > 0
     THEN initFut' = "echo" /\ hgi' = Gwy
     ELSE UNCHANGED <<initFut, hgi>>
  /\ UNCHANGED <<phase, sent, made, delivered, epoch, ctx, escaped>>

(* the event loop runs the oldest queued handle *)
Deliver ==
  /\ queue # <<>>
  /\ queue' = Tail(queue)
  /\ LET h == Head(queue) IN
       CASE h = "MADE" -> /\ made' = Append(made, hgi) /\ ctx' = "Idle"         \* PortProtocol.connection_made(ramses=True)
                          /\ UNCHANGED <<delivered, escaped>>
         [] h = "LOST" -> /\ ctx' = "Inactive"                                  \* PortProtocol.connection_lost
                          /\ UNCHANGED <<made, delivered, escaped>>
         [] OTHER      -> /\ delivered' = Append(delivered, h)                  \* PortProtocol.pkt_received: the message
                          /\ escaped' = IF StrictInactive /\ ctx = "Inactive" /\ h \notin Puzzle   \* ... then the context
                                        THEN escaped + 1 ELSE escaped
                          /\ UNCHANGED <<made, ctx>>
  /\ UNCHANGED <<phase, sent, initFut, hgi, rxd, epoch>>

(* the transport the protocol has been told about is closed / its port dies *)
Lose ==
  /\ phase = "connected" /\ Len(made) = 1
  /\ phase' = "closed"
  /\ queue' = Append(queue, "LOST")
  /\ UNCHANGED <<sent, initFut, hgi, made, delivered, rxd, epoch, ctx, escaped>>

(* a re-connect: the protocol (told of the loss) gets a new transport *)
Reopen ==
  /\ phase = "closed" /\ queue = <<>> /\ epoch < MaxEpochs
  /\ epoch' = epoch + 1
  /\ phase' = "start" /\ sent' = 0 /\ initFut' = "pend" /\ hgi' = NoId /\ made' = <<>>
  /\ UNCHANGED <<queue, delivered, rxd, ctx, escaped>>

Next == Begin \/ Wake \/ Deliver \/ Lose \/ Reopen \/ \E k \in Kinds : Rx(k)
Spec == Init /\ [][Next]_vars /\ WF_vars(Begin) /\ WF_vars(Wake) /\ WF_vars(Deliver)

-----------------------------------------------------------------------------
TypeOK == /\ phase \in {"start", "sleeping", "connected", "closed"} /\ sent \in 0..MaxTrys
          /\ initFut \in {"pend", "echo", "none"} /\ hgi \in {NoId, Gwy} /\ Len(made) <= 1
          /\ epoch \in 1..MaxEpochs /\ ctx \in {"Inactive", "Idle"} /\ escaped \in Nat
          /\ \A i \in 1..Len(queue) : queue[i] \in Kinds \cup Marks

(* the protocol is told about each of its transports exactly once ... *)
MadeAtMostOnce == Len(made) <= 1
EventuallyMade == <>(Len(made) = 1)
(* ... with the id of the gateway iff the echo of the signature was seen in time, never a foreign id *)
IdIsTheEchoes == Len(made) = 1 =>
    made[1] = (IF initFut = "echo" THEN Gwy ELSE NoId)
ReportedIdStable == Len(made) = 1 => hgi = made[1]
(* a signature is only written while not connected, at most MaxTrys of them *)
SigBudget == sent <= MaxTrys /\ (~Sending => sent = 0)
(* reception does not wait for the connection: every packet the reader produced reaches the protocol, once, in
   order, whatever the phase (C01: "frames delivered depend only on the bytes received") *)
DeliveredIsPrefix == /\ Len(delivered) + Len(Pkts(queue)) = Len(rxd)
                     /\ delivered \o Pkts(queue) = rxd
EventuallyAllDelivered == <>[](queue = <<>>)
(* C01 a2: whatever the phase of the connection - never connected, connected, lost, being re-connected - nothing
   leaves protocol.pkt_received *)
NoEscape == escaped = 0
(* the sender's context follows the callbacks (Idle only between a connection_made and the next connection_lost) *)
CtxTracksConnection == /\ ctx = "Idle" => Len(made) = 1
                       /\ (phase = "closed" /\ queue = <<>>) => ctx = "Inactive"
=============================================================================

---------------------------- MODULE TransportLife ----------------------------
(***************************************************************************)
(* The connection phase of ramses_tx.transport.PortTransport and what the  *)
(* reader does with packets meanwhile (transport.py: __init__,             *)
(* _create_connection.connect_with_signature, _pkt_read, _make_connection, *)
(* _FullTransport._pkt_read), one action per coroutine step / callback:    *)
(*                                                                         *)
(*   connect_with_signature:                                               *)
(*     loop (at most MaxTrys times):  write the signature frame (a 7FFF    *)
(*         puzzle packet with a payload of its own);  sleep GAP;           *)
(*         if _init_fut is done: _make_connection(src of the echo); stop   *)
(*     gave up: _init_fut.set_result(None); _make_connection(None)         *)
(*   _pkt_read(pkt)  (every valid packet the reader produces):             *)
(*     if _init_fut is not done and pkt is the echo of the signature:      *)
(*         extra[active_hgi] = pkt.src.id; _init_fut.set_result(pkt)       *)
(*     call_soon(protocol.pkt_received, pkt)     -- whatever the phase     *)
(*   _make_connection(id): extra[active_hgi] = id;                         *)
(*         call_soon(protocol.connection_made, transport)                  *)
(*                                                                         *)
(* Read-only transports (disable_sending) connect at once with no id.      *)
(*                                                                         *)
(* The environment chooses when (between which signature writes) which     *)
(* packets arrive: the gateway's echo of the signature (its source is the  *)
(* gateway's real id), other traffic, a *foreign* puzzle packet (another   *)
(* gateway's signature: same code, other payload), or nothing.             *)
(***************************************************************************)
EXTENDS Naturals, Sequences, FiniteSets, TLC

CONSTANTS MaxTrys,      \* _SIGNATURE_MAX_TRYS
          Sending,      \* BOOLEAN: FALSE = disable_sending (connect_sans_signature)
          MaxRx         \* bound on packets the environment delivers

Kinds == {"sigecho", "foreignsig", "other"}
NoId  == "none"
Gwy   == "gwy"          \* the id the echo of our signature comes from

VARIABLES phase,        \* "start" | "signing" | "sleeping" | "connected"
          sent,         \* signatures written so far
          initFut,      \* "pend" | "echo" | "none"      (_init_fut)
          hgi,          \* extra[active_hgi]: NoId or an id
          made,         \* sequence of ids connection_made was called with (must end up with exactly one)
          queue,        \* packets handed to call_soon(protocol.pkt_received), not yet run
          delivered,    \* packets the protocol has been given, in order
          rxd           \* packets the reader produced, in order (ghost: what must be delivered)
vars == <<phase, sent, initFut, hgi, made, queue, delivered, rxd>>

Init == /\ phase = "start" /\ sent = 0 /\ initFut = "pend" /\ hgi = NoId /\ made = <<>>
        /\ queue = <<>> /\ delivered = <<>> /\ rxd = <<>>

(* the task's first step *)
Begin ==
  /\ phase = "start"
  /\ IF Sending
     THEN /\ phase' = "sleeping" /\ sent' = 1                  \* first write, then sleep
          /\ UNCHANGED <<initFut, hgi, made>>
     ELSE /\ phase' = "connected" /\ initFut' = "none" /\ hgi' = NoId /\ made' = Append(made, NoId)
          /\ UNCHANGED sent
  /\ UNCHANGED <<queue, delivered, rxd>>

(* the sleep after a write is over *)
Wake ==
  /\ phase = "sleeping"
  /\ IF initFut = "echo"
     THEN /\ phase' = "connected" /\ made' = Append(made, hgi) /\ UNCHANGED <<sent, initFut, hgi>>
     ELSE IF sent < MaxTrys
     THEN /\ sent' = sent + 1 /\ UNCHANGED <<phase, initFut, hgi, made>>          \* write again, sleep again
     ELSE /\ phase' = "connected" /\ initFut' = "none" /\ hgi' = NoId /\ made' = Append(made, NoId)
          /\ UNCHANGED sent
  /\ UNCHANGED <<queue, delivered, rxd>>

(* the reader produced a valid packet *)
Rx(k) ==
  /\ Len(rxd) < MaxRx
  /\ rxd' = Append(rxd, k)
  /\ queue' = Append(queue, k)
  /\ IF initFut = "pend" /\ k = "sigecho" /\ sent > 0
     THEN initFut' = "echo" /\ hgi' = Gwy
     ELSE UNCHANGED <<initFut, hgi>>
  /\ UNCHANGED <<phase, sent, made, delivered>>

(* the event loop runs a queued protocol.pkt_received *)
Deliver ==
  /\ queue # <<>>
  /\ delivered' = Append(delivered, Head(queue)) /\ queue' = Tail(queue)
  /\ UNCHANGED <<phase, sent, initFut, hgi, made, rxd>>

Next == Begin \/ Wake \/ Deliver \/ \E k \in Kinds : Rx(k)
Spec == Init /\ [][Next]_vars /\ WF_vars(Begin) /\ WF_vars(Wake) /\ WF_vars(Deliver)

-----------------------------------------------------------------------------
TypeOK == /\ phase \in {"start", "signing", "sleeping", "connected"} /\ sent \in 0..MaxTrys
          /\ initFut \in {"pend", "echo", "none"} /\ hgi \in {NoId, Gwy} /\ Len(made) <= 1

(* the protocol is told about its transport exactly once ... *)
MadeAtMostOnce == Len(made) <= 1
EventuallyMade == <>(Len(made) = 1)
(* ... with the id of the gateway iff the echo of the signature was seen in time, never a foreign id *)
IdIsTheEchoes == Len(made) = 1 =>
    made[1] = (IF initFut = "echo" THEN Gwy ELSE NoId)
ReportedIdStable == Len(made) = 1 => hgi = made[1]
(* a signature is only written while not connected, at most MaxTrys of them *)
SigBudget == sent <= MaxTrys /\ (~Sending => sent = 0)
(* reception does not wait for the connection: every packet the reader produced reaches the protocol, once, in
   order, whatever the phase (C01: "frames delivered depend only on the bytes received") *)
DeliveredIsPrefix == /\ Len(delivered) + Len(queue) = Len(rxd)
                     /\ delivered \o queue = rxd
EventuallyAllDelivered == <>[](queue = <<>>)
=============================================================================

\* any arrival order, no purge: expected to violate FixA (candidate for replay on the code)
SPECIFICATION BSpec
CONSTANTS
  Src = {"c1"}
  Zone = {"z0", "z1"}
  Code = {1, 2, 3}
  TimeCode = 3
  SchedCode = 2
  Times = {1, 2}
  PurgeOnRead = FALSE
  Chrono = FALSE
  MaxMsgs = 3
VIEW View
INVARIANT FixA
INVARIANT NoGain
INVARIANT ContentC
INVARIANT UniqueT

SPECIFICATION Spec
CONSTANT Quick = FALSE
INVARIANT I_RefusedReachesNobody
INVARIANT I_SourceFirstOnce
INVARIANT I_DstOnlyIfFakeable
INVARIANT I_Reduced
INVARIANT I_FilteredSource
INVARIANT I_FilteredDst
INVARIANT I_DstNeedsEavesdrop
INVARIANT I_CreatedThoughRefused
CHECK_DEADLOCK FALSE

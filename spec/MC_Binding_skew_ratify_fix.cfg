SPECIFICATION Spec
CONSTANTS
  Fix = TRUE
  Ratify = TRUE
  DeliveryChoices <- DC_two
  EchoChoices <- EC_one
  ThirdChoices <- TC_none
  Presence <- P_both
  SkewChoices <- SK_all
INVARIANT TypeOK
INVARIANT SuccessUnderDuplicates
INVARIANT EndsProperly
INVARIANT NotBindingAfterwards
INVARIANT RetryWorks
INVARIANT ScenarioOut
CHECK_DEADLOCK TRUE

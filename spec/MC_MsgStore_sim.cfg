\* behaviours for the conformance harness (zone shape: arrays + singles); run with -simulate
SPECIFICATION SimSpec
CONSTANTS
  Ctx = {1, 2, 3}
  Code = {1, 2, 3}
  Val = {1, 2}
  Attr = {"sp", "md", "tp"}
  CodesOf <- CodesOfDef
  LifeS <- LifeSDef
  LifeA <- LifeADef
  Grace = 2
  StaleFirstRead = TRUE
  InFlight = FALSE
  MaxEvents = 14
  MaxMsgs = 14
INVARIANT FreshA
INVARIANT NoInvention
INVARIANT ThresholdB
INVARIANT ThresholdC
INVARIANT ReadE
INVARIANT StoreIsLast

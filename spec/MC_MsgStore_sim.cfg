\* behaviours for the conformance harness (zone shape: arrays + singles); run with -simulate
\* StaleFirstRead = FALSE: the library as it is since 2f05aca (an expired message is not reported, not even once);
\* StampSteps: equal stamps (two frames of one serial read) and stamps that step back (clock put back)
SPECIFICATION SimSpec
CONSTANTS
  Ctx = {1, 2, 3}
  Code = {1, 2, 3}
  Val = {1, 2}
  Attr = {"sp", "md", "tp"}
  CodesOf <- CodesOfDef
  LifeS <- LifeSDef
  LifeA <- LifeADef
  Grace = 2
  StaleFirstRead = FALSE
  InFlight = FALSE
  StampSteps <- StepsAnyDef
  CrossCodeOpen = TRUE
  MaxEvents = 14
  MaxMsgs = 14
INVARIANT FreshA
INVARIANT NoInvention
INVARIANT ThresholdB
INVARIANT ThresholdC
INVARIANT ReadE
INVARIANT StoreIsLast

SPECIFICATION Spec
CONSTANTS Depth = 4  MaxIdx = 62  MaxTs = 6  MaxEv = 7
  Starts <- Starts0  Limits <- LimitsQ  Kinds <- KindsBase  Repair = FALSE  PushOnNew = FALSE  KnownTrips <- TripsOrig
CONSTRAINT Bound
INVARIANT TripsKnown
CHECK_DEADLOCK FALSE

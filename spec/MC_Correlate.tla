---- MODULE MC_Correlate ----
(* Bounded instance of Correlate: every command of every context family over small context
   domains x source kinds x gateway ids, with its echo, proper reply and every one-dimension
   near miss; one TLC state per *scenario* (sequence of packets arriving after one transmission).

   TLC checks here (on the model, i.e. on the header scheme as transcribed):
     EchoRecognised / ReplyRecognised / NearMissRejected at header level,
     FsmA / FsmB / FsmC on the outcome the FSM model computes,
   modulo the recorded trip of the scheme (KnownTrip: a 1FC9 accept cannot tell who confirms).
   The states are dumped; checks/c06.py concretises every one of them into real frames, runs the
   real Command/Packet/PortProtocol on it and hands the observations to CorrelateTrace. *)
EXTENDS Correlate

CONSTANT Deep          \* FALSE = quick tier domains, TRUE = thorough tier domains

GW1 == "18:111111"
GW3 == "18:262143"
OGW == "18:222222"     \* somebody else's gateway
CTL == "01:145038"
OTB == "10:048122"
RND == "34:021943"
BDR == "13:049798"
FAN == "32:155617"
IMP == "30:111111"     \* a device the gateway impersonates (src of the command)

OtherDev(id) == CASE id = CTL -> "01:145039" [] id = OTB -> "10:048123" [] id = RND -> "34:021944"
                  [] id = BDR -> "13:049799" [] id = FAN -> "32:155618" [] id = IMP -> "30:111112"
                  [] id = "23:100224" -> "23:100225" [] id = "07:045960" -> "07:045961" [] id = "37:155617" -> "37:155618"
                  [] id = GW1 -> OGW [] id = GW3 -> OGW [] id = HGI -> OGW [] OTHER -> "01:999999"

HexD == <<"0","1","2","3","4","5","6","7","8","9","A","B","C","D","E","F">>
Hex2 == {HexD[a] \o HexD[b] : a, b \in 1..16}

ZoneIdx == IF Deep THEN {"00","01","02","03","04","05","06","07","08","09","0A","0B","0F"} ELSE {"00","01","0B"}
DhwIdx  == {"00","01"}
DomIdx  == {"00","F9","FA","FC"}
FragNo  == IF Deep THEN {"01","02","03","04","0A"} ELSE {"01","02","03"}
LogIdx  == IF Deep THEN {HexD[a] \o HexD[b] : a \in 1..4, b \in 1..16} ELSE {"00","01","2A","3F"}
MsgId   == IF Deep THEN Hex2 ELSE {"00","05","11","73","FF"}
Types05 == IF Deep THEN {"00","04","08","09","0A","0B","0D","0E","0F","10","11"} ELSE {"00","08","0D","11"}
RolesC  == IF Deep THEN {"00","04","08","09","0A","0B","0D","0E","0F","10","11"} ELSE {"00","04","08","0D","0F"}

Srcs == {HGI, GW1, IMP}                                   \* placeholder / explicit real id / impersonation
Gws(src) == IF src = GW1 THEN {GW1} ELSE IF Deep THEN {GW1, HGI, GW3} ELSE {GW1, HGI}

F(verb, code, src, dst, fam, idx, sub) ==
  [verb |-> verb, code |-> code, src |-> src, dst |-> dst, fam |-> fam, idx |-> idx, sub |-> sub]

NoneVC   == {<<RQ,"1F09">>, <<RQ,"313F">>, <<W_,"313F">>, <<RQ,"2E04">>, <<W_,"2E04">>, <<RQ,"0006">>,
             <<RQ,"0100">>, <<RQ,"10E0">>}
ZoneVC   == {<<RQ,"30C9">>, <<RQ,"2309">>, <<W_,"2309">>, <<RQ,"2349">>, <<W_,"2349">>, <<RQ,"000A">>,
             <<W_,"000A">>, <<RQ,"12B0">>, <<RQ,"0004">>, <<W_,"0004">>, <<RQ,"1030">>, <<W_,"1030">>,
             <<RQ,"0016">>}
DhwVC    == {<<RQ,"1F41">>, <<W_,"1F41">>, <<RQ,"10A0">>, <<W_,"10A0">>, <<RQ,"1260">>}

PRG == "23:100224"
(* Deep: every other code the schema lets one request with a bare "00" (context family none), addressed to a
   device class that answers it (ramses.py CODES_BY_DEV_SLUG) *)
MoreNone == IF ~Deep THEN {} ELSE
       {<<c, OTB>> : c \in {"0150", "042F", "1081", "1098", "10B0", "10E1", "12F0", "1300", "1FD0", "22D9", "2400", "2401",
                             "2410", "2420", "3200", "3210", "3221", "3223", "3EF0", "10A0", "1260", "1290"}}
  \cup {<<c, FAN>> : c \in {"10D0", "1470", "22F1", "22F2", "22F4", "22F7", "22F8", "22E0", "22E5", "22E9", "2210", "313E",
                             "3120", "3222", "10E0", "1F09", "313F"}}
  \cup {<<"0002", CTL>>, <<"1290", CTL>>, <<"3EF1", BDR>>, <<"0016", BDR>>, <<"1090", PRG>>, <<"3EF1", PRG>>}

Cmds ==
  LET S == Srcs IN
       {F(vc[1], vc[2], s, CTL, "none", "", "")    : vc \in NoneVC, s \in S}
  \cup {F(RQ, x[1], s, x[2], "none", "", "")        : x \in MoreNone, s \in S}
  \cup {F(vc[1], vc[2], s, CTL, "simple", i, "")   : vc \in ZoneVC, s \in S, i \in ZoneIdx}
  \cup {F(vc[1], vc[2], s, CTL, "simple", i, "")   : vc \in DhwVC,  s \in S, i \in DhwIdx}
  \cup {F(RQ, "0008", s, CTL, "simple", i, "")     : s \in S, i \in DomIdx}
  \cup {F(v,  "1100", s, CTL, "simple", "FC", "")  : v \in {RQ, W_}, s \in S}
  \cup {F(RQ, "0008", s, BDR, "none", "", "")      : s \in S}
  \cup {F(RQ, "1100", s, BDR, "none", "", "")      : s \in S}
  \cup {F(RQ, "0005", s, CTL, "c4", "00", t)       : s \in S, t \in Types05}
  \cup {F(RQ, "000C", s, CTL, "c4", i, r)          : s \in S, i \in {"00","01"}, r \in RolesC}
  \cup {F(v,  "0404", s, CTL, "frag", i, n)        : v \in {RQ, W_}, s \in S, i \in {"00","01","HW"}, n \in FragNo}
  \cup {F(RQ, "0418", s, CTL, "log", "", n)        : s \in S, n \in LogIdx}
  \cup {F(RQ, "3220", s, OTB, "msg", "", m)        : s \in S, m \in MsgId}
       \* 1FC9: offer (self addressed), accept (W), confirm (I to the acceptor)
  \cup {F(I_, "1FC9", s, s,   "bind", "", "")      : s \in {RND}}        \* (an offer is an " I", not a request/write: the placeholder variant is left open, see NOTES)
  \cup {F(W_, "1FC9", s, RND, "bind", "", "")      : s \in {CTL, HGI}}
  \cup {F(I_, "1FC9", s, CTL, "bind", "", "")      : s \in {RND, HGI}}
       \* announcements (no reply expected): self addressed I, addressed I, RP
  \cup {F(I_, "30C9", RND, RND, "none", "", ""), F(I_, "1260", "07:045960", "07:045960", "none", "", ""),
        F(I_, "3EF0", BDR, BDR, "none", "", ""), F(I_, "22F1", "37:155617", FAN, "none", "", ""),
        F(RP, "3EF1", BDR, GW1, "none", "", ""), F(I_, "7FFF", HGI, ALL, "none", "", ""),
        F(W_, "22F7", "37:155617", FAN, "none", "", "")}

(* a frame of another code that would carry the same context string, where one exists *)
AltCode(f) ==
  CASE f.fam = "none"   -> [f EXCEPT !.code = IF f.code = "1F09" THEN "313F" ELSE "1F09"]
    [] f.fam = "simple" -> IF f.idx \in {"F9","FA","FC"}
                           THEN [f EXCEPT !.code = IF f.code = "0008" THEN "0009" ELSE "0008"]
                           ELSE [f EXCEPT !.code = IF f.code = "30C9" THEN "2309" ELSE "30C9"]
    [] f.fam = "c4"     -> [f EXCEPT !.code = IF f.code = "0005" THEN "000C" ELSE "0005"]
    [] f.fam = "frag"   -> [f EXCEPT !.code = "000C", !.fam = "c4", !.idx = IF f.idx = "HW" THEN "00" ELSE f.idx]
    [] f.fam = "log"    -> [f EXCEPT !.code = "3220", !.fam = "msg"]
    [] f.fam = "msg"    -> [f EXCEPT !.code = "0418", !.fam = "log"]
    [] f.fam = "bind"   -> [f EXCEPT !.code = "1F09", !.fam = "none"]

AltVerb(v) == CASE v = RQ -> W_ [] v = W_ -> RQ [] v = RP -> I_ [] v = I_ -> RP

AnotherOf(S, x) == CHOOSE y \in S : y # x

(* context alternatives: exactly one component of the context changed *)
AltCtx(f) ==
  CASE f.fam = "simple" -> {<<"ctx.idx", [f EXCEPT !.idx = j]>> :
                              j \in (IF f.idx \in DomIdx \ {"00"} THEN (IF f.code = "1100" THEN DomIdx \ {"00"} ELSE DomIdx) ELSE IF f.code \in {"1F41","10A0","1260"} THEN DhwIdx ELSE ZoneIdx) \ {f.idx}}
    [] f.fam = "c4"     -> {<<"ctx.idx", [f EXCEPT !.idx = IF f.idx = "00" THEN "01" ELSE "00"]>>}
                           \cup {<<"ctx.sub", [f EXCEPT !.sub = t]>> : t \in (IF f.code = "0005" THEN Types05 ELSE RolesC) \ {f.sub}}
    [] f.fam = "frag"   -> {<<"ctx.idx", [f EXCEPT !.idx = j]>> : j \in {"00","01","HW"} \ {f.idx}}
                           \cup {<<"ctx.sub", [f EXCEPT !.sub = n]>> : n \in FragNo \ {f.sub}}
    [] f.fam = "log"    -> {<<"ctx.sub", [f EXCEPT !.sub = n]>> : n \in LogIdx \ {f.sub}}
    [] f.fam = "msg"    -> {<<"ctx.sub", [f EXCEPT !.sub = m]>> : m \in MsgId \ {f.sub}}
    [] f.fam = "none" /\ f.code \notin Idx0Free /\ f.idx = "" /\ f.verb \in {RQ, RP}
                        -> {<<"ctx.idx", [f EXCEPT !.idx = j]>> : j \in {"01", "21"}}    \* an index where none belongs
    [] OTHER            -> {}

(* bound the context alternatives per case: at most two per component (all of them when Deep and small) *)
Pick(S) == IF Cardinality(S) <= 2 THEN S
           ELSE LET a == CHOOSE x \in S : TRUE
                    b == CHOOSE x \in S \ {a} : TRUE IN {a, b}
AltCtxB(f) == LET A == AltCtx(f) IN
              Pick({x \in A : x[1] = "ctx.idx"}) \cup Pick({x \in A : x[1] = "ctx.sub"})

Pk(kind, dim, f) == [kind |-> kind, dim |-> dim, f |-> f]

Addressed(c) == c.verb \in {RQ, W_} /\ c.src # c.dst       \* the command names a responding device

NearEchoes(c, gw) ==
  LET e == EchoOf(c, gw) IN
       {Pk("nm", "code", AltCode(e)), Pk("nm", "verb", [e EXCEPT !.verb = AltVerb(e.verb)])}
  \cup {Pk("nm", x[1], x[2]) : x \in AltCtxB(e)}
  \cup (IF c.src = c.dst
        THEN {Pk("open", "src", [e EXCEPT !.src = OtherDev(e.src), !.dst = OtherDev(e.src)])}
        ELSE {Pk(IF Addressed(c) THEN "nm" ELSE "open", "dst", [e EXCEPT !.dst = OtherDev(e.dst)]),
              Pk("open", "src", [e EXCEPT !.src = OtherDev(e.src)])})

HasRx(c) == Rx(c) # NoHdr

NearReplies(c, gw) ==
  IF ~HasRx(c) THEN {} ELSE
  LET r == ReplyOf(c, gw, CTL) IN
       {Pk("nm", "code", AltCode(r)), Pk("nm", "verb", [r EXCEPT !.verb = AltVerb(r.verb)])}
  \cup {Pk("nm", x[1], x[2]) : x \in AltCtxB(r)}
  \cup {Pk("open", "dst", [r EXCEPT !.dst = OtherDev(r.dst)])}
  \cup (IF c.code = "1FC9" /\ c.src = c.dst THEN {}            \* an offer is answered by whoever accepts
        ELSE {Pk("nm", "src", [r EXCEPT !.src = OtherDev(r.src)])})

Scenarios(c, gw) ==
  LET e  == Pk("echo", "", EchoOf(c, gw))
      r  == Pk("reply", "", ReplyOf(c, gw, CTL))
      NE == NearEchoes(c, gw)
      NR == NearReplies(c, gw) IN
       {<<FALSE, <<e>>>>}
  \cup {<<FALSE, <<n>>>> : n \in NE}
  \cup {<<FALSE, <<n, e>>>> : n \in {x \in NE : x.kind = "nm"}}
  \cup (IF ~HasRx(c) THEN {} ELSE
            {<<TRUE, <<e, r>>>>, <<FALSE, <<r, e>>>>, <<TRUE, <<r, e>>>>, <<TRUE, <<e, e, r>>>>}
       \cup {<<TRUE, <<e, n>>>> : n \in NR}
       \cup {<<TRUE, <<n, e, r>>>> : n \in {x \in NR : x.kind = "nm"}}
       \cup {<<TRUE, <<q[1], e, q[2], r>>>> :
                 q \in {z \in {x \in NE : x.kind = "nm"} \X {x \in NR : x.kind = "nm"} : z[1].dim = z[2].dim}}
       \cup (IF c.fam = "log" THEN
               LET z == Pk("null", "", [ReplyOf(c, gw, CTL) EXCEPT !.sub = "00"]) IN {<<TRUE, <<e, z>>>>}
             ELSE {}))

VARIABLES c, gw, wait, ps
vars == <<c, gw, wait, ps>>

Init == /\ c \in Cmds
        /\ gw \in Gws(c.src)
        /\ \E s \in Scenarios(c, gw) : wait = s[1] /\ ps = s[2]
Next == UNCHANGED vars
Spec == Init /\ [][Next]_vars

----------------------------------------------------------------------------------------------
(* model-level packets: what the matchers see *)
MP(p) == [kind |-> p.kind, hdr |-> Hdr(p.f), src |-> p.f.src, dst |-> p.f.dst, null |-> (p.kind = "null")]
MPs   == [k \in 1..Len(ps) |-> MP(ps[k])]
MRet  == Returned(MPs, Hdr(c), Rx(c), c.src, gw, wait)

(* The two places where the header scheme cannot keep the promise, both in the 1FC9 special cases
   of pkt_header() (recorded findings, see checks/c06_NOTES.md):
   T1  a 1FC9 header carries a single device id (the addressee), so the confirm ( I) awaited after
       an accept ( W) is matched whoever sends it                 -> C06c:*:bind/W:nm:src
   T2  the rx_header of a 1FC9 accept is built from the command's *own* source id and is never
       placeholder-substituted, so an accept sent as 18:000730 never recognises its confirm
                                                                   -> C06b:*:bind/W:placeholder *)
TripT1(p)    == c.code = "1FC9" /\ c.verb = W_ /\ p.kind = "nm" /\ p.dim = "src" /\ p.f.verb = I_
TripT2       == c.code = "1FC9" /\ c.verb = W_ /\ c.src = HGI /\ gw # HGI
NoT1In(s)    == \A k \in 1..Len(s) : ~TripT1(s[k])

EchoRecognised   == \A k \in 1..Len(ps) : ClauseA_Hdr(Hdr(c), MPs[k], gw)
ReplyRecognised  == TripT2 \/ \A k \in 1..Len(ps) : ClauseB_Hdr(Rx(c), MPs[k])
NearMissRejected == \A k \in 1..Len(ps) : (TripT1(ps[k]) /\ ~TripT2) \/ ClauseC_Hdr(Hdr(c), Rx(c), MPs[k], gw)
FsmA == ClauseA_Fsm(MPs, Rx(c), wait, MRet)
FsmB == (NoT1In(ps) /\ ~TripT2) => ClauseB_Fsm(MPs, Rx(c), wait, MRet)
FsmC == (NoT1In(ps) \/ TripT2) => ClauseC_Fsm(MPs, MRet)
(* the trips are real in the model (so that the exemptions above are not vacuous) *)
TripIsReal == /\ (Len(ps) = 2 /\ TripT1(ps[2]) /\ ~TripT2) => (MRet = 2)
              /\ (TripT2 /\ wait /\ Len(ps) = 2 /\ ps[1].kind = "echo" /\ ps[2].kind = "reply") => (MRet = 0)
(* the scheme is deterministic about open dimensions too: recorded for the drift comparison only *)
TypeOK == /\ c.fam \in Families /\ wait \in BOOLEAN /\ Len(ps) \in 1..4
          /\ \A k \in 1..Len(ps) : ps[k].kind \in {"echo", "reply", "null", "nm", "open"}
====

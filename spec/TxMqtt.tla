-------------------------------- MODULE TxMqtt --------------------------------
(* C11c - the token bucket of MqttTransport.write_frame, one coroutine per concurrent writer:

     Call     top-up (_num_tokens, capped at the shrinking _max_tokens);
              tokens < 1 - rate  ->  the write is dumped (returns without publishing)
              else reserve one token at once (tokens may go negative), shrink the burst allowance,
                   tokens < 0 -> sleep(-tokens / rate)  else publish now
     Wake     the debt is paid -> publish

   Token units of TxMath (one token = Win * 10000 units); ticks of 0.1 ms.  The contract's own (shadow) bucket is recomputed from the
   publishes alone, exactly as TxTrace does on recorded executions.                            *)
EXTENDS TxMath, Sequences, FiniteSets, TLC

CONSTANTS MaxTok, Win,            \* MAX_TRANSMIT_RATE_TOKENS, DUTY_CYCLE_DURATION (s)
          Writers, InitTok, AdvSteps, CallUntil, MaxTime

VARIABLES now, tok, mx, ts, pc, wake, callT, callSeq, pubs, stok, smx, lastP, drops

vars == <<now, tok, mx, ts, pc, wake, callT, callSeq, pubs, stok, smx, lastP, drops>>

One == OneTok(Win)

Init == /\ now = 0 /\ tok \in InitTok /\ ts = 0
        /\ mx = IF tok > MaxTok * One THEN 2 * MaxTok * One ELSE MaxTok * One
        /\ pc = [w \in Writers |-> "new"] /\ wake = [w \in Writers |-> 0]
        /\ callT = [w \in Writers |-> 0] /\ callSeq = <<>>
        /\ pubs = <<>> /\ stok = tok /\ smx = mx /\ lastP = 0
        /\ drops = <<>>

Publish(w) ==
    LET s == Min(stok + TokRefill(MaxTok, Win, now - lastP), smx) - One IN
    /\ pubs' = Append(pubs, [id |-> w, t |-> now, stok |-> s, wait |-> now - (IF pc[w] = "new" THEN now ELSE callT[w])])
    /\ stok' = s /\ smx' = TokNewMax(smx, s, MaxTok, Win) /\ lastP' = now

Call(w) ==
    /\ pc[w] = "new" /\ now <= CallUntil
    /\ \A v \in Writers : v < w => pc[v] # "new"
    /\ callSeq' = Append(callSeq, w) /\ callT' = [callT EXCEPT ![w] = now]
    /\ ts' = now
    /\ LET t1 == TokTopUp(tok, mx, MaxTok, Win, now - ts) IN
       IF TokDrops(t1, MaxTok, Win)
         THEN /\ tok' = t1 /\ pc' = [pc EXCEPT ![w] = "dropped"]
              \* what the contract's bucket could have paid at this instant, net of earlier reservations
              /\ drops' = Append(drops, Min(stok + TokRefill(MaxTok, Win, now - lastP), smx)
                                          - One * Cardinality({v \in Writers : pc[v] = "sleep"}))
              /\ UNCHANGED <<mx, wake, pubs, stok, smx, lastP>>
         ELSE LET t2 == t1 - One IN
              /\ tok' = t2 /\ mx' = TokNewMax(mx, t2, MaxTok, Win) /\ drops' = drops
              /\ IF t2 < 0
                   THEN /\ wake' = [wake EXCEPT ![w] = now + TokSleepTicks(t2, MaxTok)]
                        /\ pc' = [pc EXCEPT ![w] = "sleep"]
                        /\ UNCHANGED <<pubs, stok, smx, lastP>>
                   ELSE /\ pc' = [pc EXCEPT ![w] = "done"] /\ wake' = wake /\ Publish(w)
    /\ UNCHANGED now

Wake(w) ==
    /\ pc[w] = "sleep" /\ wake[w] <= now
    /\ pc' = [pc EXCEPT ![w] = "done"] /\ Publish(w)
    /\ UNCHANGED <<now, tok, mx, ts, wake, callT, callSeq, drops>>

Urgent == \E w \in Writers : pc[w] = "sleep" /\ wake[w] <= now
NextDeadline == LET D == {MaxTime} \cup {wake[w] : w \in {v \in Writers : pc[v] = "sleep"}}
                IN CHOOSE d \in D : \A e \in D : d <= e
CanCall == \E w \in Writers : pc[w] = "new"
Advance ==
    /\ ~Urgent /\ now < MaxTime
    /\ (\E w \in Writers : pc[w] = "sleep") \/ (CanCall /\ now < CallUntil)
    /\ \E t \in {NextDeadline} \cup {now + d : d \in (IF CanCall THEN AdvSteps ELSE {})} :
         /\ t > now /\ t <= NextDeadline
         /\ (t = NextDeadline /\ (\E w \in Writers : pc[w] = "sleep")) \/ t <= CallUntil
         /\ now' = t
    /\ UNCHANGED <<tok, mx, ts, pc, wake, callT, callSeq, pubs, stok, smx, lastP, drops>>

Next == (\E w \in Writers : Call(w) \/ Wake(w)) \/ Advance
Spec == Init /\ [][Next]_vars

(* c: publishes never exceed the token allowance *)
WithinAllowance == \A i \in 1..Len(pubs) : pubs[i].stok >= 0
(* c: an over-budget write is dropped rather than queued without bound *)
QueueBounded == Cardinality({w \in Writers : pc[w] = "sleep"}) <= 2
WaitBounded  == \A i \in 1..Len(pubs) : pubs[i].wait <= 10000 + 1
(* d: a write is dumped only when the budget cannot pay for it *)
DropOnlyOverBudget == \A i \in 1..Len(drops) : drops[i] < One
CallIdx(w) == CHOOSE i \in 1..Len(callSeq) : callSeq[i] = w
InOrder == \A i \in 1..Len(pubs), j \in 1..Len(pubs) : i < j => CallIdx(pubs[i].id) < CallIdx(pubs[j].id)
NoDup == \A i \in 1..Len(pubs), j \in 1..Len(pubs) : i # j => pubs[i].id # pubs[j].id
AllAnswered == (now = MaxTime /\ ~Urgent) => \A w \in Writers : pc[w] # "sleep"
CodeBucketBounded == tok >= 0 - One - MaxTok * 10000 /\ tok <= mx /\ mx >= MaxTok * One
=============================================================================

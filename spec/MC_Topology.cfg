\* 2 controllers, 2 zone indexes (max_zones 1: index 01 is out of range), 4 devices, eavesdropping on
CONSTANTS
  Ctls <- MCCtls2
  ZoneIds <- MCZones2
  ZNum <- MCZNum
  MaxZones = 1
  Devs <- MCDevs4
  PairDevs <- MCDevs4
  TypeOf <- MCTypeOf
  Classes = {"08", "11"}
  Eavesdrop = TRUE
  FakeDevs <- MCFake1
  MaxClaims = 40
SPECIFICATION Spec
VIEW GraphView
INVARIANT OnePlace
INVARIANT OneController
INVARIANT ZonesInRange
INVARIANT ZoneContent
PROPERTY NoSilentMove
PROPERTY NeverMoves

\* the proposed repair; a read-only gateway
SPECIFICATION BSpec
CONSTANTS
  TryFinally = TRUE
  CfgSending = TRUE
  CfgDisc = TRUE
  MaxOps = 4
VIEW View
INVARIANT AsBefore
INVARIANT RunningAtRestStrict

---------------------------- MODULE MC_Topology ----------------------------
(* Bounded instances of Topology.  Ids are real-looking so a history can be replayed as packets. *)
EXTENDS Topology

C1 == "01:000111"
C2 == "01:000222"
MCCtls2 == {C1, C2}
MCCtls1 == {C1}
MCZones3 == {"00", "01", "02"}
MCZones2 == {"00", "01"}
MCZNum == [z \in {"00", "01", "02", "03"} |->
             IF z = "00" THEN 0 ELSE IF z = "01" THEN 1 ELSE IF z = "02" THEN 2 ELSE 3]

THM == "34:000011"
TH2 == "22:000012"
TRV == "04:000021"
TR0 == "00:000022"
BDR == "13:000031"
BD2 == "13:000032"
DHW == "07:000041"
OTB == "10:000051"

MCTypeOf == [d \in {C1, C2, THM, TH2, TRV, TR0, BDR, BD2, DHW, OTB} |->
               IF d \in {C1, C2} THEN "CTL" ELSE IF d \in {THM, TH2} THEN "THM" ELSE IF d \in {TRV, TR0} THEN "TRV"
               ELSE IF d \in {BDR, BD2} THEN "BDR" ELSE IF d = DHW THEN "DHW" ELSE "OTB"]

MCDevs3 == {THM, TRV, BDR}
MCDevs4 == {THM, TRV, BDR, DHW}
MCDevs5 == {THM, TRV, BDR, DHW, C1}
MCDevs7 == {THM, TH2, TRV, TR0, BDR, BD2, DHW, OTB, C1}
MCDevs2 == {THM, TRV}
MCPair4 == {THM, TRV, BDR, C1}
MCDevsTC == {THM, TRV}
MCDevsTC3 == {THM, TRV, BDR}

\* devices the application asks to fake (thermostats and DHW sensors can be; for a TRV the call raises)
MCFake1 == {THM}
MCFake3 == {THM, TH2, DHW}
MCFakeTC == {THM, TRV}

\* the state without the history: exhaustive runs explore the graph space, not the history space
GraphView == <<zones, cls, sen, acts, dhw, app, par, ctl, rep>>
=============================================================================

SPECIFICATION Spec
CONSTANTS
  Zones = {1, 2}
  FixLock = FALSE
  FixAck = FALSE
  FixStale = FALSE
  ZlibDetects = TRUE
  MaxMain = 3
  MaxFaults = 0
  MaxBumps = 1
  MaxHeard = 1
  MaxAge = 1
  AllowSet = TRUE
  HeardStale = FALSE
  HeardAcks = FALSE
CONSTRAINT Bound
INVARIANT TypeOK
INVARIANT ResultAsOfRead
INVARIANT NeverMixed
CHECK_DEADLOCK TRUE
VIEW View

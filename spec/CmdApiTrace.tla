---- MODULE CmdApiTrace ----
(* Table validation for C03: every item is one call of a public constructor, performed on the real
   code (checks/c03.py) and recorded as

     [ ctor, args : sequence of [slot, tag, t, k, s, l, dom]       -- what was passed (from MC_CmdApi)
       reg   : the keys under which the code's CODE_API_MAP registers this constructor,
       built : the constructor returned a command (FALSE = it raised),
       verb, code : of the command built ("" if none),
       dec   : the library's own decoder (Message._from_cmd: schema regex + payload parser) accepted it,
       got   : sequence of [key, t, k, s]: what the decoder reports, numbers on the 0.01 grid ]

   TLC evaluates the clauses of CmdApi on it.  The verdict is one short string (TLC wraps printed
   tuples wider than 80 columns):  letters  a b d  = clause a / b / d fails,  m = the transcribed
   decision tables disagree with the code about refusing, k = the transcribed API map disagrees
   with the code's map (m, k: model drift, never a verdict), and
   ":<key>" = clause c fails for the wanted value <key>.                                         *)
EXTENDS CmdApi, Json, IOUtils

Traces == JsonDeserialize(IOEnv.TRACE_FILE)

VARIABLES tid, l, fail
vars == <<tid, l, fail>>

R == Traces[tid]

Judge ==
  LET miss == IF R.built /\ R.dec THEN MissingWants(R.ctor, R.args, R.got) ELSE {} IN
     (IF ClauseA(R) THEN "" ELSE "a")
  \o (IF ClauseB(R) THEN "" ELSE "b")
  \o (IF ClauseD(R) THEN "" ELSE "d")
  \o (IF TablesAgree(R) THEN "" ELSE "m")
  \o (IF MapAgrees(R) THEN "" ELSE "k")
  \o (IF miss = {} THEN "" ELSE ":" \o (CHOOSE w \in miss : TRUE).key)

Init == tid \in 1..Len(Traces) /\ l = 1 /\ fail = <<>>
Step == /\ l = 1
        /\ LET s == Judge IN fail' = IF s = "" THEN <<>> ELSE s
        /\ l' = 2 /\ UNCHANGED tid
Spec == Init /\ [][Step]_vars
Verdict == (l = 2) => PrintT(<<"VERDICT", tid, fail>>)
====

---- MODULE Correlate ----
(* C06 - request/reply correlation.

   Implementation-shaped transcription of
     ramses_tx/frame.py      pkt_header(), Frame._ctx/_idx/_pkt_idx   (header = code|verb|device|ctx)
     ramses_tx/command.py    Command.tx_header / rx_header
     ramses_tx/protocol_fsm.py  IsInIdle.cmd_sent (placeholder substitution), WantEcho.pkt_rcvd,
                             WantRply.pkt_rcvd (incl. the 0418 null-entry exception)
   plus the property-level clauses (C06 a, b, c of DESIGN App. A) as operators over
   *observed* headers / outcomes, so that the trace module can have TLC judge real executions.

   A frame is abstracted to  [verb, code, src, dst, fam, idx, sub]  (all strings):
     src/dst  device ids as the frame parser derives them (src = dst for "self addressed"
              address sets  A --:------ A  and  --:------ --:------ A)
     fam      context family of the code:
                "none"    no context                         (1F09, 313F, 2E04, 0006, 0100, ...)
                "simple"  payload[:2]  zone idx / domain id  (30C9, 2309, 2349, 000A, 0004, ...)
                "c4"      payload[:4]  idx + type/role       (0005, 000C)
                "frag"    idx|HW + payload[10:12]            (0404)
                "log"     payload[4:6] log idx               (0418)
                "msg"     payload[4:6] OpenTherm data id     (3220)
                "bind"    1FC9 (array => no context, special device rule)
     idx,sub  the context components ("" where unused)
   A header is the 4-tuple <<code, verb, device, ctx>> (ctx = "" when the real header has only
   three fields); NoHdr stands for Python's None.
*)
EXTENDS Naturals, Sequences, FiniteSets, TLC

HGI  == "18:000730"      \* the placeholder id a command may carry as its source
ALL  == "63:262142"      \* broadcast id
NON  == "--:------"
I_   == " I"
W_   == " W"
RQ   == "RQ"
RP   == "RP"
NoHdr == <<"", "", "", "">>
NullLogPayload == "000000B0000000000000000000007FFFFF7000000000"

Families == {"none", "simple", "c4", "frag", "log", "msg", "bind"}

----------------------------------------------------------------------------------------------
(* frame.py: Frame._ctx *)
Ctx(f) == CASE f.fam = "none"   -> ""
            [] f.fam = "simple" -> f.idx
            [] f.fam = "c4"     -> f.idx \o f.sub
            [] f.fam = "frag"   -> f.idx \o f.sub
            [] f.fam = "log"    -> f.sub
            [] f.fam = "msg"    -> f.sub
            [] f.fam = "bind"   -> ""

(* frame.py _pkt_idx: for a code that has no context the first payload byte must still be 00 - otherwise the
   frame has no index, hence no context and no header at all (PacketPayloadInvalid "expecting no idx (00)");
   the codes of CODE_IDX_ARE_NONE whose regex does not pin the byte are exempt: there it is data *)
Idx0Free == {"0002", "10E0", "1100", "22F1", "2E04", "7FFF"}     \* 1100: only Fx is taken for a (domain) index
BadIdx(f) == f.fam = "none" /\ f.idx \notin {"", "00"} /\ f.code \notin Idx0Free /\ f.verb \in {RQ, RP}   \* (I / W: per-verb regexes, not modelled)

(* frame.py: pkt_header(pkt)  -- the header of the packet itself *)
Hdr(f) ==
  IF BadIdx(f) THEN NoHdr ELSE
  IF f.code = "1FC9"
  THEN <<f.code, f.verb, IF f.src = f.dst THEN ALL ELSE f.dst, "">>
  ELSE IF f.verb \in {I_, RP} \/ f.src = f.dst
       THEN <<f.code, f.verb, f.src, Ctx(f)>>
       ELSE <<f.code, f.verb, f.dst, Ctx(f)>>

(* frame.py: pkt_header(pkt, rx_header=True)  -- the header of the response expected, if any *)
Rx(f) ==
  IF f.code = "1FC9"
  THEN IF f.src = f.dst THEN <<f.code, W_, f.src, "">>
       ELSE IF f.verb = W_ THEN <<f.code, I_, f.src, "">>
       ELSE NoHdr
  ELSE IF f.verb \in {I_, RP} \/ f.src = f.dst THEN NoHdr
       ELSE <<f.code, IF f.verb = RQ THEN RP ELSE I_, f.dst, Ctx(f)>>

(* protocol_fsm.py: hdr.replace(HGI_DEVICE_ID, protocol.hgi_id) -- only the device field can hold it *)
Subst(h, gw) == IF h[3] = HGI THEN <<h[1], h[2], gw, h[4]>> ELSE h

----------------------------------------------------------------------------------------------
(* What the world sends back (environment, used by the MC instance to build cases). *)

SubId(id, gw) == IF id = HGI THEN gw ELSE id

(* the frame as the gateway puts it on the air: its real id replaces the placeholder *)
EchoOf(c, gw) == [c EXCEPT !.src = SubId(c.src, gw), !.dst = SubId(c.dst, gw)]

(* the proper reply of the addressed device; for a bind offer `resp` is whoever accepts *)
ReplyOf(c, gw, resp) ==
  IF c.code = "1FC9"
  THEN IF c.src = c.dst
       THEN [c EXCEPT !.verb = W_, !.src = resp, !.dst = SubId(c.src, gw)]          \* accept
       ELSE [c EXCEPT !.verb = I_, !.src = c.dst, !.dst = SubId(c.src, gw)]        \* confirm
  ELSE [c EXCEPT !.verb = IF c.verb = RQ THEN RP ELSE I_, !.src = c.dst, !.dst = SubId(c.src, gw)]

----------------------------------------------------------------------------------------------
(* The matchers of the FSM, over headers (a packet p is [hdr, src, dst, null]).
   txh / rxh are the command's raw tx_header / rx_header, csrc the command's source id. *)

(* WantEcho.pkt_rcvd, first branch: the reply overtakes the echo *)
EarlyReply(rxh, csrc, p, gw) ==
  /\ rxh # NoHdr
  /\ p.hdr = rxh
  /\ (p.dst = csrc \/ (csrc = HGI /\ p.dst = gw))

(* WantEcho.pkt_rcvd, second branch (cmd._hdr_ was substituted in IsInIdle.cmd_sent) *)
EchoMatch(txh, p, gw) == Subst(p.hdr, gw) = Subst(txh, gw)

(* WantRply.pkt_rcvd: a repeated echo is ignored *)
EchoAgain(txh, echo, p, gw) == p.hdr = Subst(txh, gw) /\ p.src = echo.src

(* WantRply.pkt_rcvd: the 0418 null-entry exception ( rx_header[:-2] == pkt._hdr[:-2] ) *)
NullLog(rxh, p) ==
  /\ rxh[1] = "0418" /\ rxh[2] = RP
  /\ p.hdr[1] = rxh[1] /\ p.hdr[2] = rxh[2] /\ p.hdr[3] = rxh[3]
  /\ Len(p.hdr[4]) = Len(rxh[4])       \* both headers end in a 2-character context
  /\ p.null

ReplyMatch(rxh, p) == NullLog(rxh, p) \/ p.hdr = rxh

(* One transmission, packets arriving in the order of `ps`, QoS flag wait_for_reply = wait.
   st = <<phase, echoIndex, result>> ; phase "E" = WantEcho, "R" = WantRply, "D" = done.
   With wait = FALSE the echo is the result (WantRply -> IsInIdle in the next callback). *)
FsmStep(st, k, p, txh, rxh, csrc, gw, wait, ps) ==
  IF st[1] = "E" THEN
       IF EarlyReply(rxh, csrc, p, gw) THEN <<"D", st[2], k>>
       ELSE IF EchoMatch(txh, p, gw)
            THEN IF rxh # NoHdr /\ wait THEN <<"R", k, 0>> ELSE <<"D", k, k>>
            ELSE st
  ELSE IF st[1] = "R" THEN
       IF EchoAgain(txh, ps[st[2]], p, gw) THEN st
       ELSE IF ReplyMatch(rxh, p) THEN <<"D", st[2], k>>
       ELSE st
  ELSE st

RECURSIVE FsmFold(_, _, _, _, _, _, _, _)
FsmFold(st, k, ps, txh, rxh, csrc, gw, wait) ==
  IF k > Len(ps) THEN st
  ELSE FsmFold(FsmStep(st, k, ps[k], txh, rxh, csrc, gw, wait, ps), k + 1, ps, txh, rxh, csrc, gw, wait)

(* index (1-based) of the packet send_cmd() returns, 0 = it raises (time-out) *)
Returned(ps, txh, rxh, csrc, gw, wait) ==
  LET st == FsmFold(<<"E", 0, 0>>, 1, ps, txh, rxh, csrc, gw, wait) IN
  IF st[1] = "D" THEN st[3] ELSE 0

----------------------------------------------------------------------------------------------
(* Property clauses, over observations.  A packet kind is
     "echo"      the command's own frame as put on the air by gateway gw
     "reply"     the proper reply of the addressed device, same context
     "null"      the 0418 "no entry at this index" reply (the exception the statement names)
     "nm"        near miss in a *judged* dimension: code, verb, responding/addressed device, ctx
     "open"      near miss in a dimension the statement leaves open (the requester of a look-alike
                 request; the addressee of a look-alike reply) -- recorded, never judged         *)

Good(kind) == kind \in {"echo", "reply", "null"}

(* C06a at header level: "the echo ... (even when the gateway has substituted its real id ...)
   is recognised as its echo" *)
ClauseA_Hdr(txh, p, gw) == p.kind = "echo" => EchoMatch(txh, p, gw)

(* C06b at header level: "the proper reply ... carrying the same index/context is recognised" *)
ClauseB_Hdr(rxh, p) == (p.kind = "reply" => (rxh # NoHdr => p.hdr = rxh))
                    /\ (p.kind = "null"  => NullLog(rxh, p))

(* C06c at header level: a judged near miss carries neither the echo's nor the reply's header *)
ClauseC_Hdr(txh, rxh, p, gw) ==
  p.kind = "nm" => (~EchoMatch(txh, p, gw) /\ ~(rxh # NoHdr /\ p.hdr = rxh))

(* C06a/b/c on what send_cmd() returned for a whole scenario: ret = 0 (raised) or an index *)
HasKind(ps, kind)   == \E k \in 1..Len(ps) : ps[k].kind = kind
FirstOf(ps, kind)   == CHOOSE k \in 1..Len(ps) : ps[k].kind = kind /\ \A j \in 1..(k-1) : ps[j].kind # kind
NoOpen(ps)          == ~HasKind(ps, "open")

ClauseC_Fsm(ps, ret) == ret # 0 => ps[ret].kind # "nm"

(* no reply is awaited, its echo arrives (nothing left open in the scenario): the echo is returned
   (or the proper reply, should it have overtaken the echo) *)
ClauseA_Fsm(ps, rxh, wait, ret) ==
  ((~wait \/ rxh = NoHdr) /\ HasKind(ps, "echo") /\ NoOpen(ps)) => (ret # 0 /\ Good(ps[ret].kind))

(* a reply is awaited, and its proper reply arrives after its echo: that reply is returned
   (a reply that overtakes the echo is left open: the statement does not speak of orderings) *)
EchoThenReply(ps) ==
  \E i, j \in 1..Len(ps) : i < j /\ ps[i].kind = "echo" /\ ps[j].kind \in {"reply", "null"}
                             /\ \A h \in 1..(i-1) : ~Good(ps[h].kind)
(* ... and a proper reply that overtakes its echo (C07: "when a reply is awaited or arrives first - the matching
   reply"): the first good packet is the reply, the echo follows - the reply must still be what is returned *)
ReplyThenEcho(ps) ==
  \E i, j \in 1..Len(ps) : i < j /\ ps[i].kind = "reply" /\ ps[j].kind = "echo"   \* (a 0418 null entry that
                             \* overtakes the echo is left open: the code knows that exception only after the echo)
                             /\ \A h \in 1..(i-1) : ~Good(ps[h].kind)
ClauseB_Fsm(ps, rxh, wait, ret) ==
  (wait /\ rxh # NoHdr /\ (EchoThenReply(ps) \/ ReplyThenEcho(ps)) /\ NoOpen(ps))
     => (ret # 0 /\ ps[ret].kind \in {"reply", "null"})

====

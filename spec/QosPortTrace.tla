---------------------------- MODULE QosPortTrace ----------------------------
(* Table validation of the PortProtocol layer (spec/QosPort.tla) against the real PortProtocol.send_cmd:
   one item = one call (or two calls sharing one QosParams object) in a loss-free world, recorded by
   harness/qos.py:   [mode, req, kind, paused, share, calls |-> << [out, notices, writes] ... >>]
     out      "echo" | "reply"   the kind of packet send_cmd returned
              "refused"          a protocol-family error before anything of the command was written
              "error"            a protocol-family error after a write      "other:<type>"  anything else
   Every mismatch with the model's Row / Share is *drift* (the layer's decision table is not a property
   clause by itself; the clauses of C07 are judged on the same executions by QosTrace). *)
EXTENDS QosPort, Json, IOUtils

Traces == JsonDeserialize(IOEnv.TRACE_FILE)

VARIABLES tid, l, fail
tvars == <<tid, l, fail>>

Same(obs, row) == obs.out = row.out /\ obs.notices = row.notices /\ obs.writes = row.writes

Judge(t) ==
  IF t.share = 0
  THEN LET r == Row(t.mode, t.req, t.kind, t.paused = 1) IN
       IF Same(t.calls[1], r) THEN <<>> ELSE <<1, "drift:port_row", r.out>>
  ELSE LET s == Share(t.mode, t.req, t.kind, t.kind2) IN
       IF ~Same(t.calls[1], s[1]) THEN <<1, "drift:port_share_first", s[1].out>>
       ELSE IF ~Same(t.calls[2], s[2]) THEN <<2, "drift:port_share_second", s[2].out>>
       ELSE <<>>

TInit == tid \in 1..Len(Traces) /\ l = 1 /\ fail = <<>> /\ Init
TStep == l = 1 /\ l' = 2 /\ fail' = Judge(Traces[tid]) /\ UNCHANGED <<tid, vars>>
TSpec == TInit /\ [][TStep]_<<tvars, vars>>
Verdict == (l = 2) => PrintT(<<"VERDICT", tid, fail>>)
=============================================================================

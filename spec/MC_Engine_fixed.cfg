\* the proposed repair: try ... finally: _resume()
SPECIFICATION BSpec
CONSTANTS
  TryFinally = TRUE
  CfgSending = FALSE
  CfgDisc = FALSE
  MaxOps = 4
VIEW View
INVARIANT AsBefore
INVARIANT RunningAtRestStrict

--------------------------- MODULE MC_TopologyTC ---------------------------
(* Transition-coverage instances of Topology: every transition (graph, claim, graph') of a small instance,
   to be executed on the real code (checks/c15.py: transition tours).

   `pg` remembers the graph before the last claim (without `rep`: Next starts every claim from rep = FALSE, so
   the successors of a graph do not depend on it).  With VIEW TCView, TLC keeps one state per distinct
   transition; -dump writes them all: [pg, last claim, graph after, rep] is one edge of the model's
   transition relation. *)
EXTENDS MC_Topology

VARIABLE pg

GraphNoRep == <<zones, cls, sen, acts, dhw, app, par, ctl>>
TCInit == Init /\ pg = <<>>
TCNext == Next /\ pg' = GraphNoRep
TCSpec == TCInit /\ [][TCNext]_<<vars, pg>>
LastClaim == IF hist = <<>> THEN <<>> ELSE <<hist[Len(hist)]>>
TCView == <<pg, LastClaim, GraphView>>
=============================================================================

--------------------------- MODULE MC_TxRegulator ---------------------------
(* Bounded instances of TxRegulator with the real (full-scale) constants of ramses_tx:
   1 tick = 0.1 ms, 1 unit = 1e-4 bit.  The bucket starts at a level that the harness can
   reproduce on the real closure, so every behaviour of these instances is executable as is. *)
EXTENDS TxRegulator

RateV == 384                       \* 38 400 bit/s * 1 %  =  384 bit/s  = 384 units / tick
CapV  == 230400000                 \* 60 s * 384 bit/s = 23 040 bit
GapV  == 500                       \* 0.05 s
Small == 3500000                   \* 330 + 20 *  1 bits
Mid   == 8100000                   \* 330 + 20 * 24 bits
Big   == 12900000                  \* 330 + 20 * 48 bits
SizesV == {Small, Mid, Big}
Sizes2 == {Small, Big}
InitV == {0, 6000000, 13000000, CapV}     \* depleted / less than a big frame / just a big frame / full
InitDepleted == {0, 6000000}
AdvV  == {250, 500, 3000, 20000}   \* half a gap, a gap, 0.3 s, 2 s

(* what is shown to the user of a counter-example / simulation: environment choices + outcome *)
Outcome == [calls |-> h, init |-> IF written = <<>> /\ callSeq = <<>> THEN bucket ELSE -1,
            writes |-> [i \in 1..Len(written) |-> <<written[i].id, written[i].t, written[i].size>>]]
=============================================================================

SPECIFICATION Spec
CONSTANTS Depth = 6  MaxIdx = 62  MaxTs = 40  MaxEv = 60
  Starts <- Starts01  Limits <- LimitsAll  Kinds <- KindsAll  Repair = FALSE  PushOnNew = FALSE  KnownTrips <- TripsOrig
CONSTRAINT Bound
INVARIANT TripsKnown
CHECK_DEADLOCK FALSE

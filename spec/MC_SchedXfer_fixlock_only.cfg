SPECIFICATION Spec
CONSTANTS
  Zones = {1, 2}
  FixLock = TRUE
  FixAck = FALSE
  FixStale = FALSE
  ZlibDetects = TRUE
  MaxMain = 2
  MaxFaults = 1
  MaxBumps = 1
  MaxHeard = 1
  MaxAge = 0
  AllowSet = TRUE
  HeardStale = FALSE
  HeardAcks = TRUE
CONSTRAINT Bound
INVARIANT FollowUpNormal
CHECK_DEADLOCK TRUE
VIEW View

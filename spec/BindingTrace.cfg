SPECIFICATION Spec
INVARIANT Verdict

---------------------------- MODULE DecodeTrace ----------------------------
(* C05: batch validation of recorded decodes of the real Message(Packet(...)) against the clauses of
   DESIGN App. A.  One item = one history taken from MC_Decode (orders, repeats, eviction bursts),
   concretised with generated / corpus packets:
     [np  |-> number of distinct packets (ids 1..np),
      rel |-> <<[arr |-> id of an array packet, elems |-> <<ids of its elements as single packets>>]>>,
      ev  |-> <<[t |-> "dec" | "evict", p, ok, json, js, code, b0, b1, b2, arr, els, idx, eb, rng]>>]
   per decode:  ok   1 = a Message was built          json 1 = json.dumps(payload) succeeded
                js   digest of the canonical JSON text  els  digest per element (list payload) / of the dict
                idx  <<<<element position, reported index>>>> for zone_idx/domain_id/ufh_idx/ufx_idx/dhw_idx
                eb   first payload byte of each element (array codes)   b0..b2 payload bytes 0..2
                rng  <<<<class, milli-value>>>> for every numeric leaf classed "ratio" or "temp"
   Clauses: a JSON-serialisable  b same result every time  c index law  d array law  e ranges.      *)
EXTENDS Naturals, Integers, Sequences, FiniteSets, TLC, Json, IOUtils

Traces == JsonDeserialize(IOEnv.TRACE_FILE)

D == INSTANCE Decode WITH Pkts <- {}, Vals <- {}, Dec <- <<>>, KeyOf <- <<>>, Cap <- 0, MaxDec <- 0,
                          MaxEvict <- 0, h <- <<>>, lru <- <<>>, memo <- <<>>, obs <- <<>>

VARIABLES tid, l, seen, fails
vars == <<tid, l, seen, fails>>
T == Traces[tid]
NEv == Len(T.ev)

HasClause(fs, c) == \E i \in 1..Len(fs) : fs[i][2] = c
Add(fs, line, c, cond) == IF cond /\ ~HasClause(fs, c) THEN Append(fs, <<line, c>>) ELSE fs

\* seen[p] = <<>> (not decoded yet) or <<ok, js, els>> of its first decode
Init == /\ tid \in 1..Len(Traces) /\ l = 1 /\ fails = <<>>
        /\ seen = [p \in 1..Traces[tid].np |-> <<>>]

Event ==
  /\ l <= NEv
  /\ LET e == T.ev[l] IN
     IF e.t # "dec" THEN UNCHANGED <<seen, fails>>
     ELSE
       /\ seen' = IF seen[e.p] = <<>> THEN [seen EXCEPT ![e.p] = <<e.ok, e.js, e.els>>] ELSE seen
       /\ fails' =
            LET f1 == Add(fails, l, "a", e.ok = 1 /\ e.json # 1)
                f2 == Add(f1, l, "b", seen[e.p] # <<>> /\ (seen[e.p][1] # e.ok \/ seen[e.p][2] # e.js))
                f3 == Add(f2, l, "c", e.ok = 1 /\
                          \E i \in 1..Len(e.idx) :
                             LET pos == e.idx[i][1]
                                 ebx == IF pos <= Len(e.eb) THEN e.eb[pos] ELSE e.b0
                             IN e.idx[i][2] \notin D!IdxAllowed(e.code, e.b0, e.b1, e.b2, ebx, e.arr = 1))
                f4 == Add(f3, l, "e", e.ok = 1 /\
                          \E i \in 1..Len(e.rng) : ~D!InRange(e.rng[i][1], e.rng[i][2]))
            IN f4
  /\ l' = l + 1 /\ UNCHANGED tid

\* d: array = concatenation of its elements' own decodes (only where both sides decode)
Finish ==
  /\ l = NEv + 1
  /\ fails' = Add(fails, l, "d",
       \E i \in 1..Len(T.rel) :
          LET r == T.rel[i] IN
          /\ seen[r.arr] # <<>> /\ seen[r.arr][1] = 1
          /\ \A j \in 1..Len(r.elems) : seen[r.elems[j]] # <<>> /\ seen[r.elems[j]][1] = 1
          /\ seen[r.arr][3] # D!Concat([j \in 1..Len(r.elems) |-> seen[r.elems[j]][3]]))
  /\ l' = l + 1 /\ UNCHANGED <<tid, seen>>

Next == Event \/ Finish
Spec == Init /\ [][Next]_vars
Verdict == (l > NEv + 1) =>
             PrintT(<<"VERDICT", tid, IF fails = <<>> THEN <<>> ELSE <<fails[1][1], fails[1][2], fails>>>>)
=============================================================================

---------------------------- MODULE FrameGrammarTrace ----------------------------
(***************************************************************************)
(* C02 clause a - table validation.  Python records, for a concrete frame  *)
(* (fields f) and one way of parsing it (ctor), what the real object did;  *)
(* TLC evaluates the clauses with the operators of FrameGrammar.           *)
(*                                                                         *)
(* row = [ctor, f, text, acc, exc, gram, out, of, src, dst, pbytes]        *)
(*   ctor   "cmd" Command(text) | "attrs" Command._from_attrs(fields)      *)
(*          "pkt_port"/"pkt_file" Packet.from_port/from_file(rssi + text)  *)
(*          "cli_full"/"cli2"/"cli1" Command.from_cli(text), text = the    *)
(*          short form (TLC checks that text is the short form it defines) *)
(*   acc    1 = an object was returned;  exc = exception class otherwise;  *)
(*   gram   1 = the exception is the library's invalid-frame family        *)
(*   out    str(object);  of = its parsed fields;  src/dst ids             *)
(*   pbytes number of payload bytes of the object                          *)
(* verdict entries <<row#, clause, pattern>>: clause "a" (property),       *)
(* "drift" (model vs code, not promised), "c01" (a received frame refused  *)
(* by something other than the frame grammar: C01's subject, not judged),  *)
(* "harness" (the recorded input is not what the spec says it should be).  *)
(***************************************************************************)
EXTENDS Integers, Sequences, FiniteSets, TLC, Json, IOUtils

Impl == {}
INSTANCE FrameGrammar
Cut == INSTANCE FrameGrammar WITH Impl <- {"cli_cut48"}

Traces == JsonDeserialize(IOEnv.TRACE_FILE)

VARIABLES tid, l, fail
vars == <<tid, l, fail>>

IsCli(c) == c \in {"cli_full", "cli2", "cli1"}
InputText(r) ==
  CASE r.ctor = "cli_full" -> ShortFull(r.f)
    [] r.ctor = "cli2"     -> Short2(r.f)
    [] r.ctor = "cli1"     -> Short1(r.f)
    [] OTHER               -> PrintFrame(r.f)

FirstDiff(a, b) ==     \* name of the first field that differs
  CASE a.verb # b.verb -> "verb" [] a.seqn # b.seqn -> "seqn" [] a.a0 # b.a0 -> "addr0" [] a.a1 # b.a1 -> "addr1"
    [] a.a2 # b.a2 -> "addr2" [] a.code # b.code -> "code" [] a.len # b.len -> "len" [] OTHER -> "payload"

Judge(r) ==
  LET f == r.f
      v == Valid(f)
      shapeOK == LegalAddrs(f.a0, f.a1, f.a2)
  IN
  IF r.text # InputText(r) THEN {<<"harness", "input_text_is_not_the_specified_form">>}
  ELSE IF v THEN
    IF r.acc = 0 THEN
      (IF r.ctor \in {"pkt_port", "pkt_file"} /\ r.gram = 0 THEN {<<"c01", r.exc>>} ELSE {<<"a", "rejected">>})
    ELSE
      (IF r.out # PrintFrame(f)
         THEN {<<"a", IF IsCli(r.ctor) /\ r.out = PrintFrame(Cut!FromCli(r.text)) THEN "payload_cut_at_48_chars"
                      ELSE "printed_text_differs">>}
       ELSE IF r.of # f THEN {<<"a", "field_" \o FirstDiff(r.of, f) \o "_differs">>}
       ELSE IF ~IsLen(r.of.len) \/ DecVal(r.of.len) # r.pbytes \/ 2 * r.pbytes # Len(r.of.payload)
         THEN {<<"a", "len_field_ne_payload_bytes">>}
       ELSE {})
      \cup (IF r.src # Src(f.a0, f.a1, f.a2) \/ r.dst # Dst(f.a0, f.a1, f.a2)
              THEN {<<"drift", "src_dst_differ_from_model">>} ELSE {})
  ELSE
    \* not a frame C02 quantifies over: nothing is promised; note only what contradicts the model
    \* (_from_attrs / from_cli compute the length field themselves: a wrong `len` is not their input)
    IF r.acc = 1 /\ Lexical(f)
       /\ (~shapeOK \/ (r.ctor \in {"cmd", "pkt_port", "pkt_file"} /\ Len(f.payload) # 2 * DecVal(f.len)))
      THEN {<<"drift", "invalid_frame_accepted">>} ELSE {}

JudgeAll(it) ==
  LET S == UNION { {<<i, j[1], j[2]>> : j \in Judge(it.rows[i])} : i \in 1..Len(it.rows) }
  IN  IF S = {} THEN <<>> ELSE S

Init == tid \in 1..Len(Traces) /\ l = 1 /\ fail = <<>>
Step == /\ l = 1
        /\ fail' = JudgeAll(Traces[tid])
        /\ l' = 2 /\ UNCHANGED tid
Spec == Init /\ [][Step]_vars
Verdict == (l = 2) => PrintT(<<"VERDICT", tid, fail>>)
=============================================================================

------------------------------- MODULE QosFsm -------------------------------
(***************************************************************************)
(* Callback-grain model of ramses_tx.protocol_fsm.ProtocolContext (the QoS *)
(* send machinery behind PortProtocol.send_cmd) on an exact model of the   *)
(* CPython 3.12 asyncio scheduling rules (see AsyncLoop notes below).      *)
(*                                                                         *)
(* One action per handle the event loop runs:                              *)
(*   call      caller task's first step: send_cmd() up to its await        *)
(*   callerTO  wait_for's time-out handle (task.cancel())                  *)
(*   wake      caller task resumed (result / exception / TimeoutError)     *)
(*   check     ProtocolContext._check_buffer_for_cmd                       *)
(*   effect    set_state.<locals>.effect_state(timed_out)                  *)
(*   tstart    expire_state_on_timeout task, first step (arms the sleep)   *)
(*   sleepdone the sleep's timer handle (future resolved)                  *)
(*   twake     expire_state_on_timeout resumed after the sleep             *)
(*   write     send_fnc_wrapper task (transport.write_frame)               *)
(*   rx        transport reader: call_soon(protocol.pkt_received, pkt)     *)
(*   pkt       PortProtocol.pkt_received -> state.pkt_rcvd                 *)
(*   connlost / connmade   protocol.connection_lost / connection_made      *)
(*                                                                         *)
(* SetState transcribes ProtocolContext.set_state statement by statement,  *)
(* every assertion included.  When an assertion fails the model does not   *)
(* stop: it records the site in `trips`, keeps the partial effects the     *)
(* real callback leaves behind and carries on, so the consequences (a      *)
(* caller handed another command's packet, the context lock never released *)
(* and the loop thread frozen, ...) are reachable states too.              *)
(*                                                                         *)
(* AsyncLoop rules (each confirmed against CPython 3.12):                  *)
(*  - `ready` = handles of this iteration, `nxt` = handles scheduled during *)
(*    it (call_soon appends to nxt).  RunHead pops Head(ready) atomically.  *)
(*  - Boundary (ready empty): ready' = nxt \o I/O handles \o due timers in  *)
(*    deadline order.  Timers cannot fire between two callbacks of one      *)
(*    iteration.  Untimed: any subset of the armed timers may be due.       *)
(*  - resolving a future appends one wake-up handle per waiter to nxt;      *)
(*    wait_for = time-out handle + await: the handle cancels the awaited    *)
(*    future (or marks the task must-cancel if it is already done); the     *)
(*    waiter's except-TimeoutError block runs in its wake-up, one iteration *)
(*    later.  Cancelling a task = its pending step becomes a no-op.         *)
(*                                                                         *)
(* Fix flags select the repaired variants of individual statements (see     *)
(* DESIGN.md §5, known_findings.json "fixed").  All FALSE = the code as it  *)
(* was at the pinned commit.                                                *)
(***************************************************************************)
EXTENDS Naturals, Sequences, FiniteSets, TLC

CONSTANTS Callers,      \* caller / command ids, e.g. {1, 2}
          HasRx,        \* [Callers -> BOOLEAN]  the command has a reply header (RQ / W)
          Wfr,          \* [Callers -> BOOLEAN]  effective qos.wait_for_reply
          MaxRetries,   \* [Callers -> Nat]
          Prio,         \* [Callers -> Int-like Nat] smaller = more urgent
          MaxEnv,       \* bound on packets the environment delivers
          MaxT,         \* bound on expiry-timer tasks ever created
          MaxConn,      \* bound on connection_lost events
          MaxFail,      \* bound on injected write failures
          MaxIo,        \* I/O handles the environment may add per boundary (1 or 2)
          FixStaleEffect,   \* effect_state ignores a state that has been replaced meanwhile
          FixLockRelease,   \* _check_buffer_for_cmd releases its lock on every path
          FixClearFut,      \* set_state drops its reference to the future together with the command
          FixCheckIdleOnly, \* _check_buffer_for_cmd dequeues only in state IsInIdle
          FixWriteFail      \* send_fnc_wrapper reports a write failure only for the command in flight

VARIABLES w,            \* the whole world (a record; see Init)
          h             \* history of environment choices (hidden from the state VIEW)

NoPkt == <<"", 0>>
None  == 0

Hd(k)          == [k |-> k, i |-> 0, p |-> NoPkt, b |-> FALSE, g |-> 0]
HdI(k, i)      == [Hd(k) EXCEPT !.i = i]
HdP(k, p)      == [Hd(k) EXCEPT !.p = p]
HdEff(b, g)    == [Hd("effect") EXCEPT !.b = b, !.g = g]

Min2(a, b) == IF a < b THEN a ELSE b

Sending(W)  == W.st \in {"Echo", "Rply"}
FutDone(W, f) == W.fs[f][1] # "pend"

\* ProtocolContext.is_sending's assertions: TRUE = they hold
IsSendingOK(W) ==
  IF Sending(W) THEN W.cmd # None /\ W.fut # None
  ELSE W.cmd = None /\ (W.fut = None \/ FutDone(W, W.fut))

Trip(W, site) == [W EXCEPT !.trips = @ \cup {site}, !.raised = TRUE]

\* task.cancel() of expiry-timer task k
KillTimer(W, k) ==
  IF k = None \/ W.tmr[k].ph \in {"done", "dead"} THEN W
  ELSE [W EXCEPT !.tmr[k].ph = "dead", !.timers = @ \ {<<"sleep", k>>}]

\* ----------------------------------------------------------------------------------------
\* ProtocolContext.set_state(cls, expired, timed_out, exception, result)
\* exc \in {"", "fsm", "transport"};  res = packet or NoPkt

SetState(W0, cls, expired, timedout, exc, res) ==
  LET W1 == [KillTimer(W0, W0.cur) EXCEPT !.cur = None]
      f  == W1.fut
      fstat == IF f = None THEN "nofut" ELSE W1.fs[f][1]
      snd == Sending(W1)
      pre == IF f = None THEN
                 IF W1.cmd # None THEN "set_state:nofut_but_cmd"
                 ELSE IF snd THEN "set_state:nofut_but_sending" ELSE ""
             ELSE IF fstat = "canc" THEN
                 IF W1.cmd = None THEN "set_state:cancelled_but_no_cmd"
                 ELSE IF ~snd THEN "set_state:cancelled_but_not_sending" ELSE ""
             ELSE IF exc # "" THEN
                 IF fstat # "pend" THEN "set_state:exception_but_fut_done"
                 ELSE IF ~snd THEN "set_state:exception_but_not_sending" ELSE ""
             ELSE IF res # NoPkt THEN
                 IF fstat # "pend" THEN "set_state:result_but_fut_done"
                 ELSE IF ~snd THEN "set_state:result_but_not_sending" ELSE ""
             ELSE IF expired THEN
                 IF fstat # "pend" THEN "set_state:expired_but_fut_done"
                 ELSE IF ~snd THEN "set_state:expired_but_not_sending" ELSE ""
             ELSE IF fstat \notin {"pend", "canc"} THEN "set_state:plain_but_fut_done" ELSE ""
      resolve == f # None /\ fstat = "pend" /\ (exc # "" \/ res # NoPkt \/ expired)
      fs2  == IF ~resolve THEN W1.fs
              ELSE IF exc # "" THEN [W1.fs EXCEPT ![f] = <<"exc", 0>>]
              ELSE IF res # NoPkt THEN [W1.fs EXCEPT ![f] = res]
              ELSE [W1.fs EXCEPT ![f] = <<"exc", 0>>]
      wake == IF resolve /\ W1.pc[f] = "wait" THEN <<HdI("wake", f)>> ELSE <<>>
      txc2 == IF timedout THEN W1.txc + 1
              ELSE IF cls = "Echo" THEN 1
              ELSE IF cls # "Rply" THEN 0 ELSE W1.txc
      cmd2 == IF ~timedout /\ cls \notin {"Echo", "Rply"} THEN None ELSE W1.cmd
      fut2 == IF FixClearFut /\ ~timedout /\ cls \notin {"Echo", "Rply"} THEN None ELSE W1.fut
      sent2 == IF cls \in {"Echo", "Rply"} THEN W1.sent ELSE None
      epkt2 == IF cls = "Rply" THEN W1.epkt ELSE FALSE
      W2 == [W1 EXCEPT !.st = cls, !.fs = fs2, !.txc = txc2, !.cmd = cmd2, !.sent = sent2,
                       !.epkt = epkt2, !.fut = fut2, !.gen = @ + 1, !.nxt = @ \o wake]
  IN IF pre # "" THEN Trip(W1, pre)
     ELSE IF ~IsSendingOK(W2) THEN Trip(W2, "set_state:post_is_sending")
     ELSE [W2 EXCEPT !.nxt = Append(@, HdEff(timedout, W2.gen))]

\* ProtocolContext._send_cmd(cmd, is_retry): state.cmd_sent + create_task(send_fnc_wrapper)
SendCmd(W, c, retry) ==
  IF W.st = "Idle" THEN
       IF W.sent # None \/ retry THEN Trip(W, "IsInIdle.cmd_sent:assert")
       ELSE LET W1 == SetState([W EXCEPT !.sent = c], "Echo", FALSE, FALSE, "", NoPkt)
            IN IF W1.raised THEN W1 ELSE [W1 EXCEPT !.nxt = Append(@, HdI("write", c))]
  ELSE IF W.st = "Echo" THEN
       IF W.sent = None \/ ~retry THEN Trip(W, "WantEcho.cmd_sent:assert")
       ELSE [W EXCEPT !.nxt = Append(@, HdI("write", c))]
  ELSE SetState(W, "Idle", FALSE, FALSE, "fsm", NoPkt)        \* ProtocolFsmError: invalid state

\* ----------------------------------------------------------------------------------------
\* Handles.  Each takes W = the world with Head(ready) already popped and raised = FALSE.

RunCall(W, i) ==
  IF W.st = "Inactive" THEN [W EXCEPT !.pc[i] = "done", !.out[i] = <<"err", 0>>]
  ELSE [W EXCEPT !.fs[i] = <<"pend", 0>>,
                 !.q = @ \cup {<<Prio[i], W.nseq, i>>}, !.nseq = @ + 1,
                 !.nxt = IF W.st = "Idle" THEN Append(@, Hd("check")) ELSE @,
                 !.timers = @ \cup {<<"callerT", i>>},
                 !.pc[i] = "wait"]

RunCallerTO(W, i) ==         \* Timeout._on_timeout: task.cancel()
  IF W.pc[i] # "wait" THEN W
  ELSE IF W.fs[i][1] = "pend"
       THEN [W EXCEPT !.fs[i] = <<"canc", 0>>, !.nxt = Append(@, HdI("wake", i))]
       ELSE [W EXCEPT !.mustc[i] = TRUE]         \* future already resolved: task._must_cancel

DropCallerTimer(W, i) ==
  [W EXCEPT !.timers = @ \ {<<"callerT", i>>},
            !.ready = SelectSeq(@, LAMBDA x : ~(x.k = "callerTO" /\ x.i = i)),
            !.nxt   = SelectSeq(@, LAMBDA x : ~(x.k = "callerTO" /\ x.i = i))]

RunWake(W0, i) ==
  LET W == DropCallerTimer(W0, i) IN
  IF W.pc[i] # "wait" THEN W
  ELSE IF W.fs[i][1] = "canc" \/ W.mustc[i] THEN       \* except TimeoutError:
       LET W1 == IF W.cmd = i THEN SetState(W, "Idle", TRUE, FALSE, "", NoPkt) ELSE W
       IN [W1 EXCEPT !.pc[i] = "done",
                     !.out[i] = IF W1.raised THEN <<"assert", 0>> ELSE <<"err", 0>>]
  ELSE [W EXCEPT !.pc[i] = "done",
                 !.out[i] = IF W.fs[i][1] = "exc" THEN <<"err", 0>> ELSE W.fs[i]]

Better(a, b) == a[1] < b[1] \/ (a[1] = b[1] /\ a[2] < b[2])
LiveQ(W)     == {e \in W.q : W.fs[e[3]][1] = "pend"}
BestOf(S)    == CHOOSE e \in S : \A x \in S : x = e \/ Better(e, x)
WorstOf(S)   == CHOOSE e \in S : \A x \in S : x = e \/ Better(x, e)

RunCheck(W) ==
  IF W.locked THEN [W EXCEPT !.frozen = TRUE]         \* threading.Lock never released: loop blocks
  ELSE IF ~IsSendingOK(W)
       THEN [Trip(W, "_check_buffer_for_cmd:is_sending") EXCEPT !.locked = ~FixLockRelease]
  ELSE IF W.fut # None /\ ~FutDone(W, W.fut) THEN W
  ELSE IF FixCheckIdleOnly /\ W.st # "Idle" THEN W       \* repaired: a slot is free only in IsInIdle
  ELSE IF LiveQ(W) = {} THEN            \* every entry popped is done: each still sets tx count/limit
       IF W.q = {} THEN [W EXCEPT !.cmd = None, !.fut = None]
       ELSE [W EXCEPT !.q = {}, !.cmd = None, !.fut = None, !.txc = 0,
                      !.txl = Min2(MaxRetries[WorstOf(W.q)[3]], 3) + 1]
  ELSE LET e  == BestOf(LiveQ(W))
           c  == e[3]
           \* entries ahead of e that are already done were popped and skipped
           W1 == [W EXCEPT !.q = {x \in W.q : x # e /\ ~(W.fs[x[3]][1] # "pend" /\ Better(x, e))},
                           !.cmd = c, !.fut = c, !.txc = 0,
                           !.txl = Min2(MaxRetries[c], 3) + 1]
       IN SendCmd(W1, c, FALSE)

RunEffect(W, timedout, g) ==
  IF FixStaleEffect /\ g # W.gen THEN W                \* repaired: the state was replaced meanwhile
  ELSE IF ~IsSendingOK(W) THEN Trip(W, "effect_state:is_sending")
  ELSE
   LET W1 == IF ~timedout THEN W
             ELSE IF W.cmd = None THEN Trip(W, "effect_state:cmd_is_none")
             ELSE SendCmd(W, W.cmd, TRUE)
   IN IF W1.raised THEN W1
      ELSE IF W1.st = "Idle" THEN [W1 EXCEPT !.nxt = Append(@, Hd("check"))]
      ELSE IF W1.st = "Rply" /\ ~Wfr[W1.cmd]
           THEN SetState(W1, "Idle", FALSE, FALSE, "", <<"echo", W1.sent>>)
      ELSE IF Sending(W1) THEN
           IF W1.nt >= MaxT THEN [W1 EXCEPT !.overflow = TRUE]
           ELSE LET k == W1.nt + 1 IN
                [W1 EXCEPT !.nt = k, !.cur = k, !.tmr[k] = [ph |-> "new", old |-> 0],
                           !.nxt = Append(@, HdI("tstart", k))]
      ELSE W1

RunTStart(W, k) ==
  IF W.tmr[k].ph # "new" THEN W                         \* cancelled before its first step
  ELSE IF W.cmd = None THEN [Trip(W, "expire_state_on_timeout:cmd_is_none") EXCEPT !.tmr[k].ph = "done"]
  ELSE IF ~IsSendingOK(W) THEN [Trip(W, "expire_state_on_timeout:is_sending") EXCEPT !.tmr[k].ph = "done"]
  ELSE IF W.txc = 0 THEN [Trip(W, "expire_state_on_timeout:tx_count") EXCEPT !.tmr[k].ph = "done"]
  ELSE [W EXCEPT !.tmr[k] = [ph |-> "sleep", old |-> W.mult],
                 !.mult = IF @ > 0 THEN @ - 1 ELSE 0,
                 !.timers = @ \cup {<<"sleep", k>>}]

RunSleepDone(W, k) ==
  IF W.tmr[k].ph # "sleep" THEN W
  ELSE [W EXCEPT !.tmr[k].ph = "woken", !.nxt = Append(@, HdI("twake", k))]

RunTWake(W, k) ==
  IF W.tmr[k].ph # "woken" THEN W                       \* cancelled while its wake-up was queued
  ELSE LET W0 == [W EXCEPT !.mult = Min2(3, W.tmr[k].old + 1), !.tmr[k].ph = "done"]
       IN IF ~IsSendingOK(W0) THEN Trip(W0, "expire_state_on_timeout:is_sending")
          ELSE IF W0.txc < W0.txl THEN SetState(W0, "Echo", FALSE, TRUE, "", NoPkt)
          ELSE SetState(W0, "Idle", TRUE, FALSE, "", NoPkt)

RunWrite(W, c) ==            \* send_fnc_wrapper(cmd): await transport.write_frame
  IF W.failw > 0 THEN
       LET W1 == [W EXCEPT !.failw = @ - 1] IN
       IF FixWriteFail /\ ~(W1.cmd = c /\ Sending(W1))
       THEN W1
       ELSE SetState(W1, "Idle", FALSE, FALSE, "transport", NoPkt)
  ELSE [W EXCEPT !.writes[c] = @ + 1,
                 !.wire = @ \cup {<<"echo", c>>} \cup (IF HasRx[c] THEN {<<"rply", c>>} ELSE {}),
                 !.wlog = Append(@, c)]

RunRx(W, p) == [W EXCEPT !.nxt = Append(@, HdP("pkt", p))]

RunPkt(W, p) ==              \* context.pkt_received -> state.pkt_rcvd
  CASE W.st = "Inactive" -> IF W.sent # None THEN Trip(W, "Inactive.pkt_rcvd:assert") ELSE W
    [] W.st = "Idle"     -> IF W.sent # None THEN Trip(W, "IsInIdle.pkt_rcvd:assert") ELSE W
    [] W.st = "Echo"     ->
         IF W.sent = None THEN Trip(W, "WantEcho.pkt_rcvd:assert")
         ELSE IF HasRx[W.sent] /\ p = <<"rply", W.sent>>
              THEN SetState(W, "Idle", FALSE, FALSE, "", p)             \* reply before echo
         ELSE IF p = <<"echo", W.sent>> THEN
              IF HasRx[W.sent] THEN SetState([W EXCEPT !.epkt = TRUE], "Rply", FALSE, FALSE, "", NoPkt)
              ELSE SetState([W EXCEPT !.epkt = TRUE], "Idle", FALSE, FALSE, "", p)
         ELSE W
    [] W.st = "Rply"     ->
         IF W.sent = None \/ ~W.epkt THEN Trip(W, "WantRply.pkt_rcvd:assert")
         ELSE IF p = <<"rply", W.sent>> THEN SetState(W, "Idle", FALSE, FALSE, "", p)
         ELSE W

RunConnLost(W) ==
  LET W1 == [W EXCEPT !.conn = FALSE] IN
  IF W1.st = "Inactive" THEN W1
  ELSE IF W1.st = "Idle" THEN SetState(W1, "Inactive", FALSE, FALSE, "", NoPkt)
  ELSE SetState(W1, "Inactive", FALSE, FALSE, "transport", NoPkt)

RunConnMade(W) ==
  LET W1 == [W EXCEPT !.conn = TRUE] IN
  IF W1.st = "Inactive" THEN SetState(W1, "Idle", FALSE, FALSE, "", NoPkt) ELSE W1

Run(W, x) ==
  CASE x.k = "call"      -> RunCall(W, x.i)
    [] x.k = "callerTO"  -> RunCallerTO(W, x.i)
    [] x.k = "wake"      -> RunWake(W, x.i)
    [] x.k = "check"     -> RunCheck(W)
    [] x.k = "effect"    -> RunEffect(W, x.b, x.g)
    [] x.k = "tstart"    -> RunTStart(W, x.i)
    [] x.k = "sleepdone" -> RunSleepDone(W, x.i)
    [] x.k = "twake"     -> RunTWake(W, x.i)
    [] x.k = "write"     -> RunWrite(W, x.i)
    [] x.k = "rx"        -> RunRx(W, x.p)
    [] x.k = "pkt"       -> RunPkt(W, x.p)
    [] x.k = "connlost"  -> RunConnLost(W)
    [] x.k = "connmade"  -> RunConnMade(W)

\* ----------------------------------------------------------------------------------------

Init ==
  /\ w = [ st |-> "Idle", cmd |-> None, fut |-> None,
           fs |-> [i \in Callers |-> <<"none", 0>>],
           sent |-> None, epkt |-> FALSE, txc |-> 0, txl |-> 0, mult |-> 0,
           cur |-> None, tmr |-> [k \in 1..MaxT |-> [ph |-> "free", old |-> 0]], nt |-> 0, gen |-> 0,
           q |-> {}, nseq |-> 0, locked |-> FALSE, frozen |-> FALSE, overflow |-> FALSE,
           ready |-> <<>>, nxt |-> <<>>, timers |-> {},
           pc |-> [i \in Callers |-> "idle"], out |-> [i \in Callers |-> NoPkt],
           mustc |-> [i \in Callers |-> FALSE],
           writes |-> [i \in Callers |-> 0], wlog |-> <<>>, wire |-> {},
           nenv |-> 0, nconn |-> 0, nfail |-> 0, failw |-> 0, conn |-> TRUE,
           trips |-> {}, raised |-> FALSE, lastrun |-> "" ]
  /\ h = <<>>

RunHead ==
  /\ w.ready # <<>> /\ ~w.frozen
  /\ LET x == Head(w.ready)
         W == [w EXCEPT !.ready = Tail(@), !.raised = FALSE, !.lastrun = x.k]
     IN w' = Run(W, x)
  /\ h' = h

\* what the environment may put into one iteration boundary
TimerHandle(t) == IF t[1] = "callerT" THEN HdI("callerTO", t[2]) ELSE HdI("sleepdone", t[2])
SeqsUpTo2(S) == ({<<>>} \cup {<<a>> : a \in S} \cup {<<a, b>> : a \in S, b \in S}) \ {<<a, a>> : a \in S}

EnvHandles ==
  LET spawn == {HdI("call", i) : i \in {j \in Callers : w.pc[j] = "idle"}}
      rx    == IF w.nenv < MaxEnv THEN {HdP("rx", p) : p \in w.wire} ELSE {}
      cl    == IF w.nconn < MaxConn /\ w.conn THEN {Hd("connlost")} ELSE {}
      cm    == IF ~w.conn THEN {Hd("connmade")} ELSE {}
  IN spawn \cup rx \cup cl \cup cm

Boundary ==
  /\ w.ready = <<>> /\ ~w.frozen
  /\ \E io \in {x \in SeqsUpTo2(EnvHandles) : Len(x) <= MaxIo}, ts \in SeqsUpTo2(w.timers), fw \in (IF w.nfail < MaxFail THEN {0, 1} ELSE {0}) :
       /\ w.nxt # <<>> \/ io # <<>> \/ ts # <<>>
       /\ LET tsh == [n \in 1..Len(ts) |-> TimerHandle(ts[n])]
              spawned == {io[n].i : n \in {m \in 1..Len(io) : io[m].k = "call"}}
              nrx == Cardinality({n \in 1..Len(io) : io[n].k = "rx"})
              ncl == Cardinality({n \in 1..Len(io) : io[n].k = "connlost"})
          IN /\ w' = [w EXCEPT !.ready = w.nxt \o io \o tsh, !.nxt = <<>>,
                               !.timers = @ \ {ts[n] : n \in 1..Len(ts)},
                               !.pc = [i \in Callers |-> IF i \in spawned THEN "spawned" ELSE w.pc[i]],
                               !.nenv = @ + nrx, !.nconn = @ + ncl,
                               !.nfail = @ + fw, !.failw = @ + fw,
                               !.conn = IF ncl > 0 THEN FALSE
                                        ELSE IF \E n \in 1..Len(io) : io[n].k = "connmade" THEN TRUE ELSE @,
                               !.lastrun = "boundary"]
             /\ h' = Append(h, [io |-> io, ts |-> ts, fw |-> fw])

Next == RunHead \/ Boundary
vars == <<w, h>>
Spec == Init /\ [][Next]_vars /\ WF_vars(RunHead) /\ WF_vars(Boundary)

\* ----------------------------------------------------------------------------------------
\* Properties (model level)

Quiescent == w.ready = <<>> /\ w.nxt = <<>> /\ w.timers = {} /\ \A i \in Callers : w.pc[i] \in {"idle", "done"}

NoTrip      == w.trips = {}                                      \* C09c
NotFrozen   == ~w.frozen                                         \* C09a / C07c
OwnPacket   == \A i \in Callers : w.pc[i] = "done" =>            \* C07a, C07b, C07d
                 w.out[i] \in {<<"err", 0>>, <<"echo", i>>} \cup (IF HasRx[i] THEN {<<"rply", i>>} ELSE {})
Budget      == \A i \in Callers : w.writes[i] <= Min2(MaxRetries[i], 3) + 1      \* C08a
EndsIdle    == Quiescent => /\ w.st = (IF w.conn THEN "Idle" ELSE "Inactive")   \* C09a
                            /\ w.cmd = None /\ (w.fut = None \/ FutDone(w, w.fut))
                            /\ \A i \in Callers : w.pc[i] = "done" \/ w.pc[i] = "idle"
NoTimerLeak == Cardinality({k \in 1..MaxT : w.tmr[k].ph \in {"new", "sleep", "woken"}}) <= 1
NoOverflow  == ~w.overflow
\* C08d as an action property: once a caller has been answered no further transmission of its command
\* is *scheduled* (a write task created before the answer may still run within the same instant: J3)
NWriteHandles(W, i) == Cardinality({n \in 1..Len(W.ready) : W.ready[n].k = "write" /\ W.ready[n].i = i})
                     + Cardinality({n \in 1..Len(W.nxt) : W.nxt[n].k = "write" /\ W.nxt[n].i = i})
NoWriteAfterAnswer == [][\A i \in Callers : w.pc[i] = "done" => NWriteHandles(w', i) <= NWriteHandles(w, i)]_vars
\* C08e: a write for c only while no other command is awaiting its echo/reply
Live == <>[](\A i \in Callers : w.pc[i] # "wait")

View == [w EXCEPT !.lastrun = ""]
=============================================================================

---------------------------- MODULE MC_GwyLife ----------------------------
EXTENDS GwyLife, TLC
SilentNone == {}
Silent2    == {2}
Silent23   == {2, 3}
\* depth bound for the instances that need one
Bounded == TLCGet("level") <= 40
=============================================================================

---- MODULE MC_TransportLife ----
EXTENDS TransportLife
====

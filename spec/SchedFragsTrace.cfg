SPECIFICATION TSpec
CONSTANTS NoSchedOn = FALSE  OwnDefault = TRUE  FetchOn = TRUE
  Zones <- ZonesC  Vers <- VersT  NF <- NFc  ZoneOf <- ZoneOfC
INVARIANT Verdict
CHECK_DEADLOCK FALSE

SPECIFICATION TSpec
CONSTANTS NoSchedOn = FALSE  OwnDefault = TRUE
  Zones <- ZonesC  Vers <- VersT  NF <- NFc  ZoneOf <- ZoneOfC
INVARIANT Verdict
CHECK_DEADLOCK FALSE

\* contract instance (thorough): every law must hold
SPECIFICATION Spec
CONSTANTS
  Impl <- NoImpl
  TempKs <- TempKsAll
  DblKs <- DblKsAll
  Years <- YearsT
  Hours <- HoursAll
  Mins <- MinsT
  Secs <- SecsT
  YYs <- YYsT
  DtsHours <- DtsHoursT
  IdNs <- IdNsT
  StrAlphabet <- Alpha
  StrMaxLen = 4
INVARIANT InvA
INVARIANT InvB
INVARIANT InvC
INVARIANT InvD
INVARIANT InvE

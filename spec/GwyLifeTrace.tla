--------------------------- MODULE GwyLifeTrace ---------------------------
(* Executions of a real Gateway driven through its life cycle (harness/qos_gw.py) folded through the functional   *)
(* core of GwyLife: every recorded step (start()/stop() called and returned, a transport made / announcing /      *)
(* closed / dead, the protocol's connection_made / connection_lost callbacks at their linearisation points) must  *)
(* be the step the model takes, and at every quiescent projection the live objects must be in the model's state.  *)
(* A mismatch is DRIFT (the model no longer describes the code), never a verdict: the property clauses of these   *)
(* executions are judged by QosTrace / QosContract on the same items.                                              *)
EXTENDS GwyLife, TLC, Json, IOUtils

Traces == JsonDeserialize(IOEnv.TRACE_FILE)
NoSilent == {}

VARIABLES tid, l, fail       \* (the model state is GwyLife's own variable g)
tvars == <<tid, l, g, fail>>

TInit == tid \in 1..Len(Traces) /\ l = 1 /\ g = G0 /\ fail = <<>>

Dead(t) == {Traces[t].dead[n] : n \in 1..Len(Traces[t].dead)}
Pop(x)  == [x EXCEPT !.q = Tail(@)]
Out(e)  == IF e.k = "ok" THEN "ok" ELSE e.s
Last(x) == IF x.rets = <<>> THEN "none" ELSE x.rets[1][2]

\* <<new model state, "" or what does not fit>>
Fold(x, e, dead) ==
  CASE e.e = "StartCall" -> <<StartCallS(x, (x.ntp + 1) \in dead), IF x.st = "none" THEN "" ELSE "start-while-starting">>
    [] e.e = "TpNew"     -> <<x, IF e.n = x.ntp THEN "" ELSE "transport-number">>
    [] e.e = "TpAnn"     -> IF e.n \in x.ann THEN <<Announce(x, e.n), "">> ELSE <<x, "announcement-not-expected">>
    [] e.e = "ConnMade"  -> IF x.q # <<>> /\ Head(x.q)[1] = "made" /\ Head(x.q)[2] = e.n
                            THEN <<ConnMade(Pop(x), e.n), "">> ELSE <<x, "connection_made-not-next">>
    [] e.e = "ConnLost"  -> IF x.q # <<>> /\ Head(x.q)[1] = "lost"
                            THEN <<ConnLost(Pop(x), Head(x.q)[3]), "">> ELSE <<x, "connection_lost-not-next">>
    [] e.e = "FactoryRet" /\ e.k = "ok" ->
                            IF x.st = "wait" /\ x.stW THEN <<FactoryOk(x), "">> ELSE <<x, "factory-returned-unawoken">>
    [] e.e = "StartRet"  -> IF x.st = "none"        \* the model's start() ended with the factory's return: same outcome?
                            THEN <<x, IF x.rets # <<>> /\ x.rets[1][1] = "start" /\ Last(x) = Out(e) THEN "" ELSE "start-outcome">>
                            ELSE IF e.k = "ok" THEN (IF x.st = "wait2" /\ x.stW THEN <<StartOk(x), "">>
                                                      ELSE <<[x EXCEPT !.st = "none"], "start-ok-unawoken">>)
                            ELSE IF e.s = "TransportError" /\ ~x.stW /\ x.made = "pend"
                                 THEN <<StartTimeout(x), "">>
                            ELSE IF e.s = "CancelledError" /\ x.made = "cancelled"
                                 THEN <<StartCancelled(x), "">>
                            ELSE <<[x EXCEPT !.st = "none"], "start-outcome">>
    \* (a second stop() while one is under way waits for the same notification: no step of its own)
    [] e.e = "StopCall"  -> <<IF x.sp = "none" THEN StopCall(x) ELSE x, "">>
    [] e.e = "TpClose"   -> IF x.sp = "cancel" /\ e.n = x.tp /\ e.n \notin x.closed THEN <<StopClose(x), "">>
                            ELSE <<x, "close-not-expected">>
    [] e.e = "TpDied"    -> <<Close(x, e.n, e.a = 1), "">>
    [] e.e = "StopRet"   -> LET c == IF x.sp = "cancel" THEN StopClose(x) ELSE x      \* nothing was left to close
                                y == IF c.sp # "wait" THEN c
                                     ELSE IF c.lost = "done" THEN StopDone(c) ELSE StopTimeout(c)
                            IN <<y, IF y.rets # <<>> /\ Last(y) = Out(e) /\ y.rets[1][1] = "stop" THEN "" ELSE "stop-outcome">>
    [] e.e = "Proj"      -> <<x, IF e.k # (IF x.ctx = "Idle" THEN "IsInIdle" ELSE "Inactive") THEN "proj-context"
                                 ELSE IF e.n # x.tp THEN "proj-engine-transport"
                                 ELSE IF (e.a = 1) # (x.made = "done") THEN "proj-made-future"
                                 ELSE IF e.b # (CASE x.lost = "none" -> 0 [] x.lost = "pend" -> 1 [] OTHER -> 2) THEN "proj-lost-future"
                                 ELSE IF (e.p = 1) # x.act THEN "proj-active-gateway"
                                 ELSE "">>
    [] OTHER -> <<x, "">>

TStep == /\ l <= Len(Traces[tid].ev)
         /\ LET r == Fold(g, Traces[tid].ev[l], Dead(tid)) IN
            /\ g' = r[1]
            /\ fail' = IF r[2] # "" /\ fail = <<>> THEN <<l, r[2]>> ELSE fail
         /\ l' = l + 1
         /\ UNCHANGED tid

TSpec == TInit /\ [][TStep]_tvars

Verdict == (l > Len(Traces[tid].ev)) => PrintT(<<"VERDICT", tid, fail>>)
=============================================================================

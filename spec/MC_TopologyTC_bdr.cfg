\* Transition coverage (thorough): 1 controller, zones 00 and 01 in range, a thermostat, a TRV and a relay, class 08,
\* eavesdropping on; the thermostat and the TRV may be asked to be faked            (52 435 transitions)
CONSTANTS
  Ctls <- MCCtls1
  ZoneIds <- MCZones2
  ZNum <- MCZNum
  MaxZones = 2
  Devs <- MCDevsTC3
  PairDevs <- MCDevsTC
  TypeOf <- MCTypeOf
  Classes = {"08"}
  Eavesdrop = TRUE
  FakeDevs <- MCFakeTC
  MaxClaims = 40
SPECIFICATION TCSpec
VIEW TCView
INVARIANT OnePlace
INVARIANT ZonesInRange

---------------------------- MODULE MC_Snapshot ----------------------------
(* Bounded instances of Snapshot (C16).  Code 1 = an ordinary stateful code, 2 = the schedule
   fragment code (0404-like), 3 = the date/time code (313F-like). *)
EXTENDS Snapshot
CONSTANTS MaxMsgs
(* trim the message universe: `long` only matters for the schedule code, arrays only for code 1 *)
Trim(m) == /\ (m.code # SchedCode => ~m.long)
           /\ (m.arr => m.code = 1)
           /\ (m.verb = "W" => m.code = SchedCode)
           /\ (m.code # 1 => m.zs = {"z0"})
           /\ (m.code = SchedCode => (~m.exp /\ m.verb # "RQ"))
           /\ (m.code = TimeCode => m.verb # "I")
Universe == {x \in Msgs : Trim(x) /\ WellFormed(x)}
BNext == \/ n < MaxMsgs /\ \E m \in Universe : Receive(m)
         \/ Snap1 \/ Restore2 \/ Snap2 \/ Again
BSpec == Init /\ [][BNext]_vars
View == <<g1, n, phase, ie, s1, g2, s2, s3, s4, IF Chrono /\ h # <<>> THEN h[Len(h)].t ELSE 0>>
=============================================================================

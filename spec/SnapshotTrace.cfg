SPECIFICATION TSpec
CONSTANTS
  Src = {"c1"}
  Zone = {"z0"}
  Code = {1}
  TimeCode = 3
  SchedCode = 2
  Times = {1}
  PurgeOnRead = TRUE
  Chrono = FALSE
INVARIANT Verdict

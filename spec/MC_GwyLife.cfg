\* the code as repaired: 4 transports, the second port stays silent
CONSTANTS MaxTp = 4  Silent <- Silent2  FixActive = TRUE  FixShield = TRUE
SPECIFICATION Spec
INVARIANT NoTrip
INVARIANT StartOkMeansServing
INVARIANT StopMeansInactive
INVARIANT Restartable
INVARIANT CtxTracksConnection
CHECK_DEADLOCK FALSE

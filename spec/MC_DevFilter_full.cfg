SPECIFICATION Spec
CONSTANTS
  HgiOpts = {"no", "explicit", "implicit"}
  PhOpts = {"none", "known", "block"}
  FgnOpts = {"none", "known", "block"}
INVARIANT Partition
INVARIANT CodeEqualsRule
INVARIANT BlockBeatsAllow
INVARIANT GatewayExempt
INVARIANT GatewayBlocked
INVARIANT PlaceholderTx
INVARIANT PlaceholderRx
INVARIANT EmptyKnownOff
INVARIANT NotEnforcedOnlyBlock
INVARIANT BroadcastNullFree
INVARIANT TxNoStricter

-------------------------------- MODULE TxMath --------------------------------
(* C11 - the arithmetic of the two transmit regulators of ramses_tx.transport, shared by the
   concurrent model (TxRegulator), the contract and the conformance checks (TxTrace).

   Serial:  1 tick = 0.1 ms, 1 unit = 1e-4 bit.  Rate = units per tick, Cap = bucket capacity.
   MQTT:    n = MAX_TRANSMIT_RATE_TOKENS per window of `win` seconds; token units see below.     *)
EXTENDS Integers

CONSTANTS Rate, Cap

Min(a, b) == IF a < b THEN a ELSE b
Max(a, b) == IF a > b THEN a ELSE b
CeilDiv(a, b) == (a + b - 1) \div b

(* refill of a bucket at level b <= Cap (possibly in debt) over dt ticks, without ever forming a
   product above Cap - b + Rate (32-bit safe while the debt stays below ~1.9e9 units)              *)
Refill(b, dt) == IF dt >= CeilDiv(Cap - b, Rate) THEN Cap ELSE b + dt * Rate

(* limit_duty_cycle.wrapper: bits_in_bucket = min(bits_in_bucket + elapsed * FILL_RATE, BUCKET_CAPACITY) *)
TopUp(b, last, t)   == Refill(b, t - last)
(* ... if bits_in_bucket < rf_frame_size: sleep((rf_frame_size - bits_in_bucket) / FILL_RATE) *)
SleepTicks(b, size) == IF b < size THEN CeilDiv(size - b, Rate) ELSE 0

(* the contract's own (shadow) bucket: recomputed from write events only *)
ShadowAfter(s, lastw, t, size) == Refill(s, t - lastw) - size

(* MqttTransport.write_frame.  Exact integer units: one token = win * 10000 units (the number of
   ticks in the window), so that the refill rate  n tokens per window  is exactly n units per tick. *)
OneTok(win) == win * 10000
TokRefill(n, win, dt) == Min(dt, 2 * win * 10000 + 1) * n
TokTopUp(tok, mx, n, win, dt) == Min(tok + TokRefill(n, win, dt), mx)
TokDrops(tok, n, win) == tok < OneTok(win) - n * 10000                 \* "num_tokens < 1.0 - TOKEN_RATE": would sleep >= 1 s
TokNewMax(mx, tokAfter, n, win) == IF mx > n * OneTok(win) THEN Max(Min(mx, tokAfter), n * OneTok(win)) ELSE mx
TokSleepTicks(tokAfter, n) == IF tokAfter < 0 THEN CeilDiv(0 - tokAfter, n) ELSE 0
=============================================================================

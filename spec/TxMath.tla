-------------------------------- MODULE TxMath --------------------------------
(* C11 - the arithmetic of the two transmit regulators of ramses_tx.transport, shared by the
   concurrent model (TxRegulator), the contract and the conformance checks (TxTrace).

   Serial:  1 tick = 0.1 ms, 1 unit = 1e-4 bit.  Rate = units per tick, Cap = bucket capacity.
   MQTT:    milli-tokens; maxtok = MAX_TRANSMIT_RATE_TOKENS * 1000 per window of `win` seconds.   *)
EXTENDS Integers

CONSTANTS Rate, Cap

Min(a, b) == IF a < b THEN a ELSE b
Max(a, b) == IF a > b THEN a ELSE b
CeilDiv(a, b) == (a + b - 1) \div b

(* elapsed ticks, clipped at one full refill (+1) so that products stay below 2^31 *)
Clip(dt) == Min(dt, CeilDiv(Cap, Rate) + 1)

(* limit_duty_cycle.wrapper: bits_in_bucket = min(bits_in_bucket + elapsed * FILL_RATE, BUCKET_CAPACITY) *)
TopUp(b, last, t)   == Min(b + Clip(t - last) * Rate, Cap)
(* ... if bits_in_bucket < rf_frame_size: sleep((rf_frame_size - bits_in_bucket) / FILL_RATE) *)
SleepTicks(b, size) == IF b < size THEN CeilDiv(size - b, Rate) ELSE 0

(* the contract's own (shadow) bucket: recomputed from write events only *)
ShadowAfter(s, lastw, t, size) == Min(s + Clip(t - lastw) * Rate, Cap) - size

(* MqttTransport.write_frame *)
TokPerSec(maxtok, win) == maxtok \div win
TokRefill(maxtok, win, dt) == (Min(dt, 2 * win * 10000 + 1) * TokPerSec(maxtok, win)) \div 10000
TokTopUp(tok, mx, maxtok, win, dt) == Min(tok + TokRefill(maxtok, win, dt), mx)
TokDrops(tok, maxtok, win) == tok < 1000 - TokPerSec(maxtok, win)        \* "would have to sleep >= 1 second"
TokNewMax(mx, tokAfter, maxtok) == IF mx > maxtok THEN Max(Min(mx, tokAfter), maxtok) ELSE mx
TokSleepTicks(tokAfter, maxtok, win) == IF tokAfter < 0 THEN CeilDiv((0 - tokAfter) * 10000, TokPerSec(maxtok, win)) ELSE 0
=============================================================================

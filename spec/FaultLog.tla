------------------------------ MODULE FaultLog ------------------------------
(* C19 - the fault-log view (src/ramses_rf/system/faultlog.py).

   Implementation-shaped: Insert is FaultLog._insert_into_map expression by expression,
   ProcEntry/ProcNull are the two branches of FaultLog._process_msg, HandleRp/HandleI are
   FaultLog.handle_msg, ReadTurn is one turn of the loop in FaultLog.get_faultlog (the
   reply reaches handle_msg through the dispatcher first, then get_faultlog processes it
   again).  The environment is a simulated controller log (newest first, at most Depth
   entries, strictly increasing timestamps) observed through announcements (delivered or
   lost, repeated), single-entry replies at arbitrary positions (entry or null), a
   cleared log, and read-throughs get_faultlog(start, limit) with other traffic in between
   its exchanges.

   Repair = FALSE transcribes the repository.  Repair = TRUE is the proposed two-line
   repair of _insert_into_map (proposed_fixes/C19-insert-into-map.diff).  PushOnNew = TRUE
   additionally models a possible repair of clause d (not proposed: the repository's own
   test_faultlog_instantiation_4 pins the gap-filling behaviour; see checks/c19_NOTES.md).

   The property clauses (DESIGN.md App. A, C19 a-d) are state predicates over the
   variables, so FaultLogTrace (which EXTENDS this module and assigns the *recorded* view
   of the real object to map/log) evaluates the very same formulas on real executions.
   No bounds in here (MC_FaultLog adds them).                                          *)
EXTENDS Naturals, Sequences, FiniteSets, TLC

CONSTANTS Depth,      \* capacity of the controller's log
          MaxIdx,     \* FaultLog._MAX_LOG_IDX  (0x3E in the repository)
          Starts,     \* values of get_faultlog(start=...)
          Limits,     \* values of get_faultlog(limit=...)
          Kinds,      \* enabled environment event kinds (subset of AllKinds)
          Repair,     \* BOOLEAN  - repaired _insert_into_map
          PushOnNew   \* BOOLEAN  - repaired announcement handling

VARIABLES map,        \* FaultLog._map         : idx -> timestamp     (the view's positions)
          log,        \* keys of FaultLog._log : set of timestamps    (the view's entries)
          clog,       \* controller: sequence of timestamps, newest first
          nts,        \* controller: last timestamp issued
          reported,   \* timestamps carried by any message that reached the FaultLog
          rd,         \* the running get_faultlog, if any
          nev,        \* number of environment events so far (bounded in MC_*)
          h,          \* one-step history: pre-state and event (for -dump and clause d)
          trips       \* names of the clauses that do not hold in this state (evaluated by TLC)
vars == <<map, log, clog, nts, reported, rd, nev, h, trips>>

AllKinds == {"new", "reply", "again", "clear", "rstart"}
None     == 0                       \* "no timestamp" (null entry)
Empty    == [k \in {} |-> 0]
Range(f) == {f[k] : k \in DOMAIN f}
Min(S)   == CHOOSE x \in S : \A y \in S : x <= y
Merge(a, b)    == [k \in DOMAIN a \cup DOMAIN b |-> IF k \in DOMAIN b THEN b[k] ELSE a[k]]  \* python  a |= b
Restrict(m, S) == [k \in S |-> m[k]]
Idle == [st |-> "idle", pos |-> 0, lo |-> 0, hi |-> 0, dirty |-> FALSE]

-----------------------------------------------------------------------------
(* FaultLog._insert_into_map(idx, dtm)  ->  new map                                        *)
Insert(m, idx, dtm) ==
  LET n1 == Restrict(m, {k \in DOMAIN m : k < idx /\ (dtm = None \/ m[k] > dtm)}) IN
  IF dtm = None THEN n1 ELSE
  LET n2   == Merge(n1, [k \in {idx} |-> dtm])
      idxs == {k \in DOMAIN m : m[k] < dtm} IN
  IF idxs = {} THEN n2 ELSE
  LET nx   == Min(idxs)
      diff == IF nx > idx THEN 0
              ELSE IF nx = idx THEN 1
              ELSE IF Repair THEN idx + 1 - nx ELSE idx + 1
      src  == {k \in DOMAIN m : (IF Repair THEN m[k] < dtm ELSE (k >= idx \/ m[k] < dtm))
                                /\ k + diff <= MaxIdx}
  IN Merge(n2, [j \in {k + diff : k \in src} |-> m[j - diff]])

(* a possible announcement repair: an I for idx 0 whose timestamp is newer than everything
   known always pushes by one (the repository fills a gap at the top instead)              *)
InsertNew(m, dtm) ==
  IF PushOnNew /\ m # Empty /\ (\A k \in DOMAIN m : m[k] < dtm) /\ 0 \notin DOMAIN m
  THEN Merge([k \in {0} |-> dtm],
             [j \in {k + 1 : k \in {x \in DOMAIN m : x + 1 <= MaxIdx}} |-> m[j - 1]])
  ELSE Insert(m, 0, dtm)

(* FaultLog._process_msg, entry branch / null branch; s = [m |-> map, l |-> log keys]      *)
ProcEntry(s, idx, dtm, isI) ==
  IF idx \in DOMAIN s.m /\ s.m[idx] = dtm THEN s                  \* "no evidence anything has changed"
  ELSE LET m2 == IF isI /\ idx = 0 THEN InsertNew(s.m, dtm) ELSE Insert(s.m, idx, dtm)
       IN [m |-> m2, l |-> (s.l \cup {dtm}) \cap Range(m2)]
ProcNull(s, idx) ==
  LET m2 == Insert(s.m, idx, None) IN [m |-> m2, l |-> s.l \cap Range(m2)]

(* FaultLog.handle_msg: a null RP is ignored (its idx is unknowable), a null I is idx 0     *)
HandleRp(s, idx, dtm) == IF dtm = None THEN s ELSE ProcEntry(s, idx, dtm, FALSE)
HandleI(s, dtm)       == IF dtm = None THEN ProcNull(s, 0) ELSE ProcEntry(s, 0, dtm, TRUE)

(* one turn of get_faultlog's loop for the RQ of index idx                                 *)
ReadTurn(s, idx, dtm) ==
  IF dtm = None THEN (IF idx = 0 THEN s                           \* RQ idx 00: _hack_pkt_idx leaves the null RP
                                                                   \* without a log_idx and _process_msg returns
                      ELSE ProcNull(HandleRp(s, idx, None), idx))  \* _hack_pkt_idx + _process_msg
  ELSE ProcEntry(HandleRp(s, idx, dtm), idx, dtm, FALSE)          \* "JIC dispatcher doesn't"

-----------------------------------------------------------------------------
(* Property clauses (DESIGN App. A, C19).  Over the variables only.                        *)
\* a1 "no entry appearing at two positions"
NoDup    == \A i, j \in DOMAIN map : i # j => map[i] # map[j]
\* a2 "ordered newest-first": a lower index never holds an older entry
Ordered  == \A i, j \in DOMAIN map : i < j => map[i] >= map[j]
\* a3 "no entry that the controller never reported"
Subset   == Range(map) \subseteq reported
\* b  "reading it never raises": every position of the view has its entry (model side of b;
\*    on real executions the trace spec looks at the recorded exception instead)
Readable == Range(map) \subseteq log
\* c  "After the log has been read through from the top with nothing changing meanwhile, the
\*    view equals the controller's log over the range read": indices lo..pos-1 were asked; a
\*    null reply at index i says the log ends there.
\*    (stated for any caller's read record r: every get_faultlog call is judged over its own range at its own return)
ConvergedRange(r) == \A i \in 0..(r.pos - 1) :
                        IF i < Len(clog) THEN i \in DOMAIN map /\ map[i] = clog[i + 1]
                        ELSE \A k \in DOMAIN map : k < i
ConvergedOf(r) == (r.st = "done" /\ ~r.dirty /\ r.lo = 0) => ConvergedRange(r)
Converged == ConvergedOf(rd)
\* d  "an unsolicited announcement of a new entry pushes the known entries down by one"
AnnounceShift ==
  (h.ev[1] = "new" /\ h.ev[2] = 1) =>
     LET pm == h.pre.map
         sh == {k \in DOMAIN pm : k + 1 <= MaxIdx} IN
     /\ 0 \in DOMAIN map /\ map[0] = nts
     /\ DOMAIN map = {0} \cup {k + 1 : k \in sh}
     /\ \A k \in sh : map[k + 1] = pm[k]

\* a/c for the other three public projections of the view (latest_event, latest_fault, active_faults): they are
\*    projections of ONE view - the entries the `faultlog` mapping shows, newest first.  Entry contents of the
\*    simulated controller: an odd timestamp is a fault, the even one after it is the restore of that fault, and every
\*    fault/restore pair has a device of its own (so "outstanding" is unambiguous: the fault's restore is not held).
\*    T = the timestamps in the view; le/lf = timestamp shown (None: nothing); af = timestamps shown, in order.
IsFault(ts)      == ts % 2 = 1
SetMax(T)        == CHOOSE x \in T : \A y \in T : x >= y
RECURSIVE DescSeq(_)
DescSeq(T)       == IF T = {} THEN <<>> ELSE LET x == SetMax(T) IN <<x>> \o DescSeq(T \ {x})
LatestEventOf(T) == IF T = {} THEN None ELSE SetMax(T)
LatestFaultOf(T) == LET F == {t \in T : IsFault(t)} IN IF F = {} THEN None ELSE SetMax(F)
ActiveOf(T)      == DescSeq({t \in T : IsFault(t) /\ (t + 1) \notin T})
ViewsAgree(T, le, lf, af) == le = LatestEventOf(T) /\ lf = LatestFaultOf(T) /\ af = ActiveOf(T)

ClauseNames == {"NoDup", "Ordered", "Subset", "Readable", "Converged", "AnnounceShift"}
Holds(c) == CASE c = "NoDup" -> NoDup [] c = "Ordered" -> Ordered [] c = "Subset" -> Subset
              [] c = "Readable" -> Readable [] c = "Converged" -> Converged
              [] c = "AnnounceShift" -> AnnounceShift
Trips == {c \in ClauseNames : ~Holds(c)}

-----------------------------------------------------------------------------
(* the simulated controller and the effect of each event                                   *)
CtlAt(cl, i)   == IF i < Len(cl) THEN cl[i + 1] ELSE None          \* RQ idx i -> timestamp / null
CtlNew(cl, ts) == SubSeq(<<ts>> \o cl, 1, IF Len(cl) + 1 > Depth THEN Depth ELSE Len(cl) + 1)
S     == [m |-> map, l |-> log]
Pre   == [map |-> map, log |-> log, clog |-> clog, nts |-> nts, reported |-> reported, rd |-> rd, nev |-> nev]
DirtyOf(r) == IF r.st = "run" THEN [r EXCEPT !.dirty = TRUE] ELSE r
Dirty == DirtyOf(rd)
\* a get_faultlog(start=a, limit=b) call's read record when it starts / after the reply dtm to its pending RQ
RdStart(a, b)     == [st |-> "run", pos |-> a, lo |-> a, hi |-> IF a + b < 64 THEN a + b ELSE 64, dirty |-> FALSE]
RdStepped(r, dtm) == [r EXCEPT !.pos = r.pos + 1, !.st = IF dtm = None \/ r.pos + 1 >= r.hi THEN "done" ELSE "run"]

(* Eff(ev): what event ev = <<kind, a, b>> does.  en = enabled; s = the view afterwards as the
   transcription predicts it; ts = the timestamp carried to the FaultLog (None: null / nothing) *)
Eff(ev) ==
  LET k == ev[1]  a == ev[2]  b == ev[3]  live == rd.st # "done" IN
  CASE k = "new"    ->  \* a fault/restore is logged; its announcement (I, idx 00) is delivered (a=1) or lost
         [en |-> live /\ "new" \in Kinds /\ a \in {0, 1}, s |-> IF a = 1 THEN HandleI(S, nts + 1) ELSE S,
          clog |-> CtlNew(clog, nts + 1), nts |-> nts + 1, ts |-> IF a = 1 THEN nts + 1 ELSE None,
          rd |-> Dirty, cnt |-> 1]
    [] k = "reply"  ->  \* somebody's RQ for index a is answered and the RP is heard (entry or null)
         [en |-> live /\ "reply" \in Kinds /\ a \in 0..Depth, s |-> HandleRp(S, a, CtlAt(clog, a)),
          clog |-> clog, nts |-> nts, ts |-> CtlAt(clog, a), rd |-> rd, cnt |-> 1]
    [] k = "again"  ->  \* the controller repeats the announcement of its newest entry (null if empty)
         [en |-> live /\ "again" \in Kinds, s |-> HandleI(S, CtlAt(clog, 0)),
          clog |-> clog, nts |-> nts, ts |-> CtlAt(clog, 0), rd |-> rd, cnt |-> 1]
    [] k = "clear"  ->  \* the controller's log is cleared; the null announcement is delivered (a=1) or not
         [en |-> live /\ "clear" \in Kinds /\ clog # <<>> /\ a \in {0, 1}, s |-> IF a = 1 THEN HandleI(S, None) ELSE S,
          clog |-> <<>>, nts |-> nts, ts |-> None, rd |-> Dirty, cnt |-> 1]
    [] k = "rstart" ->  \* get_faultlog(start=a, limit=b) is called and sends its first RQ
         [en |-> "rstart" \in Kinds /\ rd.st = "idle" /\ a \in Starts /\ b \in Limits, s |-> S,
          clog |-> clog, nts |-> nts, ts |-> None,
          rd |-> RdStart(a, b), cnt |-> 1]
    [] k = "rstep"  ->  \* the pending RQ (index a = rd.pos) is answered; the loop breaks on null / at the limit
         LET dtm == CtlAt(clog, rd.pos) IN
         [en |-> rd.st = "run" /\ a = rd.pos, s |-> ReadTurn(S, rd.pos, dtm),
          clog |-> clog, nts |-> nts, ts |-> dtm, rd |-> RdStepped(rd, dtm), cnt |-> 0]
    [] k = "rend"   ->  \* get_faultlog has returned ("done" is only the observation point of clause c)
         [en |-> rd.st = "done", s |-> S, clog |-> clog, nts |-> nts, ts |-> None, rd |-> Idle, cnt |-> 0]

Events == {<<"new", d, 0>> : d \in {0, 1}} \cup {<<"clear", d, 0>> : d \in {0, 1}}
          \cup {<<"reply", i, 0>> : i \in 0..Depth} \cup {<<"again", 0, 0>>}
          \cup {<<"rstart", s, n>> : s \in Starts, n \in Limits}
          \cup {<<"rstep", rd.pos, 0>>, <<"rend", 0, 0>>}

Init == /\ map = Empty /\ log = {} /\ clog = <<>> /\ nts = 0 /\ reported = {}
        /\ rd = Idle /\ nev = 0 /\ h = [pre |-> <<>>, ev |-> <<"init", 0, 0>>] /\ trips = {}

(* the environment half of a step (shared with FaultLogTrace) *)
(* also: timestamps the harness says were carried besides f.ts - when a call did not return where the plan
   ends, the harness goes on answering from the controller's log until it does *)
EnvStepX(ev, f, also) ==
  /\ clog' = f.clog /\ nts' = f.nts /\ rd' = f.rd /\ nev' = nev + f.cnt
  /\ reported' = (IF f.ts = None THEN reported ELSE reported \cup {f.ts}) \cup also
  /\ h' = [pre |-> Pre, ev |-> ev]
EnvStep(ev, f) == EnvStepX(ev, f, {})

Next == \E ev \in Events :
          LET f == Eff(ev) IN
          /\ f.en
          /\ EnvStep(ev, f)
          /\ map' = f.s.m /\ log' = f.s.l
          /\ trips' = Trips'
Spec == Init /\ [][Next]_vars
=============================================================================

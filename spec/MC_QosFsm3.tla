---- MODULE MC_QosFsm3 ----
EXTENDS QosFsm
\* three callers with two priorities: 1 = I-type (echo only), 2 = RQ awaiting its reply, 3 = urgent RQ, echo only
HasRxC      == (1 :> FALSE) @@ (2 :> TRUE) @@ (3 :> TRUE)
WfrC        == (1 :> FALSE) @@ (2 :> TRUE) @@ (3 :> FALSE)
MaxRetriesC == (1 :> 1) @@ (2 :> 1) @@ (3 :> 0)
PrioC       == (1 :> 2) @@ (2 :> 2) @@ (3 :> 0)
====

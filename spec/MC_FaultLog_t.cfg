SPECIFICATION Spec
CONSTANTS Depth = 5  MaxIdx = 62  MaxTs = 6  MaxEv = 6
  Starts <- Starts01  Limits <- LimitsAll  Kinds <- KindsAll  Repair = FALSE  PushOnNew = FALSE  KnownTrips <- TripsOrig
CONSTRAINT Bound
INVARIANT TripsKnown
CHECK_DEADLOCK FALSE

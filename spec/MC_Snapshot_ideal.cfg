\* chronological arrival and no purge-on-read: every law holds strictly
SPECIFICATION BSpec
CONSTANTS
  Src = {"c1"}
  Zone = {"z0", "z1"}
  Code = {1, 2, 3}
  TimeCode = 3
  SchedCode = 2
  Times = {1, 2}
  PurgeOnRead = FALSE
  Chrono = TRUE
  MaxMsgs = 3
VIEW View
INVARIANT FixA
INVARIANT IdemB
INVARIANT NoGain
INVARIANT ContentC
INVARIANT UniqueT

SPECIFICATION Spec
CONSTANTS MaxTrys = 3  Sending = TRUE  MaxRx = 4
INVARIANT TypeOK
INVARIANT MadeAtMostOnce
INVARIANT IdIsTheEchoes
INVARIANT ReportedIdStable
INVARIANT SigBudget
INVARIANT DeliveredIsPrefix
PROPERTY EventuallyMade
PROPERTY EventuallyAllDelivered
CHECK_DEADLOCK FALSE

---------------------------- MODULE MC_SchedFrags ----------------------------
(* Bounded instances mirroring the concrete catalogue of harness/ext_c17.py (checks/c17.py asserts
   that the real fragment counts equal NFc):  hot water: D1, D2 one fragment, E two, F four (the
   logged packets of tests/schedules/sched_dhw);  zone 01: A three (the logged packets of
   tests/schedules/sched_001), B three, C two.                                            *)
EXTENDS SchedFrags
CONSTANTS MaxEv
ZonesC  == {"HW", "Z1"}
VersC   == {"D1", "D2", "E", "A", "B", "C"}
VersT   == VersC \cup {"F"}
NFc     == [v \in VersT |-> CASE v \in {"D1", "D2"} -> 1 [] v \in {"E", "C"} -> 2 [] v = "F" -> 4 [] OTHER -> 3]
ZoneOfC == [v \in VersT |-> IF v \in {"D1", "D2", "E", "F"} THEN "HW" ELSE "Z1"]
Bound   == nev <= MaxEv
=============================================================================

---------------------------- MODULE MC_FrameGrammar ----------------------------
(* Bounded instance: the abstract cross product of DESIGN §4/C02, one frame per state.            *)
(* Representative tokens: NON, ALL, HGI, devA, devB, devA' (type 63 that is not the broadcast id); *)
(* known/unknown code; (len field, payload bytes) pairs incl. mismatches, 0 and 49 bytes.          *)
(* The states are also written with -dump: the check concretises them (device types, payload      *)
(* bytes, sequence numbers, codes) and feeds them to the real constructors.                        *)
EXTENDS Integers, Sequences, FiniteSets, TLC

CONSTANTS Impl, Seqns, Addrs, Codes, LenPairs

INSTANCE FrameGrammar

VARIABLES f, stage      \* stage 0 = seed (verb, seqn, a0 chosen), stage 1 = a complete frame
vars == <<f, stage>>

PaySrc == "00A5A5A5A5A5A5A5A5A5A5A5A5A5A5A5A5A5A5A5A5A5A5A5A5A5A5A5A5A5A5A5A5A5A5A5A5A5A5A5A5A5A5A5A5A5A5A5A5A5"
Pay(n) == SubSeq(PaySrc, 1, 2 * n)

\* TLC computes initial states on one thread; seeding and expanding lets all workers share the product
Init == /\ stage = 0
        /\ \E v \in Verbs, s \in Seqns, x \in Addrs :
             f = [verb |-> v, seqn |-> s, a0 |-> x, a1 |-> NON, a2 |-> NON, code |-> "0000", len |-> "000", payload |-> ""]
Next == /\ stage = 0 /\ stage' = 1
        /\ \E y \in Addrs, z \in Addrs, c \in Codes, lp \in LenPairs :
             f' = [f EXCEPT !.a1 = y, !.a2 = z, !.code = c, !.len = Dec3(lp[1]), !.payload = Pay(lp[2])]
Spec == Init /\ [][Next]_vars

InvParsePrint == stage = 1 => L_ParsePrint(f)
InvLenField == stage = 1 => L_LenField(f)
InvSrcDst == stage = 1 => L_SrcDst(f)
InvCli == stage = 1 => L_Cli(f)
\* sanity of the enumeration itself: the three shapes are all inhabited and mutually exclusive
InvShapesDisjoint == stage = 1 =>
  Cardinality({i \in 1..3 : CASE i = 1 -> f.a0 \notin {NON, ALL} /\ f.a1 = NON /\ f.a2 # NON
                             [] i = 2 -> f.a0 \notin {NON, ALL} /\ f.a1 \notin {NON, f.a0} /\ f.a2 = NON
                             [] i = 3 -> f.a2 \notin {NON, ALL} /\ f.a0 = NON /\ f.a1 = NON}) <= 1

NoImpl == {}
ImplCli == {"cli_cut48"}
SeqnsC == {"---", "000", "001", "255"}
AddrsC == {NON, ALL, HGI, "01:145038", "04:056057", "63:000001"}
CodesC == {"0008", "7FFE"}
LenPairsC == {<<1, 1>>, <<2, 2>>, <<24, 24>>, <<25, 25>>, <<47, 47>>, <<48, 48>>, <<49, 49>>, <<0, 0>>, <<1, 2>>, <<48, 47>>}
=============================================================================

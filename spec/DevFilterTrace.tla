--------------------------- MODULE DevFilterTrace ---------------------------
(* C10 - table validation.  Every item is one configuration run at one level on the real
   objects:  [cfg, conns, lvl, rows], a row = what was put in (src, dst, shape, dir) and what the
   real code did (delivered, newdevs, refused, written, cansend, wanted).  conns = what happened
   to the protocol object's connection between the one cfg.act describes and these rows ("lost",
   and the act of every later connection_made; <<>> = nothing): the clauses are evaluated under
   the configuration in force then, DevFilter!InForce (J24).
   TLC evaluates the clauses of DESIGN.md App. A / C10 with the operators of DevFilter:
     a  block-listed src/dst: never delivered, gives rise to no device          (rx)
     b  ... a command to/from it is refused before it reaches the radio          (tx)
     c  the same for ids outside the enforced known list                          (rx, tx)
     d  all addresses allowed: always delivered / written                         (rx, tx)
   Mode = "clauses": first failing clause per item;  Mode = "drift": first row on which the
   code departs from the clause-by-clause model CodeWanted (never a verdict by itself).   *)
EXTENDS DevFilter, Integers, Sequences, Json, IOUtils

CONSTANT Mode
Traces == JsonDeserialize(IOEnv.TRACE_FILE)

VARIABLES tid, l, fail, cs      \* cs: the code model's filter state after the item's history (drift mode)
vars == <<tid, l, fail, cs>>

RowOf(t, e) == [cfg |-> InForce(t.cfg, t.conns), src |-> e.src, dst |-> e.dst, shape |-> e.shape, dir |-> e.dir]

WellFormed(t, e) == /\ e.src \in Roles /\ e.dst \in Roles /\ e.shape \in Shapes /\ e.dir \in Dirs
                    /\ Expressible(e.src, e.dst, e.shape)

(* Gateway._restore_cached_packets() feeds a temporary protocol to which no application handler is
   attached: at that level only "gives rise to a device" can be observed.                          *)
\* ("app": the application - or a payload naming a device - asks Gateway.get_device() for an id directly: no packet)
DeliveryObservable(t) == t.lvl \notin {"restore", "app"}

(* "... nor gives rise to a device".  Where delivery is observable a dropped packet must leave no new
   device at all.  In the restore path the library deliberately does not enforce the known list in the
   temporary protocol unless the list names its gateway (comment in _restore_cached_packets), and relies
   on Gateway.get_device.check_filter_lists instead: there the clause is read as "no device arises for
   an id that is itself not allowed"; when no active gateway is known the library's stand-in for it is
   18:000730 (protocol.hgi_id) - whether that stand-in may become a device is left open.               *)
DeviceOk(role, c) == /\ role \in Roles
                     /\ \/ AllowedId(role, c, "rx")
                        \/ role = "Placeholder" /\ ActiveId(c) = "NoId" /\ role \notin Block(c)
BadDevice(t, e) == IF DeliveryObservable(t) THEN e.newdevs > 0
                   ELSE \E i \in 1..Len(e.devroles) : ~DeviceOk(e.devroles[i], t.cfg)

ClauseOf(t, e) ==
  LET r == RowOf(t, e) IN
  IF ~WellFormed(t, e) THEN "harness:row"
  ELSE IF MustDrop(r) = MustPass(r) THEN "harness:partition"
  ELSE IF MustDrop(r) THEN
         IF e.dir = "rx" THEN
              IF DeliveryObservable(t) /\ e.delivered THEN DropClause(r) \o ":delivered"
              ELSE IF BadDevice(t, e) THEN DropClause(r) \o ":device"
              ELSE ""
         ELSE IF e.written THEN (IF DropClause(r) = "a" THEN "b" ELSE "c") \o ":written"
              ELSE IF ~e.refused THEN (IF DropClause(r) = "a" THEN "b" ELSE "c") \o ":not_refused"
              ELSE ""
  ELSE \* MustPass
         IF e.dir = "rx" THEN (IF DeliveryObservable(t) /\ ~e.delivered THEN "d:rx_dropped"
                               \* delivered to the application but kept from the library's own entity layer, although
                               \* the same packet alone in a gateway of its own is taken in: the decision depended on
                               \* what had been received before, not on the addresses (J24)
                               ELSE IF e.stale THEN "d:rx_dropped_after_earlier_traffic" ELSE "")
         ELSE IF e.cansend /\ ~e.written THEN "d:tx_refused" ELSE ""

DriftOf(t, e) ==
  \* the code model in the state its life-cycle actions leave it in after the history (cs = CodeAfter(t.cfg, t.conns))
  LET r == RowOf(t, e) w == CodeWantedIn(cs, r) IN
  IF ~WellFormed(t, e) THEN "harness:row"
  ELSE IF e.wanted # -1 /\ (e.wanted = 1) # w THEN "drift:is_wanted_addrs"
  ELSE IF e.dir = "rx" /\ DeliveryObservable(t) /\ e.delivered # w THEN "drift:delivered"
  ELSE IF e.dir = "tx" /\ e.cansend /\ e.written # w THEN "drift:written"
  ELSE ""

Judge(t, e) == IF Mode = "drift" THEN DriftOf(t, e) ELSE ClauseOf(t, e)

Init == /\ tid \in 1..Len(Traces) /\ l = 1
        /\ fail = IF LegalHist(Traces[tid].conns) THEN <<>> ELSE <<1, "harness:conns">>
        /\ cs = IF LegalHist(Traces[tid].conns) THEN CodeAfter(Traces[tid].cfg, Traces[tid].conns)
                ELSE CodeState(Traces[tid].cfg)
Step == /\ l <= Len(Traces[tid].rows)
        /\ LET c == Judge(Traces[tid], Traces[tid].rows[l]) IN
             fail' = IF fail = <<>> /\ c # "" THEN <<l, c>> ELSE fail
        /\ l' = l + 1 /\ UNCHANGED <<tid, cs>>
Spec == Init /\ [][Step]_vars
Verdict == (l > Len(Traces[tid].rows)) => PrintT(<<"VERDICT", tid, fail>>)
=============================================================================

SPECIFICATION TSpec
INVARIANT Verdict

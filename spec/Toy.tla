---- MODULE Toy ----
(* Self-test of the batch trace-validation convention (harness/tlc.py validate_batch). *)
EXTENDS Naturals, Sequences, TLC, Json, IOUtils
Traces == JsonDeserialize(IOEnv.TRACE_FILE)
VARIABLES tid, l, n, fail
vars == <<tid, l, n, fail>>
Init == tid \in 1..Len(Traces) /\ l = 1 /\ n = 0 /\ fail = <<>>
Step == /\ l <= Len(Traces[tid].ev)
        /\ LET e == Traces[tid].ev[l]
               bad == e.k = "w" /\ n + 1 > Traces[tid].limit IN
           /\ n' = IF e.k = "w" THEN n + 1 ELSE n
           /\ fail' = IF fail = <<>> /\ bad THEN <<l, "limit">> ELSE fail
        /\ l' = l + 1 /\ UNCHANGED tid
Spec == Init /\ [][Step]_vars
Verdict == (l > Len(Traces[tid].ev)) => PrintT(<<"VERDICT", tid, fail>>)
====

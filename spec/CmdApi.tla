---- MODULE CmdApi ----
(* C03 - command builders.

   What is specified here (transcribed from the property's anchors, not imported from the code):
     ApiMap        "verb|code" -> public constructor  (ramses_tx/command.py CODE_API_MAP)
     Slots(ctor)   the arguments a constructor takes, each with its classes of values
                   (class = [tag, t, k, s, l, dom];  dom = in the documented domain of that argument;
                   the first class of every slot is its plain default)
     decision tables  NormMode / UntilRule (_normalise_mode, _normalise_until), FragRule,
                   BindPhase (put_bind dispatch), SysModeRule, FanRule, BypassRule
     InDomain      all arguments documented AND the tables accept the combination
     ApiKey        the verb|code the constructor is registered under (for put_bind: by phase)
     Wants         the values the library's own decoder must report for the frame built
                   (decoded payload key -> value on the integer wire grid / string)
   and the clauses of C03 (DESIGN App. A) over one recorded call:
     a  built => verb|code is a key the constructor is registered under (in the code's own map)
     b  built => the library's decoder accepts the frame (regex + parser)
     c  built and decoded => every wanted value is reported, equal to wire resolution
     d  in the documented domain => built    (out of domain: refused, or harmless by a-c; J6)

   An argument value is  [tag, t, k, s, l, dom, grp]  (grp = class label findings are keyed under;
   "ood" = outside the documented domain):
     t = "none" | "int" (k) | "num" (k = value * 100, the 0.01 grid) | "str" (s) | "bool" (k)
       | "dtm" (s = ISO text, passed as datetime) | "dtmtxt" (the same, passed as ISO text)
         -- a datetime finer than the wire:  s = the wire instant it lies in, k = how far beyond it
            in microseconds (0 < k < DtmUnit), l = <<the next wire instant>>  (see DtmW)
       | a sequence of strings l, by the container it is handed over in (SeqKinds):
         "list" | "tuple" | "keys" (dict view) | "set" | "gen" (generator) | "iter" | "map"        *)
EXTENDS Naturals, Integers, Sequences, FiniteSets, TLC

----------------------------------------------------------------------------------------------
(* the API map, transcribed from command.py:1416-1462 *)
ApiMap ==
  [k \in {"RP|3EF1", " I|3EF0", " I|1FC9", " W|1FC9", " W|22F7", " I|1298", "RQ|1F41", " W|1F41", "RQ|10A0",
          " W|10A0", "RQ|1260", " I|1260", " I|22F1", " W|2411", " I|12A0", "RQ|1030", " W|1030", "RQ|3220",
          " I|1290", " I|2E10", "RQ|0008", "RQ|0404", " W|0404", "RQ|0006", " I|30C9", "RQ|0100", "RQ|0418",
          "RQ|2E04", " W|2E04", "RQ|313F", " W|313F", "RQ|1100", " W|1100", " I|0002", "RQ|000A", " W|000A",
          "RQ|2349", " W|2349", "RQ|0004", " W|0004", "RQ|2309", " W|2309", "RQ|30C9", "RQ|12B0"} |->
   CASE k = "RP|3EF1" -> "put_actuator_cycle"   [] k = " I|3EF0" -> "put_actuator_state"
     [] k = " I|1FC9" -> "put_bind"             [] k = " W|1FC9" -> "put_bind"
     [] k = " W|22F7" -> "set_bypass_position"  [] k = " I|1298" -> "put_co2_level"
     [] k = "RQ|1F41" -> "get_dhw_mode"         [] k = " W|1F41" -> "set_dhw_mode"
     [] k = "RQ|10A0" -> "get_dhw_params"       [] k = " W|10A0" -> "set_dhw_params"
     [] k = "RQ|1260" -> "get_dhw_temp"         [] k = " I|1260" -> "put_dhw_temp"
     [] k = " I|22F1" -> "set_fan_mode"         [] k = " W|2411" -> "set_fan_param"
     [] k = " I|12A0" -> "put_indoor_humidity"  [] k = "RQ|1030" -> "get_mix_valve_params"
     [] k = " W|1030" -> "set_mix_valve_params" [] k = "RQ|3220" -> "get_opentherm_data"
     [] k = " I|1290" -> "put_outdoor_temp"     [] k = " I|2E10" -> "put_presence_detected"
     [] k = "RQ|0008" -> "get_relay_demand"     [] k = "RQ|0404" -> "get_schedule_fragment"
     [] k = " W|0404" -> "set_schedule_fragment" [] k = "RQ|0006" -> "get_schedule_version"
     [] k = " I|30C9" -> "put_sensor_temp"      [] k = "RQ|0100" -> "get_system_language"
     [] k = "RQ|0418" -> "get_system_log_entry" [] k = "RQ|2E04" -> "get_system_mode"
     [] k = " W|2E04" -> "set_system_mode"      [] k = "RQ|313F" -> "get_system_time"
     [] k = " W|313F" -> "set_system_time"      [] k = "RQ|1100" -> "get_tpi_params"
     [] k = " W|1100" -> "set_tpi_params"       [] k = " I|0002" -> "put_weather_temp"
     [] k = "RQ|000A" -> "get_zone_config"      [] k = " W|000A" -> "set_zone_config"
     [] k = "RQ|2349" -> "get_zone_mode"        [] k = " W|2349" -> "set_zone_mode"
     [] k = "RQ|0004" -> "get_zone_name"        [] k = " W|0004" -> "set_zone_name"
     [] k = "RQ|2309" -> "get_zone_setpoint"    [] k = " W|2309" -> "set_zone_setpoint"
     [] k = "RQ|30C9" -> "get_zone_temp"        [] k = "RQ|12B0" -> "get_zone_window_state"]

Ctors == {ApiMap[k] : k \in DOMAIN ApiMap}

----------------------------------------------------------------------------------------------
(* argument values *)
V(tag, t, k, s, l, dom) == [tag |-> tag, t |-> t, k |-> k, s |-> s, l |-> l, dom |-> dom,
                            grp |-> IF dom THEN tag ELSE "ood"]      \* grp: the input class a finding is keyed under
Gp(v, g) == [v EXCEPT !.grp = g]
Vn(tag, dom)        == V(tag, "none", 0, "", <<>>, dom)
Vi(tag, k, dom)     == V(tag, "int",  k, "", <<>>, dom)
Vr(tag, k, dom)     == V(tag, "num",  k, "", <<>>, dom)      \* k = value * 100
Vs(tag, s, dom)     == V(tag, "str",  0, s,  <<>>, dom)
Vb(tag, k, dom)     == V(tag, "bool", k, "", <<>>, dom)
Vd(tag, s, dom)     == V(tag, "dtm",  0, s,  <<>>, dom)
Vl(tag, l, dom)     == V(tag, "list", 0, "", l,    dom)
Vq(tag, kind, l, dom) == V(tag, kind, 0, "", l, dom)          \* the sequence l handed over in a container of that kind
Vdf(tag, lo, us, hi, dom)  == V(tag, "dtm",    us, lo, <<hi>>, dom)   \* the datetime lo + us microseconds (hi = next wire instant)
Vdft(tag, lo, us, hi, dom) == V(tag, "dtmtxt", us, lo, <<hi>>, dom)   \* the same as ISO text

(* containers a sequence-valued argument can come in.  Re-iterable ones can be read any number of times; a
   one-shot iterator yields its items once (and is true even when it has none).  Whatever the container, the
   argument *is* the sequence of items it yields: a call that builds a frame must carry those (clause c). *)
ReIterable == {"list", "tuple", "keys", "set"}
OneShot    == {"gen", "iter", "map"}
SeqKinds   == ReIterable \cup OneShot
DtmKinds   == {"dtm", "dtmtxt"}

HexD == <<"0","1","2","3","4","5","6","7","8","9","A","B","C","D","E","F">>
Hex2(n) == IF n \in 0..255 THEN HexD[(n \div 16) + 1] \o HexD[(n % 16) + 1] ELSE "??"      \* 0..255 -> "00".."FF"

(* a wanted / reported value of the decoded payload *)
W(key, t, k, s) == [key |-> key, t |-> t, k |-> k, s |-> s, s2 |-> ""]      \* s2: a second text that is as good (Wd)
Wn(key)    == W(key, "none", 0, "")
Wi(key, k) == W(key, "int", k, "")
Wr(key, k) == W(key, "num", k, "")
Ws(key, s) == W(key, "str", 0, s)
Wb(key, k) == W(key, "bool", k, "")
Wd(key, lo, hi) == [W(key, "str", 0, lo) EXCEPT !.s2 = hi]

(* datetimes on the wire: W|313F carries whole seconds, every `until` whole minutes (hex_from_dtm sends the
   fields of dtm.timetuple(), without the seconds byte for an until: finer fields are dropped).  An argument
   that lies between two wire instants lo < arg < hi is carried "to wire resolution" by lo (what the library's
   encoder sends) or by hi (an encoder that rounds up / to nearest, with the carry) -- by nothing else. *)
DtmUnit(ctor, slot) == IF ctor = "set_system_time" /\ slot = "datetime" THEN 1000000 ELSE 60000000    \* microseconds
DtmW(key, v) == IF v.t \in DtmKinds /\ v.k > 0 THEN Wd(key, v.s, v.l[1]) ELSE Ws(key, v.s)

----------------------------------------------------------------------------------------------
(* zone / domain index as the library prints it, given the argument ( _check_idx ) *)
IdxHex(a) == IF a.t = "int" THEN Hex2(a.k) ELSE IF a.s = "HW" THEN "FA" ELSE a.s

(* zone modes, system modes *)
ModeName(c) == CASE c = "00" -> "follow_schedule" [] c = "01" -> "advanced_override" [] c = "02" -> "permanent_override"
                 [] c = "03" -> "countdown_override" [] c = "04" -> "temporary_override" [] OTHER -> "?"
ModeCodes == {"00", "01", "02", "03", "04"}
ModeCodeOfName(n) == IF \E c \in ModeCodes : ModeName(c) = n THEN CHOOSE c \in ModeCodes : ModeName(c) = n ELSE "?"

SysName(c) == CASE c = "00" -> "auto" [] c = "01" -> "heat_off" [] c = "02" -> "eco_boost" [] c = "03" -> "away"
                [] c = "04" -> "day_off" [] c = "05" -> "day_off_eco" [] c = "06" -> "auto_with_reset" [] c = "07" -> "custom"
                [] OTHER -> "?"
SysCodes == {"00", "01", "02", "03", "04", "05", "06", "07"}
SysCodeOfName(n) == IF \E c \in SysCodes : SysName(c) = n THEN CHOOSE c \in SysCodes : SysName(c) = n ELSE "?"

(* a mode argument (None | int | code string | name) as the 2-character code, "?" if unknown *)
CodeOf(a, codes, ofName(_)) ==
  CASE a.t = "int" -> IF a.k < 256 /\ Hex2(a.k) \in codes THEN Hex2(a.k) ELSE "?"
    [] a.t = "str" -> IF a.s \in codes THEN a.s ELSE ofName(a.s)
    [] OTHER       -> "?"

Truthy(a) == CASE a.t = "none" -> FALSE [] a.t = "int" -> a.k # 0 [] a.t = "num" -> a.k # 0 [] a.t = "bool" -> a.k # 0
               [] a.t = "str" -> a.s # "" [] a.t \in ReIterable -> a.l # <<>> [] OTHER -> TRUE     \* a one-shot iterator is true
IsNone(a) == a.t = "none"

(* _normalise_mode(mode, target, until, duration): the 2-character mode, or "Refuse" *)
NormMode(mode, target, until, duration) ==
  IF IsNone(mode) /\ IsNone(target) THEN "Refuse"
  ELSE IF Truthy(until) /\ Truthy(duration) THEN "Refuse"
  ELSE LET m == IF IsNone(mode)
                THEN (IF Truthy(until) THEN "04" ELSE IF Truthy(duration) THEN "03" ELSE "02")
                ELSE CodeOf(mode, ModeCodes, ModeCodeOfName)
       IN IF m = "?" THEN "Refuse"
          ELSE IF m # "00" /\ IsNone(target) THEN "Refuse"
          ELSE m

(* _normalise_until(mode, _, until, duration): TRUE = accepted *)
UntilRule(m, until, duration) ==
  CASE m = "04" -> IsNone(duration)
    [] m = "03" -> ~IsNone(duration) /\ IsNone(until)
    [] OTHER    -> IsNone(until) /\ IsNone(duration)

(* get_schedule_fragment: frag_number is 1-indexed; total_frags must be 0/None with the first fragment *)
FragRuleGet(n, total) ==
  LET tot == IF IsNone(total) THEN 0 ELSE total.k IN
  /\ n.k # 0
  /\ ~(n.k = 1 /\ tot # 0)
  /\ ~(n.k > tot /\ tot # 0)
(* set_schedule_fragment *)
FragRuleSet(n, cnt) == n.k # 0 /\ n.k <= cnt.k

(* put_bind dispatch on (verb, dst relation): "offer" | "accept" | "confirm" | "Refuse" *)
BindPhase(verb, rel) ==
  IF verb = " I" /\ rel \in {"none", "self", "all"} THEN "offer"
  ELSE IF verb = " W" /\ rel \notin {"none", "self"} THEN "accept"
  ELSE IF verb = " I" THEN "confirm"
  ELSE "Refuse"

----------------------------------------------------------------------------------------------
(* One call: ctor name + args, a sequence of [slot, tag, t, k, s, l, dom].  G picks a slot's value
   (Absent if the constructor was called without it). *)
Absent == [slot |-> "", tag |-> "absent", t |-> "none", k |-> 0, s |-> "", l |-> <<>>, dom |-> TRUE]
Has(args, name) == \E i \in 1..Len(args) : args[i].slot = name /\ args[i].tag # "absent"
G(args, name)   == IF Has(args, name) THEN args[CHOOSE i \in 1..Len(args) : args[i].slot = name /\ args[i].tag # "absent"] ELSE Absent

ZoneRQ  == {"get_zone_temp", "get_zone_window_state", "get_zone_name", "get_zone_config", "get_zone_mode",
            "get_zone_setpoint", "get_mix_valve_params"}
DhwRQ   == {"get_dhw_mode", "get_dhw_params", "get_dhw_temp"}
NoArgRQ == {"get_schedule_version", "get_system_language", "get_system_mode", "get_system_time"}

RECURSIVE JoinC(_)
JoinC(q) == IF q = <<>> THEN "" ELSE IF Len(q) = 1 THEN q[1] ELSE q[1] \o "," \o JoinC(Tail(q))
RECURSIVE Drop(_, _)
Drop(q, S) == IF q = <<>> THEN <<>> ELSE (IF q[1] \in S THEN <<>> ELSE <<q[1]>>) \o Drop(Tail(q), S)

BindCodes(a) == LET c == G(a, "codes") IN IF c.t \in SeqKinds THEN c.l ELSE IF c.t = "str" /\ c.s # "" THEN <<c.s>> ELSE <<>>
BindPh(a)    == BindPhase(G(a, "verb").s, G(a, "dstrel").s)

FanCodes == {"00","01","02","03","04","05","06","07"}
FanName(c) == CASE c = "00" -> "away" [] c = "01" -> "low" [] c = "02" -> "medium" [] c = "03" -> "high"
                [] c = "04" -> "auto" [] c = "05" -> "auto_alt" [] c = "06" -> "boost" [] c = "07" -> "off" [] OTHER -> "?"
FanCodeOfName(n) == IF \E c \in FanCodes : FanName(c) = n THEN CHOOSE c \in FanCodes : FanName(c) = n ELSE "?"
FanCode(a) == LET m == G(a, "fan_mode") IN IF IsNone(m) THEN "00" ELSE CodeOf(m, FanCodes, FanCodeOfName)

SysCode(a) == LET m == G(a, "system_mode") IN IF IsNone(m) THEN "00" ELSE CodeOf(m, SysCodes, SysCodeOfName)

ZoneMode(a) == NormMode(G(a, "mode"), G(a, "setpoint"), G(a, "until"), G(a, "duration"))
DhwMode(a)  == NormMode(G(a, "mode"), G(a, "active"),   G(a, "until"), G(a, "duration"))

(* the decision tables accept the combination of arguments *)
TableOK(ctor, a) ==
  CASE ctor = "set_zone_mode" -> ZoneMode(a) # "Refuse" /\ UntilRule(ZoneMode(a), G(a, "until"), G(a, "duration"))
    [] ctor = "set_dhw_mode"  -> DhwMode(a) # "Refuse" /\ UntilRule(DhwMode(a), G(a, "until"), G(a, "duration"))
    [] ctor = "get_schedule_fragment" -> FragRuleGet(G(a, "frag_number"), G(a, "total_frags"))
    [] ctor = "set_schedule_fragment" -> FragRuleSet(G(a, "frag_num"), G(a, "frag_cnt"))
    [] ctor = "put_bind" -> /\ BindPh(a) # "Refuse"
                            /\ (BindPh(a) = "offer"  => Drop(BindCodes(a), {"1FC9", "10E0"}) # <<>>)
                            /\ (BindPh(a) = "accept" => BindCodes(a) # <<>>)
                            /\ (BindPh(a) = "offer"  => ~Has(a, "idx"))             \* idx: accept / confirm only
                            /\ (BindPh(a) # "offer"  => ~Has(a, "oem_code"))        \* oem_code: offer only
    [] ctor = "set_system_mode" -> /\ SysCode(a) # "?"
                                   /\ ~(~IsNone(G(a, "until")) /\ SysCode(a) \in {"00", "06", "01"})
    [] ctor = "set_fan_mode" -> FanCode(a) # "?" /\ ~(Truthy(G(a, "src")) /\ Truthy(G(a, "seqn")))
    [] ctor = "set_bypass_position" -> ~(Truthy(G(a, "bypass_mode")) /\ ~IsNone(G(a, "bypass_position")))
    [] OTHER -> TRUE

AllDom(a) == \A i \in 1..Len(a) : a[i].dom

(* the call is inside the documented domain of the constructor: it must build *)
InDomain(ctor, a) == AllDom(a) /\ TableOK(ctor, a)

(* the key the constructor is registered under *)
KeysOf(ctor) == {k \in DOMAIN ApiMap : ApiMap[k] = ctor}
ApiKeyOf(ctor, a) ==
  IF ctor = "put_bind" THEN (IF BindPh(a) = "accept" THEN " W|1FC9" ELSE " I|1FC9")
  ELSE CHOOSE k \in KeysOf(ctor) : TRUE

----------------------------------------------------------------------------------------------
(* what the decoder must report *)
ZoneW(a)  == Ws("zone_idx", IF IdxHex(G(a, "zone_idx")) = "FA" THEN "HW" ELSE IdxHex(G(a, "zone_idx")))
DhwIdxW(a) == Ws("dhw_idx", IF Has(a, "dhw_idx") THEN Hex2(G(a, "dhw_idx").k) ELSE "00")
OptW(a, slot, key) == LET v == G(a, slot) IN
  CASE v.t = "none" -> {Wn(key)} [] v.t = "num" -> {Wr(key, v.k)} [] v.t = "int" -> {Wi(key, v.k)}
    [] v.t = "bool" -> {Wb(key, v.k)} [] v.t = "str" -> {Ws(key, v.s)} [] v.t \in DtmKinds -> {DtmW(key, v)} [] OTHER -> {}
Dflt(a, slot, v) == IF Has(a, slot) /\ ~IsNone(G(a, slot)) THEN G(a, slot) ELSE v
NumW(a, slot, key, dflt) == LET v == Dflt(a, slot, Vr("d", dflt, TRUE)) IN Wr(key, IF v.t = "int" THEN v.k * 100 ELSE v.k)
IntW(a, slot, key, dflt) == Wi(key, Dflt(a, slot, Vi("d", dflt, TRUE)).k)
BoolW(a, slot, key, dflt) == Wb(key, Dflt(a, slot, Vb("d", dflt, TRUE)).k)

Wants(ctor, a) ==
  CASE ctor \in ZoneRQ -> {Ws("_idx", IdxHex(G(a, "zone_idx")))}
    [] ctor \in DhwRQ  -> {Ws("_idx", IF Has(a, "dhw_idx") THEN Hex2(G(a, "dhw_idx").k) ELSE "00")}
    [] ctor \in NoArgRQ -> {}
    [] ctor = "get_relay_demand" -> IF IsNone(G(a, "zone_idx")) THEN {} ELSE {Ws("_idx", IdxHex(G(a, "zone_idx")))}
    [] ctor = "get_tpi_params" -> LET d == G(a, "domain_id") IN
                                  IF IsNone(d) THEN {Ws("_idx", "FC")} ELSE IF IdxHex(d) = "FC" THEN {Ws("_idx", "FC")} ELSE {}
    [] ctor = "get_schedule_fragment" ->
         {ZoneW(a), Wi("frag_number", G(a, "frag_number").k),
          IF IsNone(G(a, "total_frags")) \/ G(a, "total_frags").k = 0 THEN Wn("total_frags") ELSE Wi("total_frags", G(a, "total_frags").k)}
    [] ctor = "set_schedule_fragment" ->
         {ZoneW(a), Wi("frag_number", G(a, "frag_num").k), Wi("total_frags", G(a, "frag_cnt").k),
          Wi("frag_length", Len(G(a, "fragment").s) \div 2), Ws("fragment", G(a, "fragment").s)}
    [] ctor = "get_system_log_entry" -> {Ws("log_idx", IdxHex(G(a, "log_idx")))}
    [] ctor = "get_opentherm_data" -> IF G(a, "msg_id").t = "int" THEN {Wi("msg_id", G(a, "msg_id").k)} ELSE {}
    [] ctor = "set_zone_name" -> {ZoneW(a), Ws("name", G(a, "name").s)}
    [] ctor = "set_zone_config" ->
         {ZoneW(a), NumW(a, "min_temp", "min_temp", 500), NumW(a, "max_temp", "max_temp", 3500),
          BoolW(a, "local_override", "local_override", 0), BoolW(a, "openwindow_function", "openwindow_function", 0),
          BoolW(a, "multiroom_mode", "multiroom_mode", 0)}
    [] ctor = "set_mix_valve_params" ->
         {ZoneW(a), IntW(a, "max_flow_setpoint", "max_flow_setpoint", 55), IntW(a, "min_flow_setpoint", "min_flow_setpoint", 15),
          IntW(a, "valve_run_time", "valve_run_time", 150), IntW(a, "pump_run_time", "pump_run_time", 15)}
    [] ctor = "set_dhw_params" ->
         {DhwIdxW(a), NumW(a, "setpoint", "setpoint", 5000), IntW(a, "overrun", "overrun", 5), NumW(a, "differential", "differential", 100)}
    [] ctor = "set_tpi_params" ->
         (IF IsNone(G(a, "domain_id")) \/ IdxHex(G(a, "domain_id")) = "00" THEN {}       \* 00 = "no domain": not reported
          ELSE {Ws("domain_id", IdxHex(G(a, "domain_id")))})
         \cup {IntW(a, "cycle_rate", "cycle_rate", 3), NumW(a, "min_on_time", "min_on_time", 500), NumW(a, "min_off_time", "min_off_time", 500)}
         \cup OptW(a, "proportional_band_width", "proportional_band_width")
    [] ctor = "set_dhw_mode" ->
         {DhwIdxW(a), Ws("mode", ModeName(DhwMode(a)))}
         \cup (IF DhwMode(a) = "00" \/ IsNone(G(a, "active")) THEN {} ELSE {Wb("active", IF Truthy(G(a, "active")) THEN 1 ELSE 0)})
         \cup (IF IsNone(G(a, "until")) THEN {} ELSE {DtmW("until", G(a, "until"))})
    [] ctor = "set_zone_mode" ->
         {ZoneW(a), Ws("mode", ModeName(ZoneMode(a)))} \cup OptW(a, "setpoint", "setpoint")
         \cup (IF IsNone(G(a, "until")) THEN {} ELSE {DtmW("until", G(a, "until"))})
         \cup (IF IsNone(G(a, "duration")) THEN {} ELSE {Wi("duration", G(a, "duration").k)})
    [] ctor = "set_zone_setpoint" -> {ZoneW(a)} \cup OptW(a, "setpoint", "setpoint")
    [] ctor = "set_system_mode" ->
         {Ws("system_mode", SysName(SysCode(a)))} \cup (IF IsNone(G(a, "until")) THEN {} ELSE {DtmW("until", G(a, "until"))})
    [] ctor = "set_system_time" -> OptW(a, "datetime", "datetime") \cup {BoolW(a, "is_dst", "is_dst", 0)}
    [] ctor \in {"put_sensor_temp", "put_dhw_temp", "put_weather_temp"} -> OptW(a, "temperature", "temperature")
    [] ctor = "put_outdoor_temp" -> OptW(a, "temperature", "outdoor_temp")
    [] ctor = "put_co2_level" -> OptW(a, "co2_level", "co2_level")
    [] ctor = "put_indoor_humidity" -> OptW(a, "indoor_humidity", "indoor_humidity")
    [] ctor = "put_presence_detected" -> OptW(a, "presence_detected", "presence_detected")
    [] ctor = "put_actuator_state" -> OptW(a, "modulation_level", "modulation_level")
    [] ctor = "put_actuator_cycle" ->
         OptW(a, "modulation_level", "modulation_level") \cup {Wi("actuator_countdown", G(a, "actuator_countdown").k)}
         \cup OptW(a, "cycle_countdown", "cycle_countdown")
    [] ctor = "put_bind" ->
         LET ph == BindPh(a)
             cs == BindCodes(a)
             oem == G(a, "oem_code") IN
         {Ws("phase", ph),
          Ws("codes", CASE ph = "offer"  -> JoinC(Drop(cs, {"1FC9", "10E0"}) \o (IF Truthy(oem) THEN <<"10E0">> ELSE <<>>) \o <<"1FC9">>)
                        [] ph = "accept" -> JoinC(cs)
                        [] OTHER         -> IF cs = <<>> THEN "" ELSE cs[1])}
         \* an idx that was asked for must be the one the frame carries, whatever the phase (an offer that is given
         \* one is outside the domain: if it is built all the same, dropping the idx silently is the harm of clause d)
         \cup (IF ph \in {"accept", "confirm"} \/ Truthy(G(a, "idx"))
               THEN {Ws("bidx", IF Truthy(G(a, "idx")) THEN G(a, "idx").s ELSE "00")} ELSE {})
    [] ctor = "set_fan_mode" ->       \* a name must come back as that name, a number/code as that index
         LET m == G(a, "fan_mode") IN
         IF m.t = "str" /\ m.s \notin FanCodes THEN {Ws("fan_mode", m.s)} ELSE {Ws("_mode_idx", FanCode(a))}
    [] ctor = "set_fan_param" -> {Ws("parameter", G(a, "param_id").s), Wi("value", G(a, "value").k)}
    [] ctor = "set_bypass_position" ->
         LET p == G(a, "bypass_position")
             m == G(a, "bypass_mode") IN
         IF ~IsNone(p) THEN (IF p.k = 0 THEN {Ws("bypass_mode", "off")} ELSE IF p.k = 100 THEN {Ws("bypass_mode", "on")}
                             ELSE {Wr("bypass_position", p.k)})
         ELSE IF Truthy(m) THEN {Ws("bypass_mode", m.s)} ELSE {Ws("bypass_mode", "auto")}
    [] OTHER -> {}

(* equality to wire resolution: numbers on the 0.01 grid; an int may be reported for a whole number *)
SameVal(w, g) ==
  \/ (w.t = g.t /\ w.k = g.k /\ w.s = g.s)
  \/ (w.t = "num" /\ g.t = "int" /\ w.k = g.k * 100)
  \/ (w.t = "int" /\ g.t = "num" /\ w.k * 100 = g.k)
  \/ (w.t = "bool" /\ g.t = "int" /\ w.k = g.k)
  \/ (w.t = "int" /\ g.t = "bool" /\ w.k = g.k)
  \/ (w.t = "bool" /\ w.k = 0 /\ g.t = "none")             \* a flag that is not set may be reported as None
  \/ (w.t = "str" /\ w.s2 # "" /\ g.t = "str" /\ g.s = w.s2) \* a datetime between two wire instants: either of them

Carried(w, got) == \E i \in 1..Len(got) : got[i].key = w.key /\ SameVal(w, got[i])
MissingWants(ctor, a, got) == {w \in Wants(ctor, a) : ~Carried(w, got)}

(* the clauses over one recorded call r = [ctor, args, built, verb, code, dec, got] *)
(* a: "registered under in the library's API map" -- r.reg = the keys under which the code's own
   CODE_API_MAP registers this constructor (observed); for put_bind the key of the phase built *)
ClauseA(r) == r.built => /\ \E i \in 1..Len(r.reg) : r.reg[i] = (r.verb \o "|" \o r.code)
                         /\ (r.ctor = "put_bind" => (r.verb \o "|" \o r.code) = ApiKeyOf(r.ctor, r.args))
(* drift only: the transcribed map names another key for this constructor than the code's map *)
MapAgrees(r) == \A i \in 1..Len(r.reg) : r.reg[i] \in KeysOf(r.ctor)
ClauseB(r) == r.built => r.dec
ClauseC(r) == (r.built /\ r.dec) => MissingWants(r.ctor, r.args, r.got) = {}
ClauseD(r) == InDomain(r.ctor, r.args) => r.built
(* drift only: the transcribed decision tables refuse a combination of documented values, yet the code built *)
TablesAgree(r) == (AllDom(r.args) /\ ~TableOK(r.ctor, r.args)) => ~r.built
====
